"""Run TLC on a specification of /verif/spec and collect statistics, verdicts and exports.

Every run happens in a private scratch directory (removed afterwards): the spec modules are
copied there, the config is written there, TLC's metadir lives there.  Nothing is left behind.
"""
import json
import os
import re
import shutil
import subprocess
import tempfile
import time

VERIF = os.path.dirname(os.path.dirname(os.path.abspath(__file__)))
SPEC = os.path.join(VERIF, 'spec')
JAR = '/opt/veriftools/tla/tla2tools.jar:/opt/veriftools/tla/CommunityModules-deps.jar'


class TLCFailure(Exception):
    """machinery failure: TLC crashed / spec error (exit 2 territory)"""


class TLCResult:
    def __init__(self):
        self.generated = 0
        self.distinct = 0
        self.depth = 0
        self.wall = 0.0
        self.prints = []          # decoded PrintT(ToJson(..)) values
        self.violated = None      # name of a violated invariant / property, if any
        self.error_trace = None   # raw text of TLC's counterexample
        self.coverage = {}        # action name -> count (when -coverage was on)
        self.stdout_tail = ''
        self.ok = False           # completed without error

    def __repr__(self):
        return ('<TLC gen=%d distinct=%d depth=%d prints=%d violated=%r ok=%r %.1fs>' %
                (self.generated, self.distinct, self.depth, len(self.prints),
                 self.violated, self.ok, self.wall))


_stat = re.compile(r'^(\d+) states generated, (\d+) distinct states found')
_depth = re.compile(r'^The depth of the complete state graph search is (\d+)')
_viol = re.compile(r'^Error: (?:Invariant|Action property|Temporal property) (\S+) (?:is|was) violated')
_cov = re.compile(r'^<(\w+) line (\d+), col (\d+) to line (\d+), col (\d+) of module (\w+)>: (\d+):(\d+)')


def scratch(prefix='verif-'):
    return tempfile.mkdtemp(prefix=prefix, dir=os.environ.get('VERIF_SCRATCH', '/tmp'))


def run(module, cfg, *, files=None, workers=16, simulate=None, seed=None, depth=None,
        timeout=3600, coverage=False, on_print=None, keep_prints=True, extra_java=None,
        dfs=False, heap=None):
    """Run TLC on spec/<module>.tla with config text `cfg`.

    files: dict name -> text/bytes of extra files (e.g. JSON inputs) to place next to the spec.
    simulate: None for exhaustive BFS, or 'num=N' style simulate argument.
    on_print(value): streaming callback for every exported JSON value.
    """
    d = scratch('verif-tlc-')
    res = TLCResult()
    t0 = time.time()
    try:
        for f in os.listdir(SPEC):
            if f.endswith('.tla'):
                shutil.copy(os.path.join(SPEC, f), d)
        with open(os.path.join(d, module + '.cfg'), 'w') as fh:
            fh.write(cfg)
        for name, data in (files or {}).items():
            mode = 'wb' if isinstance(data, bytes) else 'w'
            with open(os.path.join(d, name), mode) as fh:
                fh.write(data)
        cmd = ['java', '-XX:+UseParallelGC']
        if heap:
            cmd.append('-Xmx' + heap)
        if dfs:
            cmd.append('-Dtlc2.tool.queue.IStateQueue=StateDeque')
        cmd += list(extra_java or [])
        cmd += ['-cp', JAR, 'tlc2.TLC', '-workers', str(workers), '-metadir',
                os.path.join(d, 'meta'), '-noGenerateSpecTE', '-config', module + '.cfg']
        if coverage:
            cmd += ['-coverage', '1']
        if simulate:
            cmd += ['-simulate', simulate]
            if depth:
                cmd += ['-depth', str(depth)]
        if seed is not None:
            cmd += ['-seed', str(seed)]
        cmd.append(module)
        out_path = os.path.join(d, 'tlc.out')
        with open(out_path, 'w') as out:
            try:
                p = subprocess.run(cmd, cwd=d, stdout=out, stderr=subprocess.STDOUT,
                                   timeout=timeout)
                rc = p.returncode
            except subprocess.TimeoutExpired:
                rc = -9
        tail = []
        in_err = False
        err_lines = []
        with open(out_path, errors='replace') as fh:
            for line in fh:
                line = line.rstrip('\n')
                if line.startswith('"') and line.endswith('"') and len(line) > 1:
                    try:
                        v = json.loads(json.loads(line))
                    except Exception:
                        v = None
                    if v is not None:
                        if on_print is not None:
                            on_print(v)
                        if keep_prints:
                            res.prints.append(v)
                        continue
                m = _stat.match(line)
                if m:
                    res.generated, res.distinct = int(m.group(1)), int(m.group(2))
                m = _depth.match(line)
                if m:
                    res.depth = int(m.group(1))
                m = _viol.match(line)
                if m:
                    res.violated = m.group(1)
                    in_err = True
                elif line.startswith('Error:') and not in_err:
                    in_err = True                     # evaluation errors: keep what TLC says about them
                m = _cov.match(line)
                if m:
                    res.coverage[m.group(1)] = res.coverage.get(m.group(1), 0) + int(m.group(7))
                if in_err:
                    err_lines.append(line)
                tail.append(line)
                if len(tail) > 60:
                    del tail[0]
        res.stdout_tail = '\n'.join(tail)
        res.error_trace = '\n'.join(err_lines[:400]) if err_lines else None
        res.wall = time.time() - t0
        completed = any('Model checking completed. No error has been found' in l or
                        'Finished in' in l for l in tail)
        if simulate and rc in (0, -9):
            completed = True
        res.ok = (rc == 0 and res.violated is None and completed) or \
                 (simulate is not None and res.violated is None and rc in (0, -9))
        if res.violated is None and rc not in (0,) and not (simulate and rc == -9):
            raise TLCFailure('TLC failed (rc=%s) on %s:\n%s\n%s' % (rc, module, '\n'.join(err_lines[:40]), res.stdout_tail[-1500:]))
        return res
    finally:
        shutil.rmtree(d, ignore_errors=True)


def sany(module):
    p = subprocess.run(['java', '-cp', JAR, 'tla2sany.SANY', module + '.tla'], cwd=SPEC,
                       capture_output=True, text=True)
    ok = p.returncode == 0 and 'Semantic errors' not in p.stdout and \
        'Parse Error' not in p.stdout and 'Fatal' not in p.stdout
    return ok, p.stdout + p.stderr
