"""Recorder of name resolution (C02, projection spec ObsLookup.tla).  Installed from outside, nothing in /repo is edited.

Every frame pushed on a TemplateDict is wrapped in a transparent recording proxy, so each read the real search makes
(`e[key]` in TemplateDict.getitem / __contains__) is observed together with its outcome; before a search starts the
recorder itself reads every raw frame to learn which frames define the name.  One trace per TemplateDict object:
push / pop(n) / get{key, defs, probes, how, got}.

As a pytest plugin (-p harness.lookup_rec, PYTHONPATH=/verif) it traces the repository's own tests; as a program
(python -m harness.lookup_rec cases.json out.json) it traces the DTRender cases of the checks."""
import json
import os
import sys

TRACES = []
_cur = {'test': ''}
_MAX_EVENTS = 3000
_MISS = (KeyError, NameError)


class FrameProxy:
    """stands for one pushed mapping; reads are delegated and reported to the search in progress"""
    __slots__ = ('f', 't', 'idx')

    def __init__(self, f, t, idx):
        self.f, self.t, self.idx = f, t, idx

    def __getitem__(self, key):
        op = self.t['open']
        try:
            v = self.f[key]
        except _MISS:
            if op:
                op[-1].append([self.idx, 'n'])
            raise
        except BaseException:
            if op:
                op[-1].append([self.idx, 'x'])
            raise
        if op:
            op[-1].append([self.idx, 'y'])
        return v

    def __len__(self):
        return len(self.f)

    def __setitem__(self, key, value):
        self.f[key] = value

    def __contains__(self, key):
        return key in self.f

    def __getattr__(self, name):
        return getattr(self.f, name)

    def __repr__(self):
        return repr(self.f)


def raw(fr):
    return fr.f if isinstance(fr, FrameProxy) else fr


def _trace_of(md):
    try:
        t = getattr(md, 'verif_lookup_trace', None)
    except Exception:
        t = None
    if t is None:
        t = {'ev': [], 'initial': len(md._data), 'test': _cur['test'], 'open': [], 'full': False}
        try:
            md.verif_lookup_trace = t
        except Exception:
            return None
        TRACES.append(t)
    return t


def _defs(md, key):
    """which frames define `key` right now.  For an InstanceDict the source is the client object itself (what it has cached
    it keeps serving; otherwise the object is asked, through the guard, without going through the InstanceDict)"""
    from DocumentTemplate._DocumentTemplate import InstanceDict
    out = []
    for fr in md._data:
        r = raw(fr)
        try:
            if type(r) is InstanceDict and isinstance(key, str) and key:
                if key in r.cache:
                    try:
                        r[key]                      # a value it has cached it keeps serving
                        out.append('y')
                        continue
                    except _MISS:
                        pass                        # a remembered miss is not a fact about the client
                if key[0] == '_':
                    out.append('y' if key == '__str__' else 'n')
                    continue
                get = r.guarded_getattr or getattr
                try:
                    get(r.inst, key)
                    out.append('y')
                except AttributeError:
                    out.append('n')
                continue
            r[key]
            out.append('y')
        except _MISS:
            out.append('n')
        except BaseException:
            out.append('x')
    return out


def install():
    from DocumentTemplate._DocumentTemplate import TemplateDict
    op, oo, og, oc = TemplateDict._push, TemplateDict._pop, TemplateDict.getitem, TemplateDict.__contains__

    def _push(self, src):
        t = _trace_of(self)
        if t is None:
            return op(self, src)
        r = op(self, FrameProxy(src, t, len(self._data) + 1))
        if not t['full']:
            t['ev'].append({'e': 'push'})
        return r

    def _pop(self, i=1):
        t = _trace_of(self)
        if t is not None and not t['full']:
            t['ev'].append({'e': 'pop', 'n': i})
        return raw(oo(self, i))

    def _search(self, key, real, contains=False):
        t = _trace_of(self)
        if t is None or t['full']:
            return real()
        if len(t['ev']) >= _MAX_EVENTS:
            t['full'] = True
            return real()
        ev = {'e': 'get', 'key': key if isinstance(key, str) else repr(key), 'defs': _defs(self, key), 'probes': [],
              'how': 'val', 'got': 0}
        t['ev'].append(ev)
        probes = ev['probes']
        t['open'].append(probes)
        raised = None
        res = [None]
        try:
            res[0] = real()
            return res[0]
        except BaseException as e:
            raised = e
            raise
        finally:
            t['open'].pop()
            if probes and probes[-1][1] == 'y':
                ev['how'], ev['got'] = 'val', probes[-1][0]
            elif probes and probes[-1][1] == 'x':
                ev['how'] = 'exc'
            elif raised is not None and isinstance(raised, KeyError):
                ev['how'] = 'keyerror'
            elif raised is not None:
                ev['how'] = 'exc'
            elif contains and res[0] is False:
                ev['how'] = 'keyerror'
            else:
                ev['how'], ev['got'] = 'val', 0          # answered without reading a frame: source unobserved

    def getitem(self, key, call=0):
        return _search(self, key, lambda: og(self, key, call))

    def __getitem__(self, key):
        return _search(self, key, lambda: og(self, key, 1))

    def __contains__(self, key):
        # the answer False is the analogue of KeyError
        return _search(self, key, lambda: oc(self, key), contains=True)

    TemplateDict._push = _push
    TemplateDict._pop = _pop
    TemplateDict.getitem = getitem
    TemplateDict.__getitem__ = __getitem__
    TemplateDict.__contains__ = __contains__
    TemplateDict.has_key = lambda self, key: key in self


def dump(path):
    with open(path, 'w') as fh:
        json.dump([{'ev': t['ev'], 'initial': t['initial'], 'test': t['test'], 'truncated': t['full']}
                   for t in TRACES if any(e['e'] == 'get' for e in t['ev'])], fh)


# ---- pytest plugin -------------------------------------------------------------------------------

def pytest_configure(config):
    install()


def pytest_runtest_setup(item):
    _cur['test'] = item.nodeid


def pytest_sessionfinish(session, exitstatus):
    out = os.environ.get('VERIF_TRACE_OUT')
    if out:
        dump(out)


# ---- program: trace DTRender cases ---------------------------------------------------------------

class Lazy:
    """a client whose attributes appear while the template is rendered (a lazily loading object)"""

    def __init__(self, **later):
        self._later = later

    def load(self):
        self.__dict__.update(self._later)
        return ''


DYNAMIC = [
    # (source, how the namespace is built): a name first resolves from a lower source, then the client acquires it
    ('<dtml-var n>|<dtml-call load>|<dtml-var n>|<dtml-if n>i</dtml-if>', 'client'),
    ('<dtml-var n>|<dtml-var n>|<dtml-call load><dtml-var n>', 'client'),
    ('<dtml-var n>|<dtml-call load>|<dtml-var n>', 'tuple'),
    ('<dtml-with o><dtml-var n>|<dtml-call load>|<dtml-var n></dtml-with>|<dtml-var n>', 'with'),
    ('<dtml-in l><dtml-var n>|<dtml-call load>|<dtml-var n>;</dtml-in><dtml-var n>', 'in'),
    ('<dtml-if n>y<dtml-else>no</dtml-if><dtml-call load><dtml-if n>Y<dtml-var n></dtml-if>', 'client-undefined'),
    ('<dtml-var n missing=m>|<dtml-call load>|<dtml-var n missing=m>|<dtml-var "_.has_key(\'n\')">', 'client-undefined'),
    ('<dtml-let q=n><dtml-call load><dtml-let r=n><dtml-var q><dtml-var r></dtml-let></dtml-let>', 'client'),
]


def run_dynamic():
    from DocumentTemplate.DT_HTML import HTML
    for i, (src, how) in enumerate(DYNAMIC):
        _cur['test'] = 'dynamic-%d' % i
        lazy = Lazy(n='client-n')
        t = HTML(src, n='default-n') if how != 'client-undefined' else HTML(src)
        try:
            if how in ('client', 'client-undefined'):
                t(lazy, {} if how == 'client-undefined' else {'n': 'mapping-n'})
            elif how == 'tuple':
                t((Lazy(z=1), lazy), {'n': 'mapping-n', 'load': lazy.load})
            elif how == 'with':
                t(None, {'n': 'mapping-n'}, o=lazy)
            else:
                t(None, {'n': 'mapping-n'}, l=[lazy, Lazy(n='second')])
        except BaseException as e:  # noqa
            _cur['test'] = 'dynamic-%d (raised %s)' % (i, type(e).__name__)


def main(argv):
    sys.path.insert(0, os.path.dirname(os.path.dirname(os.path.abspath(__file__))))
    from harness import common, render
    common.use_repo()
    install()
    jobs = json.load(open(argv[1]))
    for i, (case, plan) in enumerate(jobs):
        _cur['test'] = 'case-%d' % i
        try:
            render.run_case(case, plan, sty=case.get('sty', 'dtml'))
        except BaseException as e:  # noqa
            _cur['test'] = 'case-%d (harness error %s)' % (i, type(e).__name__)
    run_dynamic()
    dump(argv[2])
    return 0


if __name__ == '__main__':
    sys.exit(main(sys.argv))
