"""Binding of the front-end specifications (spec/DTScan.tla, spec/DTParse.tla) to the real compiler.

real_compile(syn, src)  runs HTML/String(src).cook() with every tagre.search logged and projects the
                        outcome onto the observables of the machine: the search log, the normal form of
                        _v_blocks, or the exception class / named tag / line.
case(syn, src, env)     builds one entry of cases.json (code points, the expression texts Python rejects).
compare(m, real)        compares one exported behaviour of the machine with the projection of the code.
"""
import ast
import re
import warnings

warnings.filterwarnings('ignore', category=SyntaxWarning)

FOLD_EXTRA = 'İıſK'


def cps(s):
    return [ord(c) for c in s]


def txt(c):
    return ''.join(chr(x) for x in c)


# -----------------------------------------------------------------------------------------------
# expression texts the model may have to classify: everything between two double quotes and every
# unquoted run after '='.  Python's own parser is the trusted primitive that says which are invalid.

_tok = re.compile(r'=([^\x00- ="]+)')


def _bad(e):
    from RestrictedPython.Eval import nltosp
    e = e.strip().translate(nltosp)
    try:
        compile(ast.parse(e, '<string>', 'eval'), '<string>', 'eval')
        return False
    except SyntaxError:
        return True
    except Exception:     # ValueError (NUL), RecursionError, MemoryError ...
        return True


def bad_exprs(src):
    cands = {''}
    q = [i for i, c in enumerate(src) if c == '"']
    if len(q) <= 14:
        for i in range(len(q)):
            for j in range(i + 1, len(q)):
                cands.add(src[q[i] + 1:q[j]])
    else:
        for i in range(len(q) - 1):
            cands.add(src[q[i] + 1:q[i + 1]])
    for m in _tok.finditer(src):
        cands.add(m.group(1))
    out = set()
    for c in cands:
        if _bad(c):
            out.add(c.strip())
    return sorted(out)


def env_json(env):
    """env: dict name -> 'text value' | False | int (list length) | object()"""
    out = []
    for n, v in (env or {}).items():
        if v is False:
            jv = {'k': 'false'}
        elif isinstance(v, str):
            jv = {'k': 'text', 's': cps(v)}
        elif isinstance(v, int):
            jv = {'k': 'list', 'n': v}
        else:
            jv = {'k': 'obj'}
        out.append({'n': cps(n), 'v': jv})
    return out


def case(syn, src, env=None):
    return case_multi([(syn, src)], env, False)


def case_multi(spellings, env=None, same=True):
    """one abstract template in several spellings: the machine compiles each and (same) demands one program"""
    return {'srcs': [{'syn': syn, 'src': cps(src), 'bad': [cps(b) for b in bad_exprs(src)]} for syn, src in spellings],
            'env': env_json(env), 'same': same}


class Obj:
    pass


def py_env(env):
    out = {}
    for n, v in (env or {}).items():
        if v is False:
            out[n] = ''
        elif isinstance(v, str):
            out[n] = v
        elif isinstance(v, int):
            out[n] = list(range(1, v + 1))
        else:
            out[n] = Obj()
    return out


# -----------------------------------------------------------------------------------------------
# running the real compiler under observation

class _SearchProxy:
    def __init__(self, inner, log, html):
        self._inner, self._log, self._html = inner, log, html

    def search(self, text, start=0):
        mo = self._inner.search(text, start)
        if mo is None:
            self._log.append([len(text), start, -1, -1])
        elif self._html:
            s = mo.start(0)
            self._log.append([len(text), start, s, s + len(mo.group(0))])
        else:
            self._log.append([len(text), start, mo.start(0), mo.end(0)])
        return mo


_LOG = []
_installed = False


def install():
    """wrap tagre() of both template classes (from outside; nothing in /repo is edited)"""
    global _installed
    if _installed:
        return
    from DocumentTemplate.DT_HTML import HTML
    from DocumentTemplate.DT_String import String
    h0, s0 = HTML.tagre, String.tagre

    def htagre(self):
        return _SearchProxy(h0(self), _LOG, True)

    def stagre(self):
        return _SearchProxy(s0(self), _LOG, False)
    HTML.tagre = htagre
    String.tagre = stagre
    _installed = True


def template_class(syn):
    from DocumentTemplate.DT_HTML import HTML
    from DocumentTemplate.DT_String import String
    return String if syn == 'epfs' else HTML


_msg = re.compile(r'^(?P<mess>.*), for tag (?P<tag>.*), on line (?P<line>\d+) of (?P<name>.*)$', re.S)


def unquote_html(s):
    return s.replace('&lt;', '<').replace('&gt;', '>').replace('&quot;', '"').replace('&amp;', '&')


def real_compile(syn, src):
    from DocumentTemplate.DT_Util import ParseError
    install()
    del _LOG[:]
    cls = template_class(syn)
    t = cls(src)
    try:
        t.cook()
    except ParseError as e:
        msg = e.args[0] if e.args else ''
        m = _msg.match(msg) if isinstance(msg, str) else None
        out = {'k': 'err', 'exc': 'ParseError', 'scans': list(_LOG), 'message': msg if isinstance(msg, str) else repr(msg)}
        if m:
            tag = m.group('tag')
            out.update(tag=unquote_html(tag) if syn != 'epfs' else tag, line=int(m.group('line')),
                       mess=m.group('mess'))
        else:
            out.update(tag=None, line=None, mess=None)
        return out, t
    except SyntaxError as e:
        return {'k': 'err', 'exc': 'SyntaxError', 'scans': list(_LOG), 'message': str(e)}, t
    except BaseException as e:   # noqa  -- exactly what the property forbids
        return {'k': 'err', 'exc': type(e).__name__, 'scans': list(_LOG), 'message': str(e)[:300]}, t
    return {'k': 'ok', 'scans': list(_LOG), 'prog': normalise(t._v_blocks)}, t


# -----------------------------------------------------------------------------------------------
# normal form of _v_blocks (the same shape the machine exports)

def _ref(x):
    if isinstance(x, str):
        return {'k': 'name', 'n': x}
    ev = getattr(x, '__self__', x)
    return {'k': 'expr', 'src': ev.expr}


def _ref_ne(name, expr):
    if expr is None:
        return {'k': 'name', 'n': name}
    ev = getattr(expr, '__self__', expr)
    return {'k': 'expr', 'src': ev.expr}


def _sans_ref(args):
    return {k: v for k, v in args.items() if k not in ('', 'name', 'expr')}


def normalise(blocks):
    from DocumentTemplate import DT_In, DT_Let, DT_Raise, DT_Return, DT_Try, DT_Var, DT_With
    from TreeDisplay.TreeTag import Tree
    out = []
    for b in blocks:
        if isinstance(b, str):
            out.append({'t': 'text', 's': b})
        elif isinstance(b, tuple) and b[0] == 'v':
            out.append({'t': 'v', 'ref': _ref(b[1]), 'h': len(b) == 3})
        elif isinstance(b, tuple) and b[0] == 'i':
            if len(b) == 3 and b[2] is None:
                out.append({'t': 'call', 'ref': _ref(b[1])})
            elif len(b) == 4 and b[2] is None:
                out.append({'t': 'unless', 'ref': _ref(b[1]), 'body': normalise(b[3])})
            else:
                rest = list(b[1:])
                els = []
                if len(rest) % 2:
                    els = [normalise(rest.pop())]
                out.append({'t': 'if', 'conds': [_ref(c) for c in rest[0::2]],
                            'bodies': [normalise(x) for x in rest[1::2]], 'else': els})
        elif isinstance(b, DT_Var.Var):
            out.append({'t': 'var', 'ref': _ref_ne(b.__name__, b.expr), 'args': _sans_ref(b.args), 'fmt': b.fmt})
        elif isinstance(getattr(b, '__self__', None), DT_In.InClass):
            i = b.__self__
            out.append({'t': 'in', 'batch': b.__func__ is DT_In.InClass.renderwb, 'ref': _ref_ne(i.__name__, i.expr),
                        'args': _sans_ref(i.args), 'body': normalise(i.section),
                        'else': [normalise(i.elses)] if i.elses is not None else []})
        elif isinstance(b, DT_With.With):
            out.append({'t': 'with', 'ref': _ref(b.expr), 'body': normalise(b.section),
                        'mapping': bool(b.mapping), 'only': bool(b.only)})
        elif isinstance(b, DT_Let.Let):
            out.append({'t': 'let', 'binds': [{'n': n, 'ref': _ref(e)} for n, e in b.args], 'body': normalise(b.section)})
        elif isinstance(b, DT_Try.Try):
            if b.finallyBlock is not None:
                out.append({'t': 'tryf', 'body': normalise(b.section), 'fin': normalise(b.finallyBlock)})
            else:
                out.append({'t': 'try', 'body': normalise(b.section),
                            'hs': [{'n': n, 'b': normalise(h)} for n, h in b.handlers],
                            'else': [normalise(b.elseBlock)] if b.elseBlock is not None else []})
        elif isinstance(b, DT_Raise.Raise):
            out.append({'t': 'raise', 'ref': _ref_ne(b.__name__, b.expr), 'body': normalise(b.section)})
        elif isinstance(b, DT_Return.ReturnTag):
            out.append({'t': 'return', 'ref': _ref_ne(b.__name__, b.expr)})
        elif isinstance(b, DT_Var.Comment):
            out.append({'t': 'comment'})
        elif isinstance(b, Tree):
            out.append({'t': 'tree', 'args': {k: v for k, v in b.args.items()}, 'body': normalise(b.section)})
        else:
            out.append({'t': 'unknown', 'repr': repr(b)[:80]})
    return out


def _val(v):
    return txt(v['c']) if v['d'] == 's' else v['i']


def _args(r):
    return {e['k']: _val(e['v']) for e in r}


def _mref(r):
    from RestrictedPython.Eval import nltosp
    if r['k'] == 'name':
        return {'k': 'name', 'n': txt(r['n'])}
    return {'k': 'expr', 'src': txt(r['src']).strip().translate(nltosp)}


def model_prog(items):
    """the machine's normal form (JSON) -> the shape normalise() produces"""
    out = []
    for it in items:
        t = it['t']
        if t == 'text':
            out.append({'t': 'text', 's': txt(it['s'])})
        elif t == 'v':
            out.append({'t': 'v', 'ref': _mref(it['ref']), 'h': it['h']})
        elif t == 'var':
            out.append({'t': 'var', 'ref': _mref(it['ref']), 'args': _args(it['args']), 'fmt': txt(it['fmt'])})
        elif t in ('call', 'return'):
            out.append({'t': t, 'ref': _mref(it['ref'])})
        elif t == 'unless':
            out.append({'t': 'unless', 'ref': _mref(it['ref']), 'body': model_prog(it['body'])})
        elif t == 'if':
            out.append({'t': 'if', 'conds': [_mref(c) for c in it['conds']],
                        'bodies': [model_prog(b) for b in it['bodies']], 'else': [model_prog(b) for b in it['else']]})
        elif t == 'in':
            out.append({'t': 'in', 'batch': it['batch'], 'ref': _mref(it['ref']), 'args': _args(it['args']),
                        'body': model_prog(it['body']), 'else': [model_prog(b) for b in it['else']]})
        elif t == 'with':
            a = _args(it['args'])
            out.append({'t': 'with', 'ref': _mref(it['ref']), 'body': model_prog(it['body']),
                        'mapping': bool(a.get('mapping')), 'only': bool(a.get('only'))})
        elif t == 'let':
            out.append({'t': 'let', 'binds': [{'n': txt(b['n']), 'ref': _mref(b['ref'])} for b in it['binds']],
                        'body': model_prog(it['body'])})
        elif t == 'try':
            out.append({'t': 'try', 'body': model_prog(it['body']),
                        'hs': [{'n': txt(h['n']), 'b': model_prog(h['b'])} for h in it['hs']],
                        'else': [model_prog(b) for b in it['else']]})
        elif t == 'tryf':
            out.append({'t': 'tryf', 'body': model_prog(it['body']), 'fin': model_prog(it['fin'])})
        elif t == 'raise':
            out.append({'t': 'raise', 'ref': _mref(it['ref']), 'body': model_prog(it['body'])})
        elif t == 'comment':
            out.append({'t': 'comment'})
        elif t == 'tree':
            out.append({'t': 'tree', 'args': _args(it['args']), 'body': model_prog(it['body'])})
        else:
            out.append({'t': '?' + t})
    return out


def same_prog(mp, rp):
    """model normal form vs real normal form; tree arguments are compared on the keys parse_params produced"""
    if len(mp) != len(rp):
        return False
    for a, b in zip(mp, rp):
        if a['t'] != b['t']:
            return False
        if a['t'] == 'tree':
            ra = b['args']
            for k, v in a['args'].items():
                if k in ('', 'expr', 'branches_expr'):
                    continue
                if ra.get(k) != v:
                    return False
            if not same_prog(a['body'], b['body']):
                return False
            continue
        for k in a:
            if k in ('body', 'fin'):
                if not same_prog(a[k], b[k]):
                    return False
            elif k in ('bodies', 'else'):
                if len(a[k]) != len(b[k]) or not all(same_prog(x, y) for x, y in zip(a[k], b[k])):
                    return False
            elif k == 'hs':
                if len(a[k]) != len(b[k]) or not all(x['n'] == y['n'] and same_prog(x['b'], y['b'])
                                                      for x, y in zip(a[k], b[k])):
                    return False
            elif a[k] != b.get(k):
                return False
    return True


def compare(m, real, src):
    """m: exported machine behaviour; real: projection of the code.  Returns list of (clause, detail)."""
    bad = []
    if m['scans'] != real['scans']:
        n = min(len(m['scans']), len(real['scans']))
        i = next((j for j in range(n) if m['scans'][j] != real['scans'][j]), n)
        bad.append(('scan', {'at': i, 'model': m['scans'][i:i + 1], 'code': real['scans'][i:i + 1]}))
    if real['k'] == 'err' and real['exc'] not in ('ParseError', 'SyntaxError'):
        bad.append(('exception-type', {'code': real['exc'], 'message': real.get('message'), 'model': m['k']}))
        return bad
    if m['k'] != real['k']:
        bad.append(('accept-reject', {'model': m['k'] + ':' + m.get('msg', ''), 'code': real['k'] + ':' + str(real.get('message', ''))[:160]}))
        return bad
    if m['k'] == 'err':
        if m['exc'] != real['exc']:
            bad.append(('exception-class', {'model': m['exc'] + ':' + m['msg'], 'code': real['exc'] + ':' + str(real.get('message'))[:160]}))
        elif m['exc'] == 'ParseError':
            tag = src[m['tlo']:m['thi']]
            if real.get('tag') is None:
                bad.append(('message-shape', {'code': real.get('message')}))
            else:
                if real['tag'] != tag:
                    bad.append(('named-tag', {'model': tag, 'code': real['tag']}))
                if real['line'] != m['line']:
                    bad.append(('line', {'model': m['line'], 'code': real['line'], 'tag': real['tag']}))
                mess = ' '.join((real.get('mess') or '').split())
                mm = ' '.join(m['msg'].split())[:24]
                if not mess.startswith(mm) and mm.lower() not in mess.lower():
                    bad.append(('message-class', {'model': m['msg'], 'code': (real.get('mess') or '')[:120]}))
    else:
        if not same_prog(model_prog(m['prog']), real['prog']):
            bad.append(('program', {'model': model_prog(m['prog']), 'code': real['prog']}))
    return bad
