"""Python value -> TLA+ expression text (for generated MC modules)."""


def tla(v):
    if isinstance(v, bool):
        return 'TRUE' if v else 'FALSE'
    if isinstance(v, int):
        return str(v) if v >= 0 else '(0 - %d)' % -v
    if isinstance(v, str):
        return '"%s"' % v.replace('\\', '\\\\').replace('"', '\\"')
    if isinstance(v, (list, tuple)):
        return '<<' + ', '.join(tla(x) for x in v) + '>>'
    if isinstance(v, (set, frozenset)):
        return '{' + ', '.join(sorted(tla(x) for x in v)) + '}'
    if isinstance(v, dict):
        return '[' + ', '.join('%s |-> %s' % (k, tla(x)) for k, x in v.items()) + ']'
    raise TypeError(type(v))


def mc_module(name, extends, defs):
    """defs: dict name -> python value (or raw TLA+ text when wrapped in Raw)"""
    lines = ['---- MODULE %s ----' % name, 'EXTENDS ' + extends]
    for k, v in defs.items():
        lines.append('%s == %s' % (k, v.text if isinstance(v, Raw) else tla(v)))
    lines.append('====')
    return '\n'.join(lines) + '\n'


class Raw:
    def __init__(self, text):
        self.text = text
