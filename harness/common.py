"""Shared plumbing of the checks: evidence, known findings, verdict lines, process pool."""
import json
import multiprocessing as mp
import os
import signal
import sys
import time
import traceback

VERIF = os.path.dirname(os.path.dirname(os.path.abspath(__file__)))
OUT = os.environ.get('VERIF_OUT', VERIF)      # evidence/ and replays/ go here (the seed matrix redirects them)
REPO = os.environ.get('VERIF_REPO', '/repo')
SRC = os.path.join(REPO, 'src')
GUARD = 'DOCUMENTTEMPLATE_VERIF'


def use_repo():
    """make `import DocumentTemplate` resolve to the current working tree of /repo"""
    os.environ[GUARD] = '1'
    if SRC not in sys.path[:1]:
        sys.path.insert(0, SRC)
    import DocumentTemplate  # noqa
    f = os.path.realpath(DocumentTemplate.__file__)
    assert f.startswith(os.path.realpath(SRC)), f
    import TreeDisplay  # noqa  registers dtml-tree


def seed():
    try:
        return int(os.environ.get('VERIF_SEED', '0'))
    except ValueError:
        return 0


# ---------------------------------------------------------------------------------------------
# known findings

def load_known():
    with open(os.path.join(VERIF, 'known_findings.json')) as fh:
        return json.load(fh)


def _match(m, rec):
    for k, v in m.items():
        r = rec.get(k)
        if isinstance(v, dict) and 'in' in v:
            if r not in v['in']:
                return False
        elif isinstance(v, dict) and 'min' in v:
            if not isinstance(r, (int, float)) or r < v['min']:
                return False
        elif isinstance(v, dict) and 'contains' in v:
            if not isinstance(r, (str, list)) or v['contains'] not in r:
                return False
        elif r != v:
            return False
    return True


class Verdicts:
    """collects violations of one property; classifies them against known_findings.json"""

    def __init__(self, pid, tier):
        self.pid = pid
        self.tier = tier
        self.t0 = time.time()
        self.known = [k for k in load_known() if k['property'] == pid and k['status'] == 'known']
        self.known_hits = {}
        self.violations = []
        self.notes = {}
        self.counters = {}

    def count(self, key, n=1):
        self.counters[key] = self.counters.get(key, 0) + n

    def violation(self, rec):
        """rec: JSON-able dict describing a real-code witness (must contain 'kind')"""
        for k in self.known:
            if _match(k['match'], rec):
                h = self.known_hits.setdefault(k['id'], {'n': 0, 'what': k['what'], 'first': rec})
                h['n'] += 1
                return 'known'
        self.violations.append(rec)
        return 'new'

    def finish(self, coverage, assumptions=(), level='model_checking'):
        rp = None
        if self.violations:
            os.makedirs(os.path.join(OUT, 'replays'), exist_ok=True)
            rp = os.path.join(OUT, 'replays', '%s-%s-%d.json' % (self.pid, self.tier, os.getpid()))
            keep, per = [], {}
            for v in self.violations:          # a few witnesses of every class
                key = '%s|%s' % (v.get('cls') or v.get('clause') or v.get('kind'),
                                 ','.join(v.get('clauses') or v.get('fields') or []))
                per[key] = per.get(key, 0) + 1
                if per[key] <= 15 and len(keep) < 300:
                    keep.append(v)
            with open(rp, 'w') as fh:
                json.dump({'property': self.pid, 'violations': keep,
                           'total': len(self.violations)}, fh, indent=1, default=repr)
        for kid, h in sorted(self.known_hits.items()):
            print('KNOWN-FINDING: property=%s %s %s (re-observed %d times, e.g. %s)' % (
                self.pid, kid, h['what'], h['n'], json.dumps(h['first'], default=repr)[:300]))
        coverage = dict(coverage)
        coverage.update({k: v for k, v in self.counters.items() if k not in coverage})
        coverage['known_findings_reobserved'] = {k: h['n'] for k, h in self.known_hits.items()}
        if self.violations:
            cls = {}
            for v in self.violations:
                key = '%s|%s|%s' % (v.get('cls') or v.get('clause') or v.get('kind'),
                                    ','.join(v.get('clauses') or v.get('fields') or []), v.get('error') or '')
                cls[key] = cls.get(key, 0) + 1
            coverage['violation_classes'] = cls
        ev = {'property_id': self.pid, 'tier': self.tier, 'seed': seed(), 'level': level,
              'coverage': coverage, 'assumptions': list(assumptions),
              'wall_s': round(time.time() - self.t0, 2), 'violations': len(self.violations)}
        os.makedirs(os.path.join(OUT, 'evidence'), exist_ok=True)
        with open(os.path.join(OUT, 'evidence', self.pid + '.json'), 'w') as fh:
            json.dump(ev, fh, indent=1, default=repr)
        if self.violations:
            for v in self.violations[:5]:
                print('  witness: ' + json.dumps(v, default=repr)[:600])
            print('VIOLATION property=%s replay=%s' % (self.pid, rp))
            return 1
        print('OK property=%s tier=%s %s wall=%.1fs' % (
            self.pid, self.tier,
            ' '.join('%s=%s' % (k, v) for k, v in coverage.items()
                     if isinstance(v, (int, bool))), time.time() - self.t0))
        return 0


# ---------------------------------------------------------------------------------------------
# process pool with per-case watchdog

class CaseTimeout(BaseException):
    pass


def _alarm(signum, frame):
    raise CaseTimeout()


_worker_fn = None


def _init(fn_init):
    signal.signal(signal.SIGALRM, _alarm)
    if fn_init is not None:
        fn_init()


def _run_chunk(args):
    fn, chunk, per_case = args
    out = []
    for c in chunk:
        signal.setitimer(signal.ITIMER_REAL, per_case)
        try:
            out.append(fn(c))
        except CaseTimeout:
            out.append({'_timeout': True, 'case': c})
        except BaseException as e:  # machinery failure inside a case: report, don't hide
            out.append({'_crash': '%s: %s' % (type(e).__name__, e),
                        'tb': traceback.format_exc()[-1500:], 'case': c})
        finally:
            signal.setitimer(signal.ITIMER_REAL, 0)
    return out


def pool_map(fn, cases, procs=None, chunk=200, per_case=20.0, init=None):
    """map fn over cases in forked workers; fn must be a module-level function"""
    procs = procs or min(16, os.cpu_count() or 4)
    cases = list(cases)
    if not cases:
        return []
    chunks = [cases[i:i + chunk] for i in range(0, len(cases), chunk)]
    if procs == 1 or len(chunks) == 1:
        _init(init)
        out = []
        for ch in chunks:
            out.extend(_run_chunk((fn, ch, per_case)))
        return out
    ctx = mp.get_context('fork')
    with ctx.Pool(procs, initializer=_init, initargs=(init,)) as pool:
        out = []
        for r in pool.imap(_run_chunk, [(fn, ch, per_case) for ch in chunks]):
            out.extend(r)
    return out


def machinery_failure(msg):
    print('MACHINERY-FAILURE: ' + msg)
    sys.exit(2)
