"""Regular expressions of the package as automata for spec/DTRegexAmb.tla.

collect(): every pattern the package compiles (re._compile is wrapped while the package is imported afresh in a
subprocess and a few templates are compiled), with flags and the source line that compiled it.
to_nfa(): pattern -> epsilon-free NFA *with multiplicities*: one edge per (simple epsilon path, symbol transition), so two
different ways of reading the same character between the same states are two edges.  The alphabet is a set of
representative characters, one per class of characters no sub-pattern distinguishes.

What is over-approximated (the automaton accepts more paths than the regular expression engine explores): anchors,
look-ahead / look-behind assertions (taken as empty), lazy vs greedy (same paths), counted repeats above 3 (unrolled to
3 and a loop).  Back-references are not modelled (the pattern is reported as such).  Over-approximation can only produce
candidates that the measurement on the real code then refutes; it never hides an ambiguity.
"""
import json
import os
import subprocess
import sys

import re._constants as C        # noqa
import re._parser as P           # noqa

_COLLECT = r'''
import json, os, re, sys
SRC = %r
log = []
orig = re._compile
def _compile(pattern, flags):
    f = sys._getframe(1)
    for _ in range(4):
        if f is None:
            break
        fn = f.f_code.co_filename
        if fn.startswith(SRC):
            if isinstance(pattern, (str, bytes)):
                p = pattern if isinstance(pattern, str) else pattern.decode('latin-1')
                log.append({'pattern': p, 'flags': int(flags), 'file': os.path.relpath(fn, SRC), 'line': f.f_lineno,
                            'bytes': isinstance(pattern, bytes)})
            break
        f = f.f_back
    return orig(pattern, flags)
re._compile = _compile
sys.path.insert(0, SRC)
import DocumentTemplate, TreeDisplay
from DocumentTemplate.DT_HTML import HTML
from DocumentTemplate.DT_String import String
for cls, src in ((HTML, '<dtml-var x><dtml-in s start=qs size=2 sort=a,b/cmp>&dtml-x;</dtml-in><dtml-let a=b c="1">x</dtml-let>'
                        '<dtml-if a>x<dtml-elif b>y<dtml-else>z</dtml-if><!--#var x--><dtml-tree r>x</dtml-tree>'),
                 (String, '%%(x)s%%(in s sort_expr="k")[%%(y fmt=upper)s%%(in)]')):
    try:
        t = cls(src); t.cook()
        t(x='1,234.5', s=[], a=1, b=2, r=None, qs=1, k='', y='z', **{'query_string': 'a=1&qs=2'})
    except Exception:
        pass
try:
    HTML('<dtml-var x thousands_commas>')(x=1234567.891)
except Exception:
    pass
seen, out = set(), []
for e in log:
    k = (e['pattern'], e['flags'] & (re.I | re.S | re.M | re.X))
    if k not in seen:
        seen.add(k); out.append(e)
print(json.dumps(out))
'''


def collect(src_dir):
    p = subprocess.run([sys.executable, '-c', _COLLECT % (src_dir.rstrip('/') + '/')], capture_output=True, text=True, timeout=120)
    if p.returncode != 0:
        raise RuntimeError('regex collection failed: ' + p.stderr[-800:])
    return json.loads(p.stdout.strip().splitlines()[-1])


# ---------------------------------------------------------------------------------------------

class Unsupported(Exception):
    pass


class _Builder:
    def __init__(self, flags):
        self.n = 0
        self.eps = {}          # state -> [targets] (ordered)
        self.sym = []          # (state, predicate key, target)
        self.preds = {}        # key -> callable(ch) -> bool
        self.icase = bool(flags & C.SRE_FLAG_IGNORECASE)
        self.dotall = bool(flags & C.SRE_FLAG_DOTALL)
        self.approx = []

    def new(self):
        self.n += 1
        return self.n

    def e(self, a, b):
        self.eps.setdefault(a, []).append(b)

    def pred(self, key, fn):
        if key not in self.preds:
            ic = self.icase
            if ic:
                base = fn
                fn = lambda ch, base=base: base(ch) or base(ch.lower()) or base(ch.upper())  # noqa
            self.preds[key] = fn
        return key

    def category(self, cat):
        import unicodedata  # noqa
        name = str(cat)
        table = {
            'CATEGORY_DIGIT': lambda ch: ch.isdigit(), 'CATEGORY_NOT_DIGIT': lambda ch: not ch.isdigit(),
            'CATEGORY_SPACE': lambda ch: ch.isspace(), 'CATEGORY_NOT_SPACE': lambda ch: not ch.isspace(),
            'CATEGORY_WORD': lambda ch: ch.isalnum() or ch == '_', 'CATEGORY_NOT_WORD': lambda ch: not (ch.isalnum() or ch == '_'),
        }
        if name not in table:
            raise Unsupported('category ' + name)
        return table[name]

    def in_pred(self, items):
        neg = False
        tests = []
        for op, av in items:
            if op is C.NEGATE:
                neg = True
            elif op is C.LITERAL:
                tests.append(lambda ch, av=av: ord(ch) == av)
            elif op is C.RANGE:
                tests.append(lambda ch, lo=av[0], hi=av[1]: lo <= ord(ch) <= hi)
            elif op is C.CATEGORY:
                tests.append(self.category(av))
            else:
                raise Unsupported('set item %s' % op)
        if neg:
            return lambda ch: not any(t(ch) for t in tests)
        return lambda ch: any(t(ch) for t in tests)

    def frag(self, sub):
        """returns (start, end) of the fragment for a SubPattern / list of items (concatenation)"""
        s = cur = self.new()
        for op, av in sub:
            a, b = self.item(op, av)
            self.e(cur, a)
            cur = b
        return s, cur

    def item(self, op, av):
        a, b = self.new(), self.new()
        if op is C.LITERAL:
            self.sym.append((a, self.pred('L%d' % av, lambda ch, av=av: ord(ch) == av), b))
        elif op is C.NOT_LITERAL:
            self.sym.append((a, self.pred('N%d' % av, lambda ch, av=av: ord(ch) != av), b))
        elif op is C.ANY:
            self.sym.append((a, self.pred('ANY%d' % self.dotall, (lambda ch: True) if self.dotall else (lambda ch: ch != '\n')), b))
        elif op is C.IN:
            self.sym.append((a, self.pred('IN' + repr(av), self.in_pred(av)), b))
        elif op is C.BRANCH:
            for alt in av[1]:
                x, y = self.frag(alt)
                self.e(a, x)
                self.e(y, b)
        elif op is C.SUBPATTERN:
            x, y = self.frag(av[3])
            self.e(a, x)
            self.e(y, b)
        elif op in (C.MAX_REPEAT, C.MIN_REPEAT) or str(op) == 'POSSESSIVE_REPEAT':
            lo, hi, body = av
            if str(op) == 'POSSESSIVE_REPEAT':
                self.approx.append('possessive repeat taken as greedy')
            cur = a
            unroll = min(lo, 3)
            if lo > 3:
                self.approx.append('repeat {%d,} unrolled to 3' % lo)
            for _ in range(unroll):
                x, y = self.frag(body)
                self.e(cur, x)
                cur = y
            if hi == C.MAXREPEAT or hi - lo > 3:
                if hi != C.MAXREPEAT:
                    self.approx.append('bounded repeat {%d,%d} taken as unbounded' % (lo, hi))
                x, y = self.frag(body)
                if op is C.MIN_REPEAT:      # lazy: leaving is tried first (the order of the epsilon edges is the engine's)
                    self.e(cur, b)
                    self.e(cur, x)
                    self.e(y, b)
                    self.e(y, x)
                else:
                    self.e(cur, x)
                    self.e(cur, b)
                    self.e(y, x)
                    self.e(y, b)
            else:
                for _ in range(hi - lo):
                    x, y = self.frag(body)
                    self.e(cur, x)
                    self.e(cur, b)
                    cur = y
                self.e(cur, b)
        elif op is C.AT:
            self.approx.append('anchor %s taken as empty' % av)
            self.e(a, b)
        elif op in (C.ASSERT, C.ASSERT_NOT):
            self.approx.append('assertion taken as empty')
            self.e(a, b)
        elif str(op) == 'ATOMIC_GROUP':
            self.approx.append('atomic group taken as a plain group')
            x, y = self.frag(av)
            self.e(a, x)
            self.e(y, b)
        elif op is C.GROUPREF or op is C.GROUPREF_EXISTS:
            raise Unsupported('back-reference')
        else:
            raise Unsupported(str(op))
        return a, b


def _alphabet(preds, pattern):
    cand = set('aAzZmM09 _-.\t\n\r\x00\x01\x7f!"#%&\'()*+,/:;<=>?@[\\]^`{|}~\xe9€')
    for ch in pattern:
        for d in (-1, 0, 1):
            o = ord(ch) + d
            if 0 <= o < 0x110000:
                cand.add(chr(o))
    sig = {}
    keys = sorted(preds)
    for ch in sorted(cand):
        s = tuple(bool(preds[k](ch)) for k in keys)
        if any(s):
            # prefer printable representatives
            if s not in sig or (not sig[s].isprintable() and ch.isprintable()):
                sig[s] = ch
    reps = [sig[s] for s in sorted(sig, key=lambda s: sig[s])]
    # a character no sub-pattern accepts (makes any match fail)
    reject = [ch for ch in sorted(cand) if not any(preds[k](ch) for k in keys)]
    return reps, {k: [i + 1 for i, ch in enumerate(reps) if preds[k](ch)] for k in keys}, reject


def to_nfa(pattern, flags=0, max_edges=4000):
    """-> dict(states, start, edges=[{id, f, t, cs}], alphabet=[chars], accepting=[...], reject=[chars], approx=[...])"""
    tree = P.parse(pattern, flags)
    bflags = tree.state.flags | flags
    b = _Builder(bflags)
    s, t = b.frag(tree)
    reps, classes, reject = _alphabet(b.preds, pattern)
    symfrom = {}
    for (a, k, z) in b.sym:
        symfrom.setdefault(a, []).append((k, z))
    important = {s} | {z for (_, _, z) in b.sym}
    edges = []
    accepting = set()
    for q in sorted(important):
        # all simple epsilon paths from q
        stack = [(q, (q,))]
        while stack:
            u, path = stack.pop()
            if u == t:
                accepting.add(q)
            for (k, z) in symfrom.get(u, ()):
                cs = classes[k]
                if cs:
                    edges.append({'f': q, 't': z, 'cs': cs})
                    if len(edges) > max_edges:
                        raise Unsupported('too many edges')
            for v in reversed(b.eps.get(u, ())):
                if v not in path:
                    stack.append((v, path + (v,)))
    # renumber
    used = sorted({s} | {e['f'] for e in edges} | {e['t'] for e in edges})
    num = {q: i + 1 for i, q in enumerate(used)}
    out = []
    for i, e in enumerate(edges):
        out.append({'id': i + 1, 'f': num[e['f']], 't': num[e['t']], 'cs': e['cs']})
    return {'states': len(used), 'start': num[s], 'edges': out, 'alphabet': reps, 'reject': reject[:6],
            'accepting': sorted(num[q] for q in accepting if q in num), 'approx': sorted(set(b.approx))}


if __name__ == '__main__':
    for pat in sys.argv[1:]:
        n = to_nfa(pat)
        print(pat, '->', n['states'], 'states', len(n['edges']), 'edges', 'alphabet', n['alphabet'], n['approx'])
