"""Concretisation of DTRender cases: printer (AST -> DTML source), values, instrumentation,
execution of the real renderer and projection of what it did onto the machine's observables.

AST (what generators build; `compile_case` turns it into the JSON the machine reads):
  T(s)  V(n)  P(n)  If([(cond, body)...], else|None)  Unless(cond, body)  Call(cond)
  Let([(name, ref)...], body)  With(ref, body, mapping, only)  In(ref, body, else|None, **opts)
  Try(body, [(names, body)...], else|None)  TryF(body, fin)  Raise(cls, body)  Return(ref)  Comment(s)
refs / conds:  N(n) by name | C(n) expr "n()" | X(n) expr "n" | Not(n) | A(n, a) expr "n.a"
values: plain(id, t=True) | num(n) | fn(id, r, beh='ok') | tmpl(id, prog, gl) | obj(id, **a) |
        mp(id, **a) | lst(id, items, ck='list') | pair(key, v)
"""
import json

# ---------------------------------------------------------------------------------------------
# AST constructors

def T(s): return {'t': 'text', 's': s}
def V(n): return {'t': 'var', 'n': n}
def P(n): return {'t': 'probe', 'n': n}
def If(cs, e=None): return {'t': 'if', 'form': 'if', 'cs': [{'c': c, 'b': b} for c, b in cs], 'he': e is not None, 'e': e or []}
def Unless(c, b): return {'t': 'if', 'form': 'unless', 'cs': [{'c': c, 'b': []}], 'he': True, 'e': b}
def Call(c): return {'t': 'if', 'form': 'call', 'cs': [{'c': c, 'b': []}], 'he': False, 'e': []}
def Let(bs, b): return {'t': 'let', 'bs': [{'n': n, 'c': c} for n, c in bs], 'b': b}
def With(c, b, mapping=False, only=False): return {'t': 'with', 'c': c, 'b': b, 'mapping': mapping, 'only': only}
def In(c, b, e=None, mapping=False, nopush=False, reverse=False, pre=False, sort=None, prefix='p', start=0, size=0, prepfail=None, byend=False):
    return {'t': 'in', 'c': c, 'b': b, 'he': e is not None, 'e': e or [], 'mapping': mapping,
            'nopush': nopush, 'reverse': reverse, 'pre': bool(pre), 'prefix': prefix,
            'sorted': sort is not None, 'sortkey': sort or '', 'bs': (start or 1) if size else 0, 'bz': size, 'be': bool(byend),
            'prepfail': bool(prepfail), 'pf': prepfail or '', 'pfcls': 'KeyError' if prepfail == 'size' else 'NameError'}
def Try(b, hs, e=None): return {'t': 'try', 'b': b, 'hs': [{'names': list(n), 'b': hb} for n, hb in hs], 'he': e is not None, 'e': e or []}
def TryF(b, f): return {'t': 'tryf', 'b': b, 'f': f}
def Raise(cls, b, x=False): return {'t': 'raise', 'cls': cls, 'b': b, 'x': x}
def exccls(name): return {'k': 'exccls', 'id': name}
def Return(c): return {'t': 'return', 'c': c}
def Comment(s): return {'t': 'comment', 's': s}

def Vx(c): return {'t': 'vx', 'c': c}
def Item(n): return {'k': 'item', 'n': n}
def Get0(n): return {'k': 'get0', 'n': n}
def Get1(n): return {'k': 'get1', 'n': n}
def HasKey(n): return {'k': 'haskey', 'n': n}
def Render(n): return {'k': 'render', 'n': n}
def MkNs(n, a, u=False): return {'k': 'mkns', 'n': n, 'a': a, 'u': bool(u)}
def N(n): return {'k': 'name', 'n': n}
def C(n): return {'k': 'call', 'n': n}
def X(n): return {'k': 'val', 'n': n}
def Not(n): return {'k': 'not', 'n': n}
def A(n, a): return {'k': 'attr', 'n': n, 'a': a}

def plain(id, t=True, o=None):
    v = {'k': 'plain', 'id': id, 't': t}
    if o is not None:
        v['o'] = o
    return v
def none():
    """the value None as an element of a sequence (a legitimate element, not the end of anything)"""
    return {'k': 'plain', 'id': 'None', 't': False, 'fid': 'None', 'none': True}
def byt(text):
    """a bytes value (only returned by dtml-return, never inserted): its identity is its repr"""
    return {'k': 'plain', 'id': repr(text.encode('utf-8')), 't': True, 'bytes': text}
def num(n): return {'k': 'plain', 'id': str(n), 't': n != 0, 'num': n, 'o': n}
def fn(id, r, beh='ok', sets=None):
    d = {'k': 'fn', 'id': id, 'r': r, 'beh': beh}
    if sets is not None:       # a method of a client object that, when it runs, gives its object the attribute sets[0] = sets[1]
        d['sets'] = {'n': sets[0], 'v': sets[1]}
    return d
def tmpl(id, prog, gl=None): return {'k': 'tmpl', 'id': id, 'prog': prog, 'gl': gl or {}}
def obj(id, **a): return {'k': 'obj', 'id': id, 'a': a}
def mp(id, **a): return {'k': 'map', 'id': id, 'a': a}
def cmap(id, **a):
    """a mapping that computes its values on access: every successful read is logged"""
    return {'k': 'cmap', 'id': id, 'a': a}
def lst(id, items, ck='list'): return {'k': 'list', 'id': id, 'items': items, 'ck': ck}
def pair(key, v): return {'k': 'pair', 'id': 'pair', 'key': key, 'v': v}


def sources(cm=None, ck=None, map=None, clients=(), tv=None, kw=None):
    return {'cm': cm or {}, 'ck': ck or {}, 'map': map or {}, 'clients': list(clients),
            'tv': tv or {}, 'kw': kw or {}}


SV_SUFFIXES = ('item', 'key', 'index', 'number', 'letter', 'Letter', 'roman', 'Roman', 'even', 'odd',
               'start', 'end', 'length')


def svn_table(attrs=('x',), prefix='p'):
    t = {}
    for s in SV_SUFFIXES:
        t['sequence-' + s] = {'f': 'sv', 'a': s}
        t[prefix + '_' + s] = {'f': 'psv', 'a': s, 'p': prefix}
    for a in attrs:
        t['sequence-var-' + a] = {'f': 'var', 'a': a}
        t['first-' + a] = {'f': 'first', 'a': a}
        t['last-' + a] = {'f': 'last', 'a': a}
    return t


# ---------------------------------------------------------------------------------------------
# compile: generator AST -> machine JSON (expanded handler lists, sub-template programs)

def compile_prog(prog):
    out = []
    for n in prog:
        n = dict(n)
        t = n['t']
        if t == 'if':
            n['cs'] = [{'c': c['c'], 'b': compile_prog(c['b'])} for c in n['cs']]
            n['e'] = compile_prog(n['e'])
            n.pop('form')
            n.pop('named_else', None)
        elif t in ('let', 'with', 'raise'):
            n['b'] = compile_prog(n['b'])
        elif t == 'in':
            n['b'] = compile_prog(n['b'])
            n['e'] = compile_prog(n['e'])
            n['pn'] = n.pop('prefix', 'p') if n.get('pre') else ''
            n.pop('pf', None)
        elif t == 'try':
            n['b'] = compile_prog(n['b'])
            n['e'] = compile_prog(n['e'])
            hs = []
            for h in n['hs']:
                hb = compile_prog(h['b'])
                for name in (h['names'] or ['']):
                    hs.append({'n': name, 'b': hb})
            n['hs'] = hs
        elif t == 'tryf':
            n['b'] = compile_prog(n['b'])
            n['f'] = compile_prog(n['f'])
        out.append(n)
    return out


def compile_value(v):
    v = dict(v)
    k = v['k']
    if k == 'fn':
        v['r'] = compile_value(v['r'])
    elif k == 'tmpl':
        v['prog'] = compile_prog(v['prog'])
        v['gl'] = {a: compile_value(x) for a, x in v['gl'].items()}
    elif k in ('obj', 'map', 'cmap'):
        v['a'] = {a: compile_value(x) for a, x in v['a'].items()}
    elif k == 'list':
        v['items'] = [compile_value(x) for x in v['items']]
        v.pop('ck', None)
    elif k == 'pair':
        v['key'] = compile_value(v['key'])
        v['v'] = compile_value(v['v'])
    return v


def compile_case(case):
    s = case['src']
    cv = lambda d: {a: compile_value(x) for a, x in d.items()}  # noqa
    return {'prog': compile_prog(case['prog']),
            'src': {'cm': cv(s['cm']), 'ck': cv(s['ck']), 'map': cv(s['map']),
                    'clients': [compile_value(c) for c in s['clients']], 'tv': cv(s['tv']), 'kw': cv(s['kw'])},
            'K': case.get('K', 0), 'fk': case.get('fk', []), 'pairs': case.get('pairs', 0),
            'us': case.get('us', []), 'svn': case.get('svn', {})}


# ---------------------------------------------------------------------------------------------
# printer

def _ref(r, tagattr=True):
    k = r['k']
    if k == 'name':
        n = r['n']
        return n if all(c.isalnum() or c in '_-.' for c in n) else 'name="%s"' % n
    if k == 'call':
        return 'expr="%s()"' % r['n']
    if k == 'val':
        return 'expr="%s"' % r['n']
    if k == 'not':
        return 'expr="not %s"' % r['n']
    if k == 'attr':
        return 'expr="%s.%s"' % (r['n'], r['a'])
    if k == 'item':
        return 'expr="_[\'%s\']"' % r['n']
    if k in ('get0', 'get1'):
        return 'expr="_.getitem(\'%s\', %s)"' % (r['n'], k[-1])
    if k == 'haskey':
        return 'expr="_.has_key(\'%s\')"' % r['n']
    if k == 'render':
        return 'expr="_.render(%s)"' % r['n']
    if k == 'mkns':
        return ('expr="_(%s=%s)"' if r.get('u') else 'expr="_.namespace(%s=%s)"') % (r['a'], r['n'])
    raise ValueError(k)


def _letref(r):
    s = _ref(r)
    return s[5:] if s.startswith('expr=') else s


STY = {
    'dtml': dict(o='<dtml-%s%s>', c='</dtml-%s>'),
    'ssi': dict(o='<!--#%s%s-->', c='<!--#/%s-->'),
}


def pr(prog, sty='dtml'):
    S = STY[sty]
    o = lambda name, args='': S['o'] % (name, (' ' + args) if args else '')  # noqa
    c = lambda name: S['c'] % name  # noqa
    out = []
    for n in prog:
        t = n['t']
        if t == 'text':
            out.append(n['s'])
        elif t == 'var':
            out.append(o('var', _ref({'k': 'name', 'n': n['n']})))
        elif t == 'vx':
            out.append(o('var', _ref(n['c'])))
        elif t == 'probe':
            nm = n['n']
            arg = nm if nm.replace('_', 'a').isalnum() else "_.getitem('%s', 0)" % nm
            out.append(o('var', 'expr="_.vprobe(%s)"' % arg))
        elif t == 'if':
            f = n['form']
            if f == 'call':
                out.append(o('call', _ref(n['cs'][0]['c'])))
            elif f == 'unless':
                out.append(o('unless', _ref(n['cs'][0]['c'])) + pr(n['e'], sty) + c('unless'))
            else:
                for i, cb in enumerate(n['cs']):
                    out.append(o('if' if i == 0 else 'elif', _ref(cb['c'])) + pr(cb['b'], sty))
                if n['he']:
                    # the else tag may repeat what the if tag says (the documented long form): <dtml-else a> after <dtml-if a>
                    first = _ref(n['cs'][0]['c'])
                    named = n.get('named_else') and n['cs'][0]['c']['k'] == 'name' and not first.startswith('name=')
                    out.append(o('else', first if named else '') + pr(n['e'], sty))
                out.append(c('if'))
        elif t == 'let':
            out.append(o('let', ' '.join('%s=%s' % (b['n'], _letref(b['c'])) for b in n['bs'])) +
                       pr(n['b'], sty) + c('let'))
        elif t == 'with':
            out.append(o('with', _ref(n['c']) + (' mapping' if n['mapping'] else '') +
                         (' only' if n['only'] else '')) + pr(n['b'], sty) + c('with'))
        elif t == 'in':
            a = _ref(n['c'])
            for k, w in (('mapping', 'mapping'), ('nopush', 'no_push_item'), ('reverse', 'reverse')):
                if n[k]:
                    a += ' ' + w
            if n['pre']:
                a += ' prefix=' + n.get('prefix', 'p')
            if n.get('sorted'):
                a += ' sort=' + (n['sortkey'] or 'sequence-item')
            if n.get('bz'):
                # the same window written with an explicit end (which may lie beyond the sequence: the tag clamps it)
                a += (' start=%d end=%d' % (n['bs'], n['bs'] + n['bz'] - 1)) if n.get('be') else ' start=%d size=%d' % (n['bs'], n['bz'])
            if n.get('pf'):
                a += ' ' + {'sort_expr': 'sort_expr="nope"', 'reverse_expr': 'reverse_expr="nope"', 'size': 'size=nope'}[n['pf']]
            out.append(o('in', a) + pr(n['b'], sty) + ((o('else') + pr(n['e'], sty)) if n['he'] else '') + c('in'))
        elif t == 'try':
            s = o('try') + pr(n['b'], sty)
            for h in n['hs']:
                s += o('except', ' '.join(h['names'])) + pr(h['b'], sty)
            if n['he']:
                s += o('else') + pr(n['e'], sty)
            out.append(s + c('try'))
        elif t == 'tryf':
            out.append(o('try') + pr(n['b'], sty) + o('finally') + pr(n['f'], sty) + c('try'))
        elif t == 'raise':
            out.append(o('raise', ('expr="%s"' % n['cls']) if n.get('x') else n['cls']) + pr(n['b'], sty) + c('raise'))
        elif t == 'return':
            out.append(o('return', _ref(n['c'])))
        elif t == 'comment':
            out.append(o('comment') + n['s'] + c('comment'))
        else:
            raise ValueError(t)
    return ''.join(out)


# ---------------------------------------------------------------------------------------------
# values and instrumentation

class Run:
    """state of one execution of the real code"""
    plan = {}
    ninv = 0
    calls = None
    evs = None
    root = None
    on = False


RUN = Run()

import builtins  # noqa
EXC = {n: getattr(builtins, n) for n in ('KeyError', 'IndexError', 'LookupError', 'ValueError',
                                         'ZeroDivisionError', 'Exception', 'NameError', 'TypeError',
                                         'AttributeError', 'RuntimeError')}


import io  # noqa


class MultiError(LookupError, ValueError):
    """several direct bases: a handler naming any of them (or their bases) matches"""


class DeepMultiError(MultiError):
    pass


class Cancelled(BaseException):
    """a request cancelled from outside (like KeyboardInterrupt / asyncio.CancelledError): not an Exception"""


class AppError(Exception):
    """an application's own exception class, bound to a name in the namespace"""


import zExceptions  # noqa


class _ErrA(OSError):
    pass


class _ErrB(Exception):
    pass


_ErrA.__name__ = _ErrB.__name__ = 'Error'          # two libraries' own "Error" classes
EXC.update({'ErrorA': _ErrA, 'ErrorB': _ErrB, 'Redirect': zExceptions.Redirect, 'NotFound': zExceptions.NotFound, 'Cancelled': Cancelled, 'AppError': AppError, 'MultiError': MultiError, 'DeepMultiError': DeepMultiError, 'UnsupportedOperation': io.UnsupportedOperation,
            'OSError': OSError})


class Falsy(int):
    vid = '0'


class Obj:
    def __init__(self, vid, attrs):
        self.__dict__.update(attrs)
        self.vid = vid


class Fn:
    owner = None
    sets = None

    def __init__(self, vid, r, beh):
        self.vid, self.r, self.beh = vid, r, beh

    def __call__(self):
        from DocumentTemplate.DT_Return import DTReturn
        RUN.ninv += 1
        RUN.calls.append(self.vid)
        beh = RUN.plan.get(RUN.ninv, self.beh)
        if beh == 'ok':
            if self.sets is not None and self.owner is not None:
                setattr(self.owner, self.sets[0], self.sets[1])
            return self.r
        if beh == 'dtreturn':
            raise DTReturn('RV')
        raise EXC[beh]('boom')


def ident(v):
    if isinstance(v, str):
        return v
    return getattr(v, 'vid', None) or getattr(v, '__name__', None) or repr(v)


def conc(v, sty='dtml'):
    k = v['k']
    if k == 'plain':
        if 'bytes' in v:
            return v['bytes'].encode('utf-8')
        if v.get('none'):
            return None
        if 'num' in v:
            return v['num']
        if v['t']:
            return v['id']
        f = Falsy(0)
        f.vid = v['id']
        return f
    if k == 'fn':
        f = Fn(v['id'], conc(v['r'], sty), v.get('beh', 'ok'))
        if v.get('sets'):
            f.sets = (v['sets']['n'], conc(v['sets']['v'], sty))
        return f
    if k == 'tmpl':
        from DocumentTemplate.DT_HTML import HTML
        t = HTML(pr(v['prog'], sty), __name__=v['id'], **{a: conc(x, sty) for a, x in v['gl'].items()})
        t.vid = v['id']
        return t
    if k == 'obj':
        o = Obj(v['id'], {a: conc(x, sty) for a, x in v['a'].items()})
        for x in list(o.__dict__.values()):
            if isinstance(x, Fn) and x.sets is not None:
                x.owner = o
        return o
    if k == 'exccls':
        return EXC[v['id']]
    if k == 'cmap':
        return CMap(v['id'], {a: conc(x, sty) for a, x in v['a'].items()})
    if k == 'map':
        m = {a: conc(x, sty) for a, x in v['a'].items()}
        REG[id(m)] = (m, v['id'])
        return m
    if k == 'list':
        items = [conc(x, sty) for x in v['items']]
        ck = v.get('ck', 'list')
        if ck == 'tuple':
            return tuple(items)
        if ck == 'gen':
            return (x for x in items)
        if ck == 'iter':
            return iter(items)
        if ck == 'lazy':
            return LazyList(items)
        REG[id(items)] = (items, v['id'])
        return items
    if k == 'pair':
        return (conc(v['key'], sty), conc(v['v'], sty))
    raise ValueError(k)


class CMap:
    """a mapping whose values are computed on access (each successful read is an observable event)"""

    def __init__(self, vid, data):
        self.vid, self._data = vid, data

    def __getitem__(self, key):
        v = self._data[key]            # KeyError for a name it does not define
        RUN.calls.append('g:' + key)
        return v

    def __len__(self):
        # computed on demand: nothing is stored, so the mapping has no length to speak of (like a defaultdict or any
        # mapping with a __missing__ hook before its first use) -- it is a mapping all the same, and false in a truth test
        return 0


REG = {}       # id(container) -> (container, value id): dtml-return must hand back the very object


def ident_result(r):
    if isinstance(r, str):
        return r
    if hasattr(r, 'vid'):
        return ident(r)
    e = REG.get(id(r))
    if e is not None and e[0] is r:
        return e[1]
    return str(r)


class LazyList:
    def __init__(self, items):
        self._items = items

    def __getitem__(self, i):
        return self._items[i]

    def __len__(self):
        return len(self._items)


_installed = False


def install():
    """class-level wrappers (from outside, no source edit): push/pop log on the root namespace"""
    global _installed
    if _installed:
        return
    _installed = True
    from DocumentTemplate._DocumentTemplate import InstanceDict, TemplateDict
    from DocumentTemplate.DT_InSV import sequence_variables
    from DocumentTemplate.DT_Util import NotBindable
    orig_push, orig_pop = TemplateDict._push, TemplateDict._pop

    def kind(src):
        if isinstance(src, InstanceDict):
            return 'inst'
        if isinstance(src, sequence_variables):
            return 'sv'
        return 'map'

    def _push(self, src):
        r = orig_push(self, src)
        if RUN.on:
            if RUN.root is None:
                RUN.root = self
            if self is RUN.root:
                RUN.evs.append(['push', kind(src), len(self._data)])
        return r

    def _pop(self, i=1):
        if RUN.on and self is RUN.root:
            d = len(self._data)
            for j in range(i):
                RUN.evs.append(['pop', '', d - j - 1])
        return orig_pop(self, i)

    TemplateDict._push = _push
    TemplateDict._pop = _pop

    def vprobe(v):
        RUN.calls.append('p:' + ident(v))
        return ''
    TemplateDict.vprobe = NotBindable(vprobe)


_tcache = {}


_OTHER = {}


def run_case(case, plan, sty='dtml', cls=None, cache_key=None):
    """execute the real code on a (generator-AST) case under a fault plan; returns the observation
    {result: [...], calls: [...], evs: [...], ninv, level, depth}"""
    from DocumentTemplate.DT_HTML import HTML
    install()
    REG.clear()
    s = case['src']
    cv = lambda d: {a: conc(x, sty) for a, x in d.items()}  # noqa
    src = pr(case['prog'], sty)
    cm, ck = cv(s['cm']), cv(s['ck'])
    t = (cls or HTML)(src, cm if cm else None, **ck)
    if (len(src) + len(s['tv'])) % 2:
        # the template has been stored and restored (a state round trip) before it gets its variables
        import pickle
        t = pickle.loads(pickle.dumps(t))
    other = _OTHER.get(cls or HTML)
    if other is None:
        import pickle
        other = _OTHER[cls or HTML] = pickle.loads(pickle.dumps((cls or HTML)('another restored template')))
    # ... and another restored template of the process has variables of its own
    other.var(n='from-another-template', x='from-another-template', both='from-another-template')
    if s['tv']:
        t.var(**cv(s['tv']))
    clients = [conc(c, sty) for c in s['clients']]
    client = None if not clients else (clients[0] if len(clients) == 1 and not case.get('client_tuple') else tuple(clients))
    mapping = cv(s['map'])
    kw = cv(s['kw'])
    RUN.plan = {int(k): b for k, b in plan}
    RUN.ninv = 0
    RUN.calls = []
    RUN.evs = []
    RUN.root = None
    RUN.on = True
    try:
        try:
            r = t(client, mapping, **kw)
            res = ['ok', ident_result(r)]
        except (Exception, Cancelled) as e:  # noqa
            a = e.args[0] if e.args else ''
            if isinstance(e, NameError) and isinstance(a, str) and a.startswith("name '") and a.endswith("' is not defined"):
                a = a[6:-16]          # the machine reports the name only
            res = ['exc', type(e).__name__, a if isinstance(a, str) else repr(a)]
    finally:
        RUN.on = False
    root = RUN.root
    return {'result': res, 'calls': RUN.calls, 'evs': RUN.evs, 'ninv': RUN.ninv,
            'level': 0 if root is None else root.level,
            'depth': 0 if root is None else len(root._data), 'src': src}


def _flat(x):
    if isinstance(x, str):
        return x
    return ''.join(_flat(y) for y in x)


def expected(model):
    """projection of the machine's terminal state onto the same shape"""
    r = model['result']
    if r['k'] == 'text':
        res = ['ok', _flat(r['v'])]
    elif r['k'] == 'value':
        v = r['v']
        res = ['ok', v['id'] if (v['k'] != 'plain' or v['t'] or 'fid' not in v) else v['fid']]
        if v['k'] == 'plain' and not v['t'] and 'fid' not in v and 'num' not in v:
            res = ['ok', v['id']]
    else:
        m = r['msg']
        res = ['exc', {'ErrorA': 'Error', 'ErrorB': 'Error'}.get(r['cls'], r['cls']), _flat(m)]
    evs = [[e[0], 'map' if e[1] in ('cache', 'none', 'cmap') else e[1], e[2]] for e in model['evs']]
    return {'result': res, 'calls': model['calls'], 'evs': evs, 'ninv': model['ninv'],
            'depth': model['depth'], 'level': model['level']}


def dumps_cases(cases):
    return json.dumps([compile_case(c) for c in cases])
