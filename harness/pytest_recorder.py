"""pytest plugin (loaded with  -p harness.pytest_recorder  and PYTHONPATH=/verif): runs the repository's own
tests under the namespace-stack recorder.  Every rendering of a block body (render_blocks as imported by
DT_String, DT_In, DT_With, DT_Let, DT_Try, DT_Raise) is bracketed by enter / exit events and every
TemplateDict push / pop is logged, per namespace object; the traces are written to $VERIF_TRACE_OUT and
validated by TLC against spec/ObsStack.tla.  Installed from outside; nothing in /repo is edited."""
import json
import os

TRACES = []          # one dict per namespace object: {'ev': [...], 'initial': [...], 'test': nodeid}
_cur = {'test': ''}
_MAX_EVENTS = 4000


def _trace_of(md):
    try:
        t = getattr(md, 'verif_trace', None)      # TemplateDict keeps extra attributes in its own _dict
    except Exception:
        t = None
    if t is None:
        t = {'ev': [], 'initial': [-i for i in range(len(md._data))], 'test': _cur['test'], 'next': 1}
        try:
            md.verif_trace = t
        except Exception:
            return None
        TRACES.append(t)
    return t


def install():
    from DocumentTemplate import DT_In, DT_Let, DT_Raise, DT_String, DT_Try, DT_With
    from DocumentTemplate._DocumentTemplate import TemplateDict
    op, oo = TemplateDict._push, TemplateDict._pop

    def _push(self, src):
        t = _trace_of(self)
        r = op(self, src)
        if t is not None and len(t['ev']) < _MAX_EVENTS:
            t['ev'].append({'e': 'push', 'id': t['next']})
            t['next'] += 1
        return r

    def _pop(self, i=1):
        t = _trace_of(self)
        if t is not None and len(t['ev']) < _MAX_EVENTS:
            t['ev'].append({'e': 'pop', 'n': i})
        return oo(self, i)
    TemplateDict._push = _push
    TemplateDict._pop = _pop

    def wrap(mod):
        orig = mod.render_blocks

        def render_blocks(blocks, md, *a, **k):
            t = _trace_of(md) if isinstance(md, TemplateDict) else None
            full = t is None or len(t['ev']) >= _MAX_EVENTS
            if not full:
                t['ev'].append({'e': 'enter', 'level': md.level, 'site': mod.__name__.split('.')[-1]})
            how = 'ok'
            try:
                return orig(blocks, md, *a, **k)
            except BaseException:
                how = 'exc'
                raise
            finally:
                if not full:
                    t['ev'].append({'e': 'exit', 'level': md.level, 'how': how})
        mod.render_blocks = render_blocks
    for m in (DT_String, DT_In, DT_With, DT_Let, DT_Try, DT_Raise):
        wrap(m)


def pytest_configure(config):
    install()


def pytest_runtest_setup(item):
    _cur['test'] = item.nodeid


def pytest_sessionfinish(session, exitstatus):
    out = os.environ.get('VERIF_TRACE_OUT')
    if out:
        with open(out, 'w') as fh:
            json.dump([{'ev': t['ev'], 'initial': t['initial'], 'test': t['test'], 'truncated': len(t['ev']) >= _MAX_EVENTS}
                       for t in TRACES if t['ev']], fh)
