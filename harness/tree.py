"""Driver of the real dtml-tree: one request = one rendering with the cookie of the previous one."""
import re

SRC = '<dtml-tree root>ROW:<dtml-var tpId>;</dtml-tree>'
_t = {}


class Node:
    def __init__(self, nid):
        self.nid = nid
        self.kids = []

    def tpId(self):
        return self.nid

    def tpURL(self):
        return 'u'

    def tpValues(self):
        return self.kids


class Response:
    cookie = None

    def setCookie(self, name, value, **kw):
        if name == 'tree-s':
            self.cookie = value


def build(parent, ids=None):
    """parent: list, parent[i-1] = parent of node i (1-based, node 1 = root, parent 0)"""
    n = len(parent)
    ids = ids or ['n%d' % i for i in range(1, n + 1)]
    nodes = [Node(ids[i]) for i in range(n)]
    for i in range(1, n):
        nodes[parent[i] - 1].kids.append(nodes[i])
    return nodes


_link = re.compile(r'<a name="([^"]*)" href="([^"?]*)\?(tree-[ec])=([^#"]*)#')
_row = re.compile(r'ROW:(.*?);', re.S)


def request(nodes, cookie=None, click=None, special=None, src=SRC):
    """returns dict(rows=[ids], links={id: (param, value)}, cookie=str, state=set of ids in the cookie)"""
    from DocumentTemplate.DT_HTML import HTML
    from TreeDisplay import TreeTag
    t = _t.get(src)
    if t is None:
        t = _t[src] = HTML(src)
    resp = Response()
    kw = {'URL': 'http://h/doc', 'RESPONSE': resp, 'root': nodes[0]}
    if cookie is not None:
        kw['tree-s'] = cookie
    if click is not None:
        kw[click[0]] = click[1]
    if special:
        kw[special] = 1
    out = t(**kw)
    rows = _row.findall(out)
    links = {}
    dup = []
    for name, href, par, val in _link.findall(out):
        if name in links:
            dup.append(name)
        links[name] = (par, val)
    state = set()
    if resp.cookie is not None:
        dec = TreeTag.decode_seq(resp.cookie)

        def walk(lst):
            for e in lst:
                state.add(e[0])
                if len(e) > 1:
                    walk(e[1])
        walk(dec)
    return {'rows': rows, 'links': links, 'dup': dup, 'cookie': resp.cookie, 'state': state, 'out': out}
