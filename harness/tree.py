"""Driver of the real dtml-tree: one request = one rendering with the cookie of the previous one."""
import re

SRC = '<dtml-tree root>ROW:<dtml-var uid>;</dtml-tree>'
_t = {}
DEFAULT_OPT = {'ac': False, 'leaves': False, 'hf': False, 'single': False, 'rev': False, 'sorted': False}


def source(opt, variant=0):
    """the tag for an option record; `variant` chooses among spellings the model does not distinguish (how the children
    and the id are obtained, presentation options)"""
    a = 'root'
    a += ('', ' branches=kids2', ' branches_expr="kidsx()"', ' branches=tpValues')[variant % 4]
    idattr = 'tpId'
    if variant % 3 == 1:
        a += ' id=myid'
        idattr = 'myid'
    if variant % 5 == 2:
        a += ' nowrap=1 prefix=tp urlparam="k=v"'
    if opt.get('ac'):
        a += ' assume_children=1'
    if opt.get('leaves'):
        a += ' leaves=lf'
    if opt.get('hf'):
        a += ' header=hd footer=ft'
    if opt.get('single'):
        a += ' single=1'
    if opt.get('sorted'):
        a += ' sort=rank'
    if opt.get('rev'):
        a += ' reverse'
    return '<dtml-tree %s>ROW:<dtml-var uid>;</dtml-tree>' % a


def docs():
    from DocumentTemplate.DT_HTML import HTML
    d = _t.get('__docs__')
    if d is None:
        d = _t['__docs__'] = {'hd': HTML('HEAD:<dtml-var uid>;'), 'ft': HTML('FOOT:<dtml-var uid>;'),
                              'lf': HTML('LEAF:<dtml-var uid>;')}
    return d


class Node:
    def __init__(self, nid):
        self.nid = nid
        self.kids = []

    def tpId(self):
        return self.nid

    def tpURL(self):
        return 'u'

    def tpValues(self):
        return self.kids

    def myid(self):
        return self.nid


class NodeK2(Node):
    """children under another attribute name only (branches=kids2): the node has no tpValues"""
    tpValues = property()          # reading it raises AttributeError

    def kids2(self):
        return self.kids


class NodeKX(Node):
    """children handed out by a method that only branches_expr calls: no tpValues either"""
    tpValues = property()

    def kidsx(self):
        return self.kids


NODE_CLASSES = (Node, NodeK2, NodeKX, Node)          # by source() variant % 4


class Response:
    cookie = None

    def setCookie(self, name, value, **kw):
        if name == 'tree-s':
            self.cookie = value


def build(parent, ids=None, variant=0):
    """parent: list, parent[i-1] = parent of node i (1-based, node 1 = root, parent 0)"""
    n = len(parent)
    ids = ids or ['n%d' % i for i in range(1, n + 1)]
    nodes = [NODE_CLASSES[variant % 4](ids[i]) for i in range(n)]
    for i, nd in enumerate(nodes):
        nd.rank = i + 1
        nd.uid = 'u%d' % (i + 1)         # what the harness identifies rows by; the tag only sees tpId (unique among siblings)
    for i in range(1, n):
        nodes[parent[i] - 1].kids.append(nodes[i])
    return nodes


_tok = re.compile(r'<a name="([^"]*)" href="([^"?]*)\?(tree-[ec])=([^#"]*)#|(ROW|HEAD|FOOT|LEAF):(.*?);', re.S)
_KIND = {'ROW': 'row', 'HEAD': 'head', 'FOOT': 'foot', 'LEAF': 'leaf'}


def request(nodes, cookie=None, click=None, special=None, src=SRC, cls=None):
    """returns dict(rows=[uids], items=[[kind, uid]], links={uid: (param, value)}, cookie=str, state=set of uids named by the cookie)"""
    from DocumentTemplate.DT_HTML import HTML
    from TreeDisplay import TreeTag
    import copy
    # the tree is rebuilt for every request (rows read again from a database, fresh wrappers, another worker process): the
    # nodes of this request are other Python objects than those of the request before, equal in everything the tag may use
    nodes = copy.deepcopy(nodes)
    t = _t.get((src, cls))
    if t is None:
        t = _t[(src, cls)] = (cls or HTML)(src)
    resp = Response()
    kw = {'URL': 'http://h/doc', 'RESPONSE': resp, 'root': nodes[0]}
    kw.update(docs())
    if cookie is not None:
        kw['tree-s'] = cookie
    if click is not None:
        kw[click[0]] = click[1]
    if special:
        kw[special] = 1
    out = t(**kw)
    rows, items, links, dup = [], [], {}, []
    pending = None
    # a link belongs to the row whose body follows it (the anchor is written before the body of the same node)
    for name, href, par, val, kind, uid in _tok.findall(out.replace('?k=v&', '?')):
        if kind:
            items.append([_KIND[kind], uid])
            if kind == 'ROW':
                rows.append(uid)
                if pending is not None:
                    links[uid] = pending
                    pending = None
        else:
            if pending is not None:
                dup.append(name)
            pending = (par, val)
    if pending is not None:
        dup.append('link without a row')
    state = set()
    if resp.cookie is not None:
        dec = TreeTag.decode_seq(resp.cookie)

        def walk(lst, node):
            # the state names nodes by id paths: ids are unique among siblings only
            for e in lst:
                hit = [k for k in node.kids if k.nid == e[0]]
                if not hit:
                    state.add('unknown:%s' % (e[0],))
                    continue
                state.add(hit[0].uid)
                if len(e) > 1:
                    walk(e[1], hit[0])
        if dec and dec[0] and dec[0][0] == nodes[0].nid:
            state.add(nodes[0].uid)
            if len(dec[0]) > 1:
                walk(dec[0][1], nodes[0])
        elif dec:
            state.add('unknown-root:%r' % (dec[0][:1],))
    return {'rows': rows, 'items': items, 'links': links, 'dup': dup, 'cookie': resp.cookie, 'state': state, 'out': out}
