"""Drive the DTRender machine over a batch of cases with TLC and replay every exported behaviour
into the real renderer."""
import json

from harness import common, render, tlc

CFG = '''SPECIFICATION Spec
INVARIANT StackDiscipline
INVARIANT CallBalanced
INVARIANT EvsBalanced
INVARIANT Quiescent
INVARIANT NotStuck
INVARIANT Export
PROPERTY ExitRestores
CHECK_DEADLOCK FALSE
'''

_CASES = None


def explore(cases, workers=16, timeout=1800):
    """returns (TLCResult, list of exported terminal states)"""
    out = []
    res = tlc.run('DTRender', CFG, files={'cases.json': render.dumps_cases(cases)},
                  workers=workers, on_print=out.append, keep_prints=False, timeout=timeout)
    if res.violated:
        raise tlc.TLCFailure('DTRender machine violates %s:\n%s' % (res.violated, (res.error_trace or '')[:3000]))
    return res, out


def _replay(item):
    model, fields = item
    case = _CASES[model['tid'] - 1]
    exp = render.expected(model)
    obs = render.run_case(case, model['plan'], sty=case.get('sty', 'dtml'))
    bad = [f for f in fields if obs.get(f) != exp.get(f)]
    if case.get('no_evs') and 'evs' in bad:
        bad.remove('evs')
    extra = []
    if obs['depth'] != exp['depth']:
        extra.append('depth=%r expected %r' % (obs['depth'], exp['depth']))
    if obs['level'] != exp['level']:
        extra.append('level=%r expected %r' % (obs['level'], exp['level']))
    if bad or extra:
        return {'ok': 0, 'tid': model['tid'], 'plan': model['plan'], 'bad': bad, 'leak': extra,
                'src': obs['src'], 'expected': {f: exp.get(f) for f in bad},
                'observed': {f: obs.get(f) for f in bad}}
    return {'ok': 1}


def replay_all(cases, exported, fields, procs=None):
    global _CASES
    _CASES = cases
    return common.pool_map(_replay, [(m, fields) for m in exported], chunk=400, per_case=20, procs=procs)
