"""Observation of one batched dtml-in rendering of the real code (shared by C11 and C12).

The observation has exactly the shape of DTBatch!Obs: for every rendered element the row
<<number, previous-sequence, next-sequence, previous-start, previous-end, next-start, next-end,
  sequence-start, sequence-end, elements pulled so far>>.
"""
import re

UNDEF = -9

ROW = ('%sR <dtml-var sequence-number> <dtml-var previous-sequence> <dtml-var next-sequence>'
       ' <dtml-var previous-sequence-start-number missing=u>'
       ' <dtml-var previous-sequence-end-number missing=u>'
       ' <dtml-var next-sequence-start-number missing=u>'
       ' <dtml-var next-sequence-end-number missing=u>'
       ' <dtml-var sequence-start> <dtml-var sequence-end> <dtml-var pulls>;')

SRC_VARS = ('<dtml-in seq start=st end=en size=sz orphan=orp overlap=ov>' + ROW +
            '<dtml-else>EMPTY</dtml-in>')
SRC_PLAIN = '<dtml-in seq>' + ROW + '<dtml-else>EMPTY</dtml-in>'
PB = '<dtml-in previous-batches mapping></dtml-in>'
# a second loop over the same name inside the body of the first displayed element: it works on the same lazily filled
# sequence (no element is produced twice, nothing beyond what the outer loop already needed)
NEST = '<dtml-if sequence-start><dtml-in seq size=sz orphan=orp overlap=ov></dtml-in></dtml-if>'

_templates = {}


def template(kind='vars', extra='', lit=None):
    """compiled templates are cached and re-used across cases on purpose (shared compiled state)"""
    from DocumentTemplate.DT_HTML import HTML
    key = (kind, extra, lit)
    t = _templates.get(key)
    if t is None:
        if kind == 'vars':
            src = SRC_VARS % extra
        elif kind == 'plain':
            src = SRC_PLAIN % extra
        elif kind == 'rev':            # reversing changes which elements are shown, not the window arithmetic
            src = SRC_VARS.replace('overlap=ov>', 'overlap=ov reverse>') % extra
        elif kind == 'revx':
            src = SRC_VARS.replace('overlap=ov>', 'overlap=ov reverse_expr="1" sort_expr="\'\'">') % extra
        elif kind == 'rv0':            # a reverse_expr that evaluates false: nothing is to be reversed
            src = SRC_VARS.replace('overlap=ov>', 'overlap=ov reverse_expr="rv0">') % extra
        elif kind == 'plainrv0':
            src = SRC_PLAIN.replace('<dtml-in seq>', '<dtml-in seq reverse_expr="rv0 and rv0">') % extra
        elif kind == 'pfx':            # prefix=b, every variable read under its underscore spelling, on every element
            row = ROW % extra
            for a, b in (('sequence-number', 'b_number'), ('previous-sequence-start-number', 'b_previous_sequence_start_number'),
                         ('previous-sequence-end-number', 'b_previous_sequence_end_number'),
                         ('next-sequence-start-number', 'b_next_sequence_start_number'),
                         ('next-sequence-end-number', 'b_next_sequence_end_number'),
                         ('<dtml-var previous-sequence>', '<dtml-var b_previous_sequence>'),
                         ('<dtml-var next-sequence>', '<dtml-var b_next_sequence>'),
                         ('sequence-start', 'b_start'), ('sequence-end', 'b_end')):
                row = row.replace(a, b)
            src = '<dtml-in seq start=st end=en size=sz orphan=orp overlap=ov prefix=b>' + row + '<dtml-else>EMPTY</dtml-in>'
        elif kind == 'guard':          # a template class that supplies guards, elements the guard refuses are left out
            src = SRC_VARS.replace('overlap=ov>', 'overlap=ov skip_unauthorized>') % extra
        elif kind == 'reent':          # the first displayed element's body renders the same template object again, with other parameters
            src = SRC_VARS % ('<dtml-if sequence-start><dtml-call reenter></dtml-if>' + extra)
        elif kind == 'lit':
            src = ('<dtml-in seq start=%d end=%d size=%d orphan=%d overlap=%d>' % lit +
                   ROW % extra + '<dtml-else>EMPTY</dtml-in>')
        elif kind == 'ssi':
            src = ('<!--#in seq start=st end=en size=sz orphan=orp overlap=ov-->' +
                   (ROW % extra).replace('<dtml-', '<!--#').replace('>', '-->') +
                   '<!--#else-->EMPTY<!--#/in-->')
        else:
            raise ValueError(kind)
        t = (_guarded_class() if kind == 'guard' else HTML)(src)
        if kind != 'lit':
            _templates[key] = t
    return t


class _Refuse:
    lo = hi = 0          # the guard refuses the elements lo..hi (by what they are)


def _guarded_class():
    from DocumentTemplate.DT_HTML import HTML
    from zExceptions import Unauthorized
    c = _templates.get('__guarded__')
    if c is None:
        def guarded_getitem(ob, index):
            v = ob[index]
            if isinstance(v, int) and _Refuse.lo <= v <= _Refuse.hi:
                raise Unauthorized(str(index))
            return v
        c = _templates['__guarded__'] = type('GuardedHTML', (HTML,), {'guarded_getitem': staticmethod(guarded_getitem),
                                                                       'guarded_getattr': staticmethod(getattr)})
    return c


class IntLike:
    """an integer that is not an int (a database driver's or numpy's integer type): usable as an index and in arithmetic, its
    results are of its own kind"""

    def __init__(self, v):
        self.v = int(v)

    def __index__(self):
        return self.v
    __int__ = __index__

    def _w(self, r):
        return IntLike(r)

    def __add__(self, o): return self._w(self.v + int(o))
    __radd__ = __add__
    def __sub__(self, o): return self._w(self.v - int(o))
    def __rsub__(self, o): return self._w(int(o) - self.v)
    def __mul__(self, o): return self._w(self.v * int(o))
    __rmul__ = __mul__
    def __neg__(self): return self._w(-self.v)
    def __lt__(self, o): return self.v < int(o)
    def __le__(self, o): return self.v <= int(o)
    def __gt__(self, o): return self.v > int(o)
    def __ge__(self, o): return self.v >= int(o)
    def __eq__(self, o): return isinstance(o, (int, IntLike)) and self.v == int(o)
    def __ne__(self, o): return not self.__eq__(o)
    def __hash__(self): return hash(self.v)
    def __bool__(self): return self.v != 0
    def __repr__(self): return str(self.v)
    __str__ = __repr__


class Counter:
    """an iterator over 1..L (L=-1: unbounded) that counts how far it has been pulled"""

    nones = False     # True: every third element is None (an element like any other)

    def __init__(self, L, cap=100000):
        self.L = L
        self.n = 0
        self.cap = cap

    def __iter__(self):
        return self

    def __next__(self):
        if self.L >= 0 and self.n >= self.L:
            raise StopIteration
        if self.n >= self.cap:
            raise RuntimeError('RUNAWAY: pulled %d elements' % self.n)
        self.n += 1
        return None if (self.nones and self.n % 3 == 2) else self.n


class HintedCounter(Counter):
    """an iterator that knows only about the elements it has buffered (a chunked cursor): its length hint is a lower bound"""

    def __length_hint__(self):
        left = (self.L - self.n) if self.L >= 0 else 3
        return min(left, 2)


class LazySeq:
    """lazy __getitem__/__len__ sequence; records highest index asked and len() calls"""

    def __init__(self, L):
        self.L = L
        self.hi = 0
        self.lens = 0
        self.finished = False

    def __getitem__(self, i):
        if isinstance(i, slice):
            # slices the standard way: the bounds are normalised with the length -- which a lazy sequence only knows after
            # producing everything (so asking for a slice of an unfinished sequence is as expensive as len())
            start, stop, step = i.indices(len(self))
            return [self[j] for j in range(start, stop, step)]
        i = i.__index__()
        if i < 0:
            i += self.L
        if not 0 <= i < self.L:
            self.finished = True
            self.hi = self.L          # to find the end, everything had to be produced
            raise IndexError(i)
        self.hi = max(self.hi, i + 1)
        return i + 1

    def __len__(self):
        if not self.finished:
            self.lens += 1
        return self.L


class SizedIterable:
    """a result-set like source: cheap __len__, elements produced one by one by __iter__, no subscription"""

    def __init__(self, L):
        self.c = Counter(L)
        self.L = L

    def __len__(self):
        return self.L

    def __iter__(self):
        return self.c


class MappingLikeIterable(SizedIterable):
    """BTree-like: subscription by key (so not a sequence for the heuristics), iteration is lazy"""

    def keys(self):
        return self

    def get(self, k, default=None):
        return default

    def __getitem__(self, k):
        raise KeyError(k)


_rowre = re.compile(r'R (\S+) (\S+) (\S+) (\S+) (\S+) (\S+) (\S+) (\S+) (\S+) (\S+);')


def _num(x):
    return UNDEF if x == 'u' else int(x)


def observe(par, kind='vars', seqkind='list', as_str=False, extra=''):
    """render and return the observation dict {p,e,c,r,pl,ln,(err)}"""
    if kind == 'guard':
        # what is displayed is learnt from an unguarded rendering; the guard then refuses the 60 elements right behind it: the
        # displayed rows are the same, and so is the bound on what may be pulled to find out whether anything follows
        first = observe(par, kind='vars', seqkind=seqkind, as_str=as_str, extra=extra)
        if first['c'] or first['e'] or not first['r']:
            return first
        last = first['r'][-1][0]
        _Refuse.lo, _Refuse.hi = last + 1, last + 60
        try:
            return _observe(par, kind, seqkind, as_str, extra)
        finally:
            _Refuse.lo = _Refuse.hi = 0
    return _observe(par, kind, seqkind, as_str, extra)


def _observe(par, kind='vars', seqkind='list', as_str=False, extra=''):
    L, start, end, size, orphan, overlap = par
    lens = 0
    if seqkind == 'list':
        seq = list(range(1, L + 1))
        pulls = lambda: 0  # noqa
    elif seqkind == 'tuple':
        seq = tuple(range(1, L + 1))
        pulls = lambda: 0  # noqa
    elif seqkind == 'listnone':          # None is an element like any other: it has its place in the window
        seq = [None if k % 3 == 2 else k for k in range(1, L + 1)]
        pulls = lambda: 0  # noqa
    elif seqkind == 'gen':
        c = Counter(L)
        seq = c
        pulls = lambda: c.n  # noqa
    elif seqkind == 'gennone':
        c = Counter(L)
        c.nones = True
        seq = c
        pulls = lambda: c.n  # noqa
    elif seqkind == 'hinted':
        c = HintedCounter(L)
        seq = c
        pulls = lambda: c.n  # noqa
    elif seqkind == 'genfn':
        c = Counter(L)
        seq = (x for x in c)
        pulls = lambda: c.n  # noqa
    elif seqkind in ('sized', 'maplike'):
        s_ = (SizedIterable if seqkind == 'sized' else MappingLikeIterable)(L)
        c = s_.c
        seq = s_
        pulls = lambda: c.n  # noqa
    elif seqkind == 'lazy':
        c = LazySeq(L)
        seq = c
        pulls = lambda: c.hi  # noqa
    else:
        raise ValueError(seqkind)
    conv = IntLike if as_str == 'obj' else str if as_str else int
    if kind == 'lit':
        t = template('lit', extra, (start, end, size, orphan, overlap))
        kw = {}
    elif kind in ('plain', 'plainrv0'):
        t = template(kind, extra)
        kw = {'rv0': 0}
    else:
        t = template(kind, extra)
        kw = dict(st=conv(start), en=conv(end), sz=conv(size), orp=conv(orphan), ov=conv(overlap), rv0=0)
        if kind == 'reent':
            state = {'done': False}

            def reenter():
                # a listing that includes itself (a teaser of the same method): one inner rendering, parameters of its own
                if not state['done']:
                    state['done'] = True
                    try:
                        t(seq=list(range(1, 12)), pulls=lambda: 0, st=2, en=0, sz=max(1, (size % 3) + 2), orp=(orphan + 1) % 3,
                          ov=(overlap + 1) % 3, rv0=0, reenter=lambda: '')
                    except Exception:  # noqa
                        pass
                return ''
            kw['reenter'] = reenter
    obs = {'p': list(par), 'e': 0, 'c': 0, 'r': [], 'pl': 0, 'ln': 0}
    try:
        out = t(seq=seq, pulls=pulls, **kw)
    except Exception as e:  # noqa
        obs['c'] = 1
        obs['err'] = type(e).__name__ + ': ' + str(e)[:80]
        obs['pl'] = pulls()
        return obs
    obs['pl'] = pulls()
    if seqkind == 'lazy':
        obs['ln'] = c.lens
    if out == 'EMPTY':
        obs['e'] = 1
        return obs
    rows = _rowre.findall(out)
    if ''.join('R ' + ' '.join(r) + ';' for r in rows) != out and not extra:
        obs['c'] = 1
        obs['err'] = 'unparsable output: %r' % out[:120]
        return obs
    obs['r'] = [[_num(x) for x in r] for r in rows]
    return obs


# ---------------------------------------------------------------------------------------------
# batch lists (next-batches / previous-batches)

_BL = '(<dtml-var batch-start-index>,<dtml-var batch-end-index>,<dtml-var batch-size>)'
SRC_LISTS = ('<dtml-in seq start=st end=en size=sz orphan=orp overlap=ov>'
             '<dtml-if sequence-start>P<dtml-if previous-sequence><dtml-in previous-batches mapping>' + _BL + '</dtml-in></dtml-if>;</dtml-if>'
             'W<dtml-var sequence-number>;'
             '<dtml-if sequence-end>N<dtml-if next-sequence><dtml-in next-batches mapping>' + _BL + '</dtml-in></dtml-if>;</dtml-if>'
             '</dtml-in>')
_tl = {}
_ble = re.compile(r'\((-?\d+),(-?\d+),(-?\d+)\)')


def observe_lists(par, as_str=False, seqkind='list'):
    """render the batch lists of one window; returns {p, w, nb, pb, sizes_ok} or {p, err}"""
    from DocumentTemplate.DT_HTML import HTML
    L, start, end, size, orphan, overlap = par
    t = _tl.get('t')
    if t is None:
        t = _tl['t'] = HTML(SRC_LISTS)
    conv = str if as_str else int
    seq = list(range(1, L + 1))
    if seqkind == 'tuple':
        seq = tuple(seq)
    try:
        out = t(seq=seq, st=conv(start), en=conv(end), sz=conv(size), orp=conv(orphan), ov=conv(overlap))
    except Exception as e:  # noqa
        return {'p': list(par), 'err': type(e).__name__ + ': ' + str(e)[:80]}
    w = [int(x) for x in re.findall(r'W(\d+);', out)]
    mp = re.search(r'P([^;]*);', out)
    mn = re.search(r'N([^;]*);', out)
    if not w or mp is None or mn is None:
        return {'p': list(par), 'err': 'unparsable output: %r' % out[:120]}
    ok = True

    def lst(txt):
        nonlocal ok
        r = []
        for a, b, c in _ble.findall(txt):
            a, b, c = int(a), int(b), int(c)
            if c != b + 1 - a:
                ok = False
            r.append([a + 1, b + 1])
        return r
    return {'p': list(par), 'w': [w[0], w[-1]], 'nb': lst(mn.group(1)), 'pb': lst(mp.group(1)), 'sizes_ok': ok}


# ---------------------------------------------------------------------------------------------
# the tag forms <dtml-in ... previous> / <dtml-in ... next>

_FORM = ('<dtml-in seq %s start=st end=en size=sz orphan=orp overlap=ov>W<dtml-var sequence-step-start>,<dtml-var sequence-step-end>;'
         '%s<dtml-var %s-sequence-start-number>,<dtml-var %s-sequence-end-number>,<dtml-var %s-sequence-size>;<dtml-else>NONE</dtml-in>')
_tf = {}


def observe_forms(par, as_str=False, seqkind='list'):
    """render both forms; returns {p, w, pf, nf, sizes_ok} or {p, err}"""
    from DocumentTemplate.DT_HTML import HTML
    L, start, end, size, orphan, overlap = par
    if not _tf:
        _tf['previous'] = HTML(_FORM % ('previous', 'F', 'previous', 'previous', 'previous'))
        _tf['next'] = HTML(_FORM % ('next', 'F', 'next', 'next', 'next'))
        _tf['loop'] = HTML('<dtml-in seq start=st end=en size=sz orphan=orp overlap=ov><dtml-if sequence-start>'
                           'W<dtml-var sequence-step-start>,<dtml-var sequence-step-end>;</dtml-if></dtml-in>')
    conv = str if as_str else int
    seq = list(range(1, L + 1))
    if seqkind == 'tuple':
        seq = tuple(seq)
    kw = dict(seq=seq, st=conv(start), en=conv(end), sz=conv(size), orp=conv(orphan), ov=conv(overlap))
    out = {'p': list(par), 'sizes_ok': True}
    try:
        lw = re.match(r'W(-?\d+),(-?\d+);', _tf['loop'](**kw))
        out['w'] = [int(lw.group(1)), int(lw.group(2))]
        for form, key in (('previous', 'pf'), ('next', 'nf')):
            txt = _tf[form](**kw)
            if txt == 'NONE':
                out[key] = [0, UNDEF, UNDEF]
                continue
            m = re.match(r'W(-?\d+),(-?\d+);F(-?\d+),(-?\d+),(-?\d+);$', txt)
            if m is None:
                return {'p': list(par), 'err': 'unparsable output of the %s form: %r' % (form, txt[:100])}
            ws, we, fs, fe, fz = (int(x) for x in m.groups())
            if [ws, we] != out['w']:
                return {'p': list(par), 'err': 'the %s form computed the window %s, the loop %s' % (form, [ws, we], out['w'])}
            if fz != fe + 1 - fs:
                out['sizes_ok'] = False
            out[key] = [1, fs, fe]
    except Exception as e:  # noqa
        return {'p': list(par), 'err': type(e).__name__ + ': ' + str(e)[:80]}
    return out
