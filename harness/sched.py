"""Deterministic scheduler for real threads rendering one shared template (C18).

Every worker runs only while the scheduler has released it and parks at its next *scheduling point*:
  access mode -- before every access to shared compiled state: read / write of the template's _v_*
                 attributes, write (and, for attributes ever written after publication, read) of an
                 attribute of a compiled tag object reachable from _v_blocks, acquire / release of the
                 substituted DT_String.COOKLOCK;
  line mode   -- additionally before every source line of the package (sys.settrace).
All hooks are installed from outside (class-level monkeypatches, a probe subclass of the template class)
and removed afterwards; nothing in /repo is edited.  Events are appended to one log in the order the
scheduler granted them, so there is no wall-clock merging.
"""
import os
import sys
import threading

from . import common

PKG = None
_PKG_MODS = None


def pkg_dirs():
    global PKG
    if PKG is None:
        import DocumentTemplate
        import TreeDisplay
        PKG = (os.path.dirname(os.path.abspath(DocumentTemplate.__file__)) + os.sep,
               os.path.dirname(os.path.abspath(TreeDisplay.__file__)) + os.sep)
    return PKG


def in_pkg(fn):
    return fn.startswith(pkg_dirs()) and (os.sep + 'tests' + os.sep) not in fn


class Stuck(Exception):
    """a released thread neither reached a scheduling point nor finished in time (machinery failure)"""


class Deadlock(Exception):
    pass


class SchedLock:
    """stands in for DT_String.COOKLOCK: acquire / release are scheduling points, blocking is modelled"""

    def __init__(self, sched):
        self.sched = sched
        self.owner = None

    def acquire(self, *a, **k):
        self.sched.yield_point('acq', None)
        i = self.sched.me()
        if i is not None:
            assert self.owner is None, 'scheduler granted a held lock'
            self.owner = i
        return True

    def release(self):
        self.sched.yield_point('rel', None)
        self.owner = None

    def __enter__(self):
        self.acquire()
        return self

    def __exit__(self, *a):
        self.release()

    def locked(self):
        return self.owner is not None


class Scheduler:
    def __init__(self, n, timeout=20.0):
        self.n = n
        self.timeout = timeout
        self.go = [threading.Semaphore(0) for _ in range(n)]
        self.back = threading.Semaphore(0)
        self.state = ['new'] * n            # new | ready | running | done
        self.pending = [None] * n           # the event a parked thread is about to perform
        self.log = []                       # (thread, kind, detail) in grant order
        self.results = [None] * n
        self.steps = [0] * n
        self.local = threading.local()
        self.lock = SchedLock(self)
        self.keep = []
        self.published = {}                 # id of a published compiled object -> its index in traversal order
        self.line_mode = False
        self.line_watch = {}                # file basename -> set of line numbers that are scheduling points in access mode
        self.switches = 0

    def publish(self, blocks):
        for k, (oid, obj) in enumerate(reachable(blocks).items()):
            self.published[oid] = k
            self.keep.append(obj)           # keep published objects alive: ids must not be reused

    # ---- worker side
    def me(self):
        return getattr(self.local, 'idx', None)

    def yield_point(self, kind, detail):
        i = self.me()
        if i is None or getattr(self.local, 'busy', False):
            return
        self.local.busy = True
        try:
            self.pending[i] = (kind, detail)
            self.state[i] = 'ready'
            self.back.release()
            self.go[i].acquire()
            self.state[i] = 'running'
            self.steps[i] += 1
            self.log.append((i, kind, detail))
        finally:
            self.local.busy = False

    def _tracer(self):
        sched = self

        def local(frame, event, arg):
            if event == 'line':
                sched.yield_point('line', (os.path.basename(frame.f_code.co_filename), frame.f_lineno))
            return local

        def glob(frame, event, arg):
            if in_pkg(frame.f_code.co_filename):
                return local
            return None
        return glob

    def _watch_tracer(self):
        sched = self
        watch = self.line_watch

        def make_local(base, lines):
            def local(frame, event, arg):
                if event == 'line' and frame.f_lineno in lines:
                    sched.yield_point('u', ('line', base, frame.f_lineno))
                return local
            return local

        def glob(frame, event, arg):
            fn = frame.f_code.co_filename
            base = os.path.basename(fn)
            lines = watch.get(base)
            if lines and in_pkg(fn):
                return make_local(base, lines)
            return None
        return glob

    def _worker(self, i, job):
        self.local.idx = i
        self.local.busy = False
        self.yield_point('start', None)
        if self.line_mode:
            sys.settrace(self._tracer())
        elif self.line_watch:
            sys.settrace(self._watch_tracer())
        try:
            try:
                self.results[i] = ('ok', job())
            except BaseException as e:  # noqa
                self.results[i] = ('raised', '%s: %s' % (type(e).__name__, str(e)[:200]))
        finally:
            sys.settrace(None)
            if self.lock.owner == i:      # a thread that died holding the lock (cannot happen with 'with')
                self.lock.owner = None
            self.state[i] = 'done'
            self.pending[i] = None
            self.back.release()

    # ---- scheduler side
    def enabled(self):
        out = []
        for i in range(self.n):
            if self.state[i] != 'ready':
                continue
            if self.pending[i][0] == 'acq' and self.lock.owner is not None:
                continue
            out.append(i)
        return out

    def _step(self, i):
        self.go[i].release()
        if not self.back.acquire(timeout=self.timeout):
            raise Stuck('thread %d did not come back (pending %r)' % (i, self.pending[i]))

    def run(self, jobs, policy, line_mode=False, max_steps=2000000):
        """policy(enabled, sched) -> thread index.  Returns results (list per thread)."""
        self.line_mode = line_mode
        threads = [threading.Thread(target=self._worker, args=(i, jobs[i]), daemon=True) for i in range(self.n)]
        for t in threads:
            t.start()
        for _ in range(self.n):
            if not self.back.acquire(timeout=self.timeout):
                raise Stuck('worker did not start')
        last = None
        total = 0
        try:
            while any(s != 'done' for s in self.state):
                en = self.enabled()
                if not en:
                    raise Deadlock('no thread enabled: %r' % (list(zip(self.state, self.pending)),))
                i = policy(en, self)
                if i not in en:
                    i = en[0]
                if last is not None and i != last and last in en:
                    self.switches += 1
                last = i
                self._step(i)
                total += 1
                if total > max_steps:
                    raise Stuck('too many steps')
        finally:
            # never leave parked threads behind
            for i in range(self.n):
                if self.state[i] != 'done':
                    self.local_abort = True
                    for _ in range(1000):
                        if self.state[i] == 'done':
                            break
                        self.go[i].release()
                        self.back.acquire(timeout=0.5)
        for t in threads:
            t.join(timeout=self.timeout)
        return self.results


# -------------------------------------------------------------------------------------------------
# hooks

def reachable(v, acc=None, depth=0):
    """ids of the compiled objects reachable from a block list"""
    if acc is None:
        acc = {}
    if depth > 60 or id(v) in acc:
        return acc
    if isinstance(v, (str, bytes, int, float, type(None), bool)):
        return acc
    if isinstance(v, (list, tuple)):
        acc[id(v)] = v
        for x in v:
            reachable(x, acc, depth + 1)
        return acc
    if isinstance(v, dict):
        acc[id(v)] = v
        for x in v.values():
            reachable(x, acc, depth + 1)
        return acc
    s = getattr(v, '__self__', None)
    if s is not None and callable(v):
        reachable(s, acc, depth + 1)
        return acc
    mod = getattr(type(v), '__module__', '') or ''
    if mod.startswith(('DocumentTemplate', 'TreeDisplay', 'RestrictedPython')) and hasattr(v, '__dict__'):
        acc[id(v)] = v
        for x in list(v.__dict__.values()):
            reachable(x, acc, depth + 1)
    return acc


def tag_classes():
    from DocumentTemplate import DT_If, DT_In, DT_Let, DT_Raise, DT_Return, DT_Try, DT_Util, DT_Var, DT_With
    from TreeDisplay.TreeTag import Tree
    return [DT_In.InClass, DT_Var.Var, DT_Var.Call, DT_Var.Comment, DT_With.With, DT_Let.Let, DT_Try.Try,
            DT_Raise.Raise, DT_Return.ReturnTag, DT_Util.Eval, DT_If.If, DT_If.Unless, Tree]


class Hooks:
    """install(sched, watch) / remove().  watch: set of (class name, attribute) whose reads are events too."""

    def __init__(self):
        self.saved = []
        self.sched = None

    def install(self, sched, watch=()):
        from DocumentTemplate import DT_String
        self.sched = sched
        self.saved.append((DT_String, 'COOKLOCK', DT_String.COOKLOCK))
        DT_String.COOKLOCK = sched.lock
        watch_by = {}
        for c, a in watch:
            watch_by.setdefault(c, set()).add(a)
        for cls in tag_classes():
            self._patch(cls, sched, watch_by.get(cls.__name__, set()))

    def _patch(self, cls, sched, watched):
        name = cls.__name__
        had_set = '__setattr__' in cls.__dict__
        old_set = cls.__dict__.get('__setattr__')

        def hooked_setattr(self, attr, val, _n=name):
            k = sched.published.get(id(self))
            if k is not None:
                sched.yield_point('w', (_n, attr, k))
            object.__setattr__(self, attr, val)
        cls.__setattr__ = hooked_setattr
        self.saved.append((cls, '__setattr__', old_set if had_set else _MISSING))
        if watched:
            had_get = '__getattribute__' in cls.__dict__
            old_get = cls.__dict__.get('__getattribute__')

            def hooked_getattr(self, attr, _n=name, _w=frozenset(watched)):
                if attr in _w:
                    k = sched.published.get(id(self))
                    if k is not None:
                        sched.yield_point('r', (_n, attr, k))
                return object.__getattribute__(self, attr)
            cls.__getattribute__ = hooked_getattr
            self.saved.append((cls, '__getattribute__', old_get if had_get else _MISSING))

    def remove(self):
        for obj, attr, old in reversed(self.saved):
            if old is _MISSING:
                try:
                    delattr(obj, attr)
                except AttributeError:
                    pass
            else:
                setattr(obj, attr, old)
        self.saved = []


_MISSING = object()


def make_probe(cls, sched_ref):
    """a subclass of the template class whose _v_* accesses are scheduling points; sched_ref: 1-element list"""

    class Probe(cls):
        def __getattribute__(self, name):
            if name[:3] == '_v_':
                s = sched_ref[0]
                if s is not None:
                    s.yield_point('r', name)
            return object.__getattribute__(self, name)

        def __setattr__(self, name, val):
            if name[:3] == '_v_':
                s = sched_ref[0]
                if s is not None:
                    s.yield_point('w', name)
                    if name == '_v_blocks':
                        s.publish(val)
            object.__setattr__(self, name, val)

        def __delattr__(self, name):
            if name[:3] == '_v_':
                s = sched_ref[0]
                if s is not None:
                    s.yield_point('d', name)
            object.__delattr__(self, name)
    Probe.__name__ = cls.__name__
    Probe.__qualname__ = cls.__qualname__
    return Probe


# -------------------------------------------------------------------------------------------------
# fingerprint of the shared compiled state (pre-pass in line mode: which lines write shared state?)

def _is_instance(g):
    import types
    if isinstance(g, (type, types.ModuleType, types.FunctionType, types.BuiltinFunctionType, types.MethodType, str, bytes, int,
                      float, tuple, frozenset, type(None))):
        return False
    return hasattr(g, '__dict__') and type(g).__module__.split('.')[0] in ('DocumentTemplate', 'TreeDisplay')


def fingerprint(template):
    out = []
    d = template.__dict__
    for k in sorted(d):
        v = d[k]
        out.append((k, id(v) if not isinstance(v, (str, int, float, type(None))) else v))
        if isinstance(v, dict) and k != 'globals':
            # a mapping kept on the template (hooks, memo tables): what it holds is shared state too
            out.append((k, 'content', tuple(sorted((repr(a), id(b) if not isinstance(b, (str, int, float, type(None), bool)) else b)
                                                   for a, b in v.items()))))
    objs = reachable(d['_v_blocks']) if '_v_blocks' in d else {}
    for i in sorted(objs):
        o = objs[i]
        if isinstance(o, (list, tuple)):
            out.append((i, tuple(id(x) if not isinstance(x, (str, int, float, type(None))) else x for x in o)))
        elif isinstance(o, dict):
            out.append((i, tuple(sorted((repr(k), id(x) if not isinstance(x, (str, int, float, type(None))) else x)
                                        for k, x in o.items()))))
        else:
            out.append((i, tuple(sorted((k, id(x) if not isinstance(x, (str, int, float, type(None), bool)) else x)
                                        for k, x in o.__dict__.items()))))
    from DocumentTemplate.DT_String import String
    out.append(('commands', tuple(sorted((k, id(v)) for k, v in String.commands.items()))))
    # module-level mutable containers of the package (caches, free lists, registries)
    global _PKG_MODS
    if _PKG_MODS is None:
        _PKG_MODS = [(mname, mod) for mname, mod in sorted(sys.modules.items())
                     if mod is not None and (mname.startswith('DocumentTemplate') or mname.startswith('TreeDisplay'))
                     and '.tests' not in mname]
    for mname, mod in _PKG_MODS:
        for gname, g in vars(mod).items():
            if gname.startswith('__'):
                continue
            if isinstance(g, (list, set)):
                out.append((mname, gname, len(g), tuple(id(x) for x in list(g)[:50])))
            elif isinstance(g, dict) and gname not in ('__builtins__',):
                out.append((mname, gname, len(g), tuple(sorted(id(x) for x in list(g.values())[:50]))))
            elif _is_instance(g):
                # module-level objects (preallocated signals, singletons): their attributes are shared state
                try:
                    out.append((mname, gname, tuple(sorted((k, id(x) if not isinstance(x, (str, int, float, type(None), bool)) else x)
                                                           for k, x in vars(g).items()))))
                except TypeError:
                    pass
    return tuple(out)


# -------------------------------------------------------------------------------------------------
# policies

def explicit(schedule):
    """follow a list of thread indices; afterwards lowest enabled index"""
    it = iter(schedule)

    def pol(en, s):
        for x in it:
            return x
        return en[0]
    return pol


def segments(segs):
    """[(thread, steps), ...] then run-to-completion in index order: the bounded-preemption family"""
    segs = list(segs)
    state = {'k': 0, 'left': segs[0][1] if segs else 0}

    def pol(en, s):
        while state['k'] < len(segs):
            t, _ = segs[state['k']]
            if state['left'] > 0 and t in en:
                state['left'] -= 1
                return t
            state['k'] += 1
            if state['k'] < len(segs):
                state['left'] = segs[state['k']][1]
        return en[0]
    return pol


def pct(rng, n, depth, est_steps):
    """PCT: random priorities, `depth` priority change points at random steps"""
    prio = list(range(depth + 1, depth + 1 + n))
    rng.shuffle(prio)
    change = sorted(rng.randrange(1, max(2, est_steps)) for _ in range(depth))
    st = {'step': 0, 'ci': 0}

    def pol(en, s):
        st['step'] += 1
        i = max(en, key=lambda t: prio[t])
        while st['ci'] < len(change) and st['step'] >= change[st['ci']]:
            prio[i] = depth - st['ci']
            st['ci'] += 1
            i = max(en, key=lambda t: prio[t])
        return i
    return pol
