#!/usr/bin/env python3
"""(re)generate /verif/MANIFEST.json from the table below; validates against the schema when
jsonschema is importable (python3-vt)."""
import json
import os

VERIF = os.path.dirname(os.path.dirname(os.path.abspath(__file__)))
BASELINE_OFF = ("cd /repo && env -u DOCUMENTTEMPLATE_VERIF /venv/bin/python -m pytest -ra -q "
                "-p no:cacheprovider --timeout=900 --continue-on-collection-errors")

CHECKS = {
    'C01': dict(engine='DTParse',
        technique='TLA+ machine of the DTML compiler (DTScan + DTParse: character-level tag recognisers, block matcher, skip_eol) '
                  'checked by TLC; every behaviour replayed into the real compiler and renderer; scanner searches recorded from the '
                  'real code compared with the machine\'s',
        text='The machine cuts every source into literal slices and tags (invariant Tiling: the spans of every parsed text partition '
             'it in order and each literal is the source slice itself; skip_eol is the only place where characters are dropped) and '
             'renders the compiled normal form for plain namespaces; TLC explores all near-tag fragment sequences of the tier, block '
             'skeletons in all four spellings with every line-end variant after every block tag, pairs and every split point; the '
             'real class must return the machine\'s text, and must compose wherever the machine\'s renderings compose.',
        note='Namespaces hold plain ASCII text, int lists and an attribute-less object; composition is claimed exactly where the '
             'machine composes (no tag and no skipped line end straddles the junction).',
        ref='DESIGN.md section 4 C01'),
    'C06': dict(engine='DTParse',
        technique='TLA+ machine of the DTML compiler (DTScan + DTParse: tag recognisers, parse / parse_block / parse_close, '
                  'parse_params, name_param, every tag constructor, parse_error) checked by TLC; every behaviour replayed into the real '
                  'compiler; TLA+ product machine over the automata of the regular expressions the package compiles (DTRegexAmb) '
                  'checked by TLC for exponentially ambiguous loops, every witness (prefix, pump) measured on the real compiler; CPU '
                  'time of fixed pump families measured',
        text='TLC checks ErrLocated (a ParseError names a tag of the source and the line of its first character), OnlyTwoErrors, '
             'FrameProgress (every loop consumes input: termination) on all item sequences, attribute lists, single mutations, '
             'truncations and random soups of the tier; the real compiler must accept / reject the same sources with the same '
             'exception class, named tag and line, and may raise nothing but ParseError / SyntaxError on any input; the automata of all '
             'patterns the package compiles are searched by TLC for a loop readable in two ways (exponential backtracking) and each '
             'witness is fed to cook() in every tag position; fixed pump families bound the compile time by a cubic envelope.',
        note='Which expression texts are invalid Python is supplied by ast.parse; accept / reject on random soups is recorded as '
             'drift, not claimed; known finding F4 (RecursionError beyond ~300 nested blocks).',
        ref='DESIGN.md section 4 C06'),
    'C07': dict(engine='DTParse',
        technique='TLA+ machine of the DTML compiler (DTScan + DTParse) compiling every spelling of one abstract template with the '
                  'recogniser of its syntax, invariant SameProgram checked by TLC; each spelling compiled and rendered by the real '
                  'classes and compared with the machine\'s program and pairwise',
        text='One case is one abstract template printed in 4-7 spellings (<dtml->, <!--#-->, with /tag and endtag closers, %()[ ]), '
             'entities, varied white space, quoting, attribute case, end-tag arguments); TLC checks that all spellings compile to one '
             'normal form; the normalised _v_blocks of every real compilation must be that normal form, and renderings under three '
             'namespaces with logging callables must agree pairwise in text / exception and call log; malformed templates and foreign directive '
             'names must be rejected in all spellings alike; two templates compiled by two threads at once (one preempted at sampled lines by '
             'the deterministic scheduler) still compile, in every spelling, to the program the other spellings give.',
        note='Random abstract templates over every tag and option plus each option alone; expressions from a pool printable in all syntaxes.',
        ref='DESIGN.md section 4 C07'),
    'C18': dict(engine='DTConc',
        technique='TLA+ model of threads x compile lock x shared compiled state (DTConc), instantiated with access programs extracted '
                  'from the real code, enumerated by TLC; every schedule replayed on real threads under a deterministic scheduler; '
                  'line-granularity schedules (bounded preemptions, PCT) on real threads; recorded access traces validated by TLC (ObsConc)',
        text='TLC checks Published and LockDiscipline and enumerates all access-level interleavings (2 threads: up to 2-3 preemptions, '
             '3 threads: 1-2) of the cook protocol and the render-phase accesses, marking schedules in which a thread would find no block '
             'list or read another render\'s value; every schedule is replayed with real threads parked before each shared access and '
             'each thread\'s result must be its solo result; at line granularity every single-preemption schedule of compiled '
             'templates, a systematic sample for compiling ones, two preemptions and PCT-random priorities are run with the same oracle; '
             'the access traces recorded there must be behaviours of DTConc; earlier requests are served up to the brink of an eviction that '
             'serving itself reveals; a sampled stage preempts a thread a hundred template calls deep (no enumeration).',
        note='Six templates (every block tag, sort_expr / reverse_expr, batches, shared sub-template, restricted expressions, %()s) with '
             'per-thread namespaces; threads are serialised at source-line granularity by the scheduler (the property\'s granularity).',
        ref='DESIGN.md section 4 C18'),
    'C05': dict(engine='DTGuard',
        technique='TLA+ machine of guard mediation (DTGuard: guard asked / answered / value read) validating the trace of every '
                  'rendering recorded with a recording guard and logging client objects; two-run non-interference per channel',
        text='Every access channel of the language (name lookup in client / client tuple / with / with only / let / if / expression, '
             'o.a, o[i], _.getattr / _.hasattr, elements iterated by dtml-in with and without skip_unauthorized and batches, per-item '
             'variables, statistics, sort keys, fmt=method, url, sub-templates, dtml-tree branches) x {public, underscore-private, '
             'guard-denied} x nine enclosing contexts (with only, let, in, try, sub-template ...) and every subset of refused elements '
             'is rendered with a recording guard; TLC replays each trace (mediated / released / unmediated reads, table Expect, '
             'ShownOnlyIfReleased, ItemsOK, GrantedOK); a flow is reported only when two runs differing in the refused values differ or show a marker; '
             'a guard that grants an attribute in one context and refuses it in the next (the object being wrapped twice in one rendering) is '
             'asked by every wrapper: the value is shown at most as often as it was granted; a refused branches attribute of a tree node hides '
             'everything below the node (first rendering, expand_all, click) also for templates used without guards before.',
        note='Known finding F9 (per-item variables, statistics, sort keys, url read raw); _.getattr / _.hasattr and o[i] inside '
             'expressions are mediated by AccessControl\'s own guards in this environment, only the flow test applies there.',
        ref='DESIGN.md section 4 C05'),
    'C11': dict(
        engine='DTBatch',
        technique='TLA+ model (DTBatch) checked by TLC; exported behaviours replayed into dtml-in; '
                  'recorded renderings validated by TLC (ObsBatch); TLA+ machine of sequence-query (DTQuery) checked by TLC and replayed, '
                  'its links followed in the real code',
        text='TLC exhaustively explores the DTBatch machine (window arithmetic of opt/renderwb, '
             'look-ahead, navigation by following announced links) over the whole parameter space of '
             'the tier and checks every clause of the property as an invariant; every explored '
             'behaviour is replayed into the real dtml-in and compared row by row; departures, a '
             'sample, random larger parameters and every navigation chain recorded from the real code '
             'are validated by TLC against the same clauses; the batch lists (next-batches / previous-batches) are '
             'specified as repeated look-ahead (InvNextList, InvPrevList, InvListsAgree), replayed and validated likewise; '
             'sequence-query (machine DTQuery: Strip / Wrap / Cut / Finish with clauses Q_Shape, Q_Others, Q_StartGone, Q_Stable) is '
             'replayed into the real tag and the links built from it are followed until every element has been shown.',
        note='Sequences are lists/tuples of ints, parameters ints or numeric strings; announced '
             'neighbours are specified modulo clamping into 1..L; TLC and the JSON bridge are trusted.',
        ref='DESIGN.md section 4 C11'),
    'C12': dict(
        engine='DTBatch',
        technique='TLA+ model (DTBatch, lazy-sequence pulls) checked by TLC; behaviours replayed with counting '
                  'iterators; recorded pull counts validated by TLC (ObsBatch)',
        text='The DTBatch machine models every probe of the code as a pull on a lazily produced sequence '
             '(bounded or unbounded); TLC checks the pull bound at every step, monotonicity and termination '
             'over the whole parameter space of the tier; every behaviour is replayed with counting '
             'iterators/generators/lazy sequences and the per-row pull counts compared; departures, the '
             'behaviours where the machine itself exceeds the strict bound, a sample and random larger '
             'parameters are validated by TLC against the clause; hangs are caught by a watchdog; also lazy sequences that slice through '
             'their length, batch parameters of a foreign integer type, guarded renderings with skip_unauthorized and a run of refused '
             'elements right behind the window.',
        note='An iterator cannot be pulled out of order or twice by construction, so the clause checked is the '
             'bound, monotonicity, termination and (unbatched) pull-all; previous-batches is only exercised for '
             'overlap < size (its loop does not terminate otherwise, for any sequence).',
        ref='DESIGN.md section 4 C12'),
    'C02': dict(engine='DTRender', technique='TLA+ small-step machine of the renderer (DTRender) checked by TLC; every behaviour (case x fault plan) exported and replayed into the real renderer; every name search recorded from the real code (frame proxies; the cases and the repository\'s own tests) validated by TLC against the projection specification ObsLookup',
        text='The DTRender machine builds the namespace stack exactly as String.__call__ does and resolves names by '
             'top-down search with the auto-call rule; TLC explores every case (all 127 subsets of the seven sources, '
             'value kinds, client shapes, reference forms; every scoping block nested, also left by exceptions) and the '
             'real renderer must return the same text and call the same values in the same order.  Second binding: in every '
             'recorded search of every TemplateDict (C02 / C08 cases under fault plans, the 237 tests of the repository) the frame '
             'that answered is the highest frame defining the name, KeyError exactly when none does (ObsLookup, per-trace verdicts).  Also '
             'modelled and replayed: objects built by _.namespace(a=n), a let binding a name to itself, computing / empty mappings as '
             'with-bindings, nested and sibling loops with prefixes of their own (a prefixed name is answered by the tag carrying that prefix).',
        note='Values are distinct markers; the machine is the oracle and is itself checked for stack discipline; the probe order of the real search is recorded as drift only.',
        ref='DESIGN.md section 4 C02'),
    'C08': dict(engine='DTRender', technique='TLA+ small-step machine of the renderer (DTRender) checked by TLC; every behaviour (case x fault plan) exported and replayed into the real renderer',
        text='TLC checks StackDiscipline, ExitRestores, CallBalanced on the machine for every program x fault plan '
             '(no fault, one fault at every invocation ordinal, pairs); every behaviour is replayed into the real '
             'renderer with all TemplateDict pushes/pops logged; the complete log, the final depth and level must be '
             'the machine\'s.',
        note='Faults are exceptions / DTReturn raised by namespace callables; dtml-tree pushes belong to C20 drivers.',
        ref='DESIGN.md section 4 C08'),
    'C09': dict(engine='DTRender', technique='TLA+ small-step machine of the renderer (DTRender) checked by TLC; every behaviour (case x fault plan) exported and replayed into the real renderer',
        text='All chains of condition atoms up to the tier length with every truth assignment, else shape and body '
             'shape are explored by TLC on the machine (cache frame, in-order evaluation, caching of named '
             'conditions) and replayed; returned text and the ordered call log must agree; also names bound to document templates '
             '(rendered on the current namespace, the text is the value: IfCondTmpl), client objects that acquire attributes while the '
             'template is rendered (setter methods), enclosed with ... only blocks.',
        note='Truth assignments are realised by the values; expressions are n(), n, not n.',
        ref='DESIGN.md section 4 C09'),
    'C10': dict(engine='DTRender', technique='TLA+ small-step machine of the renderer (DTRender) checked by TLC; every behaviour (case x fault plan) exported and replayed into the real renderer',
        text='The machine defines every documented sequence variable (SvValue/SvLookup), the push rule and the else '
             'rule; TLC explores all small sequences x containers x options (incl. sort, reverse, prefix) and the real '
             'dtml-in must print the same table, call log and push/pop log; also bodies that raise while an element is pushed, '
             'attributes named like the fixed variables, batched windows written with an explicit end, failing loop preparation.',
        note='sequence-key only for 2-tuples, first-/last-/var-x only where every element has x.',
        ref='DESIGN.md section 4 C10'),
    'C14': dict(engine='DTRender', technique='TLA+ small-step machine of the renderer (DTRender) checked by TLC; every behaviour (case x fault plan) exported and replayed into the real renderer',
        text='Handler selection, else/finally rules, raise and return are actions of the machine; TLC explores handler '
             'lists over a depth-3 class hierarchy x raising positions x nesting x faults, and the real renderer must '
             'give the same result (text / returned value / propagated class and message) and call log.',
        note='Exception classes are builtins; messages compared as first argument.',
        ref='DESIGN.md section 4 C14'),
    'C03': dict(engine='DTVar', technique='TLA+ staged machine of the dtml-var pipeline (DTVar) checked by TLC; every behaviour exported and replayed into the real tag in several spellings',
        text='DTVar carries value-origin special characters as marked symbols; TLC checks NoRawSpecial / PlainUntouched over '
             'all short strings, single code points and random strings x the four insertion forms; each behaviour is '
             'replayed (HTML, SSI, EPFS, entity, bytes in the template encoding) and must give exactly the machine\'s text.',
        note='html.escape semantics transcribed as Esc; codecs trusted for the bytes variants.',
        ref='DESIGN.md section 4 C03'),
    'C04': dict(engine='DTVar', technique='TLA+ staged machine of the dtml-var pipeline (DTVar) checked by TLC; every behaviour exported and replayed into the real tag in several spellings',
        text='The taint flag is a state variable carried through every stage; TLC checks NoRawLT and OnceNotTwice for all '
             '4096 modifier subsets, formats x C-format x sizes x etc x null, three positions of "<"; the real tag must '
             'produce the machine\'s text for every behaviour (name, expression, entity; three syntaxes).',
        note='A tainted value is a TaintedString containing "<"; known finding F20 (fmt=multi-line then url_unquote).',
        ref='DESIGN.md section 4 C04'),
    'C15': dict(engine='DTVar', technique='TLA+ staged machine of the dtml-var pipeline (DTVar) checked by TLC; every behaviour exported and replayed into the real tag in several spellings',
        text='One action per pipeline stage with StageOrder as action property, TruncBound, RoundTrip, SqlSafe checked by '
             'TLC over 13 texts and non-text values x all modifier subsets, formats, sizes, etc strings, null/missing; '
             'every behaviour replayed in several written orders and syntaxes.',
        note='ASCII model of case mapping and URL quoting; numeric values via their str() form.',
        ref='DESIGN.md section 4 C15'),
    'C13': dict(engine='DTSort',
        technique='TLA+ sort machine (DTSort) checked by TLC; behaviours replayed with seven key types; recorded orders '
                  'validated by TLC against the clauses (ObsSort)',
        text='DTSort models decorate / stable insertion / reverse with the comparators of the function path (cmp, nocase, locale, locale_nocase, a function from the namespace) and of the plain path; '
             'TLC checks Permutation, Ordered, Stable, exact reverse and input-kept over all small lists x specs; every '
             'behaviour is replayed (str, int, float, bool, date, Decimal, callable keys; objects and mappings; sort= and '
             'sort_expr=; batched) and every departure plus a sample is validated by TLC on the recorded order.',
        note='Mutual order of elements whose deciding key is None/missing on both sides is unspecified; under /desc missing '
             'keys come last.',
        ref='DESIGN.md section 4 C13'),
    'C16': dict(engine='DTStats',
        technique='TLA+ model of the statistics loop (DTStats) checked by TLC against the definitions; statistics recorded '
                  'from the real code validated by TLC in exact integer arithmetic (ObsStats)',
        text='Data are integers of a unit, realised as int, float, quarters and 0.5+k*2^-15; TLC checks the loop against the '
             'definitions and evaluates every clause (count, total, min, max, mean, both variances, sd^2, median, '
             'non-numeric) on every recorded observation.',
        note='Binary fractions only (exact); tolerance 1/1000 unit; mixed number/string data undefined.',
        ref='DESIGN.md section 4 C16'),
    'C19': dict(engine='DTJoin',
        technique='TLA+ model of piece joining and ustr (DTJoin) checked by TLC; every case replayed with four template encodings',
        text='DTJoin gives the result of every piece tree (0/1/n rule, decode on join, html_quote decoding, dtml-in join, '
             'inline if bodies, own render_blocks of try/with/let) and the string form of non-string values; TLC checks '
             'MultiIsText, BytesEquivText, RaisesOnlyOwn; each case is rendered with utf-8, latin-1, cp1252 and utf-16 '
             'templates and type and text must agree.',
        note='Codecs trusted; for a single piece the property leaves the result type open.',
        ref='DESIGN.md section 4 C19'),
    'C20': dict(engine='DTTree',
        technique='TLA+ state machine of dtml-tree (DTTree) checked by TLC; lock-step product exploration of every exported '
                  'transition through the real tag; recorded random histories validated by TLC (ObsTree)',
        text='exp (the set of expanded nodes) is the only state, the tag options assume_children / leaves / header / footer / single / '
             'sort / reverse are parameters of the machine; TLC checks Closed, RowsAreChildrenOfExpanded, RowsOnce, OneLinkEach, '
             'ToggleOnly and the codec length arithmetic over all ordered trees of the tier x option records and exports every transition; the '
             'harness drives the real tag along each (cookie + generated link) comparing rows, links and the decoded cookie; '
             'random larger trees with long / non-ASCII ids and histories up to 40 are validated by TLC; codec round trips; a link followed '
             'while the state cookie belongs to another tree (ClickOther); the tree rebuilt for every request, falsy ids; guarded trees with '
             'skip_unauthorized and rows that cannot be rendered (refused as a whole, or validated against the machine for the tree without them).',
        note='zlib/base64/json trusted; branches / branches_expr / id / nowrap / prefix / urlparam are spellings the machine does not distinguish; ids without a double quote (they are not escaped in the anchors).',
        ref='DESIGN.md section 4 C20'),
    'C17': dict(engine='DTLife',
        technique='TLA+ life-cycle machine (DTLife) enumerated and simulated by TLC; every history executed in lock step on '
                  'one real template object',
        text='TLC checks NoStaleBlocks / FreshEqual and exports every operation history of the tier length (plus simulated '
             'histories of length 8) with the <<source, defaults, namespace>> key each Render must produce; the harness '
             'executes the history on a real template with persistent caller data, compares each render with a fresh '
             'template, and snapshots caller mappings, sequences and defaults after every operation; file templates incl. '
             'pickle contents.',
        note='The expected text for a key is rendered by a freshly constructed template (the property defines it so).',
        ref='DESIGN.md section 4 C17'),
}

REASON_PENDING = 'check not built yet in this round (planned, see DESIGN.md section 4)'
ALL = ['C%02d' % i for i in range(1, 21)]


def main():
    checks = []
    for pid in ALL:
        c = CHECKS.get(pid)
        if not c:
            continue
        checks.append({
            'property_id': pid,
            'quick_cmd': 'bin/check %s --tier quick' % pid,
            'thorough_cmd': 'bin/check %s --tier thorough' % pid,
            'evidence_file': 'evidence/%s.json' % pid,
            'replay_cmd_template': 'bin/check %s --replay {path}' % pid,
            'engine': c['engine'],
            'level_claimed': {'category': 'model_checking', 'text': c['text'], 'design_ref': c['ref']},
            'level_note': c['note'],
            'technique': c['technique'],
        })
    hooks_commits = []
    hp = os.path.join(VERIF, 'hooks_commits.txt')
    if os.path.exists(hp):
        hooks_commits = [l.split()[0] for l in open(hp) if l.strip()]
    m = {
        'version': 1,
        'setup_cmd': 'tools/setup.sh',
        'hooks': {
            'guard': 'DOCUMENTTEMPLATE_VERIF',
            'enable': 'checks set DOCUMENTTEMPLATE_VERIF=1 and import the package from /repo/src in a '
                      'fresh interpreter; all instrumentation is installed from outside by the harness',
            'baseline_off_cmd': BASELINE_OFF,
            'source_commits': hooks_commits,
            'add_only': True,
        },
        'engines': [
            {'name': 'TLC', 'path': '/opt/veriftools/tla/tla2tools.jar',
             'serves_properties': sorted(CHECKS), 'kind_free_text': 'explicit-state model checker for the TLA+ specifications in spec/'},
        ],
        'checks': checks,
        'not_applicable': [{'property_id': p, 'reason': REASON_PENDING} for p in ALL if p not in CHECKS],
        'notes': 'All properties are decided with explicit TLA+ specifications (spec/*.tla) checked by TLC and '
                 'bound to the code by replay (spec -> code) and trace/observation validation (code -> spec). '
                 'Genuine defects found are in known_findings.json (fixed: entries name the fix commit).',
    }
    with open(os.path.join(VERIF, 'MANIFEST.json'), 'w') as fh:
        json.dump(m, fh, indent=1)
    try:
        import jsonschema
        jsonschema.validate(m, json.load(open('/root/.vp/MANIFEST.schema.json')))
        print('MANIFEST valid:', len(checks), 'checks')
    except ImportError:
        print('MANIFEST written (jsonschema not importable here):', len(checks), 'checks')


if __name__ == '__main__':
    main()
