#!/bin/sh
# usage: tools/seed_matrix.sh [tier] [seed-name ...]   -- runs each seeded change against the check of its property in a
# scratch worktree of /repo (VERIF_REPO), never in /repo itself; writes /verif/seeded/<name>/result.txt
tier="${1:-quick}"; shift
names="$*"
[ -z "$names" ] && names=$(ls /verif/seeded)
run_one() {
  name="$1"; pid=$(echo "$name" | cut -d- -f1)
  wt=$(mktemp -d /tmp/sm-XXXXXX)
  git -C /repo worktree add -f "$wt" HEAD -q 2>/dev/null || { echo "$name WORKTREE-FAIL"; return; }
  if ( cd "$wt" && git apply "/verif/seeded/$name/patch.diff" ) 2>/dev/null; then
    full=$(cd /verif && VERIF_REPO="$wt" VERIF_OUT="$wt/.verif-out" timeout 3000 bin/check "$pid" --tier "$tier" 2>&1 | grep -E "^(VIOLATION|OK |MACHINERY)|witness" | grep -v KNOWN | cut -c1-300)
    if echo "$full" | grep -q "^VIOLATION"; then v=CAUGHT; elif echo "$full" | grep -q "^OK "; then v=MISSED; else v=ERROR; fi
    out=$(echo "$full" | head -3)
  else
    v=NOAPPLY; out=""
  fi
  echo "$name $v"
  printf "%s %s tier=%s base=%s\n%s\n" "$name" "$v" "$tier" "$(git -C /repo rev-parse --short HEAD)" "$out" > "/verif/seeded/$name/result.txt"
  git -C /repo worktree remove --force "$wt"
}
for n in $names; do run_one "$n"; done
