#!/bin/sh
# offline setup: syntax-check every specification and byte-compile the harness.  No downloads.
cd "$(dirname "$0")/.." || exit 1
rc=0
for f in spec/*.tla; do
  m=$(basename "$f" .tla)
  out=$(cd spec && java -cp /opt/veriftools/tla/tla2tools.jar:/opt/veriftools/tla/CommunityModules-deps.jar tla2sany.SANY "$m.tla" 2>&1)
  if echo "$out" | grep -q -E "Semantic errors|Parse Error|Fatal errors|Could not"; then echo "SANY FAILED: $m"; echo "$out" | tail -15; rc=1; fi
done
/venv/bin/python -m compileall -q harness checks bin/check >/dev/null || rc=1
/venv/bin/python -c "import sys; sys.path.insert(0,'.'); from harness import common; common.use_repo(); print('package from', __import__('DocumentTemplate').__file__)" || rc=1
mkdir -p evidence replays
exit $rc
