#!/bin/sh
# usage: tools/intake.sh <Cxx> <scratch worktree with seed/{patch.diff,demo.py,meta.json}>
# confirms the seeded change (tools/confirm_seed.sh), stores it as seeded/<Cxx>-m<next>, runs the quick check of its
# property against it (tools/seed_matrix.sh) and removes the scratch worktree.
pid="$1"; wt="$2"
n=1; while [ -d "/verif/seeded/$pid-m$n" ]; do n=$((n+1)); done
name="$pid-m$n"
out=$(/verif/tools/confirm_seed.sh "$wt/seed" "$name" 2>&1)
echo "$out" | tail -3
if echo "$out" | grep -q "SEED-OK"; then
  /verif/tools/seed_matrix.sh quick "$name"
fi
git -C /repo worktree remove --force "$wt" 2>/dev/null
rm -rf "$wt"
