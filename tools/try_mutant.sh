#!/bin/sh
# usage: tools/try_mutant.sh <patch.diff> <Cxx> [tier]   -- applies the patch to /repo, runs the check, reverts
patch="$1"; pid="$2"; tier="${3:-quick}"
cd /repo || exit 2
git diff --quiet || { echo "repo dirty"; exit 2; }
git apply "$patch" || { echo "patch does not apply"; exit 2; }
cd /verif && timeout 1800 bin/check "$pid" --tier "$tier" 2>&1 | grep -E "^(VIOLATION|OK|KNOWN|MACHINERY)|witness" | cut -c1-400 | head -8
rc=$?
git -C /repo checkout -- .
git -C /repo status --short | head -3
