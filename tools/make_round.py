#!/usr/bin/env python3
"""usage: tools/make_round.py <round-tag> [Cxx ...]

Prepares one scratch worktree of /repo HEAD per property under /tmp/mut/<Cxx>-<round-tag> and writes TASK.md into it:
the text of the property, the rules for a seeded change, and one-line summaries of the changes already tried for that
property (so that the new one uses another code site and mechanism).  Nothing from /verif other than the property text
and those summaries goes into the file.  Prints the worktree paths.
"""
import glob
import json
import os
import subprocess
import sys

V = os.path.dirname(os.path.dirname(os.path.abspath(__file__)))
tag = sys.argv[1]
want = sys.argv[2:]
props = [json.loads(l) for l in open(os.path.join(V, 'properties.jsonl'))]

RULES = """# Task

You are given a git worktree of the Python package zopefoundation/DocumentTemplate (this directory; sources under
`src/DocumentTemplate` and `src/TreeDisplay`).  Work ONLY inside this directory.  Never touch `/repo` and never read
anything under `/verif`.

Below is a semantic property that users of the package rely on.  Write ONE change to the package's source (not the
tests) that **breaks this property** while

* the package still imports and the existing test-suite still passes:
  `PYTHONPATH=$PWD/src /venv/bin/python -m pytest -q -p no:cacheprovider`  (94 tests must pass), and
* the change looks like something a maintainer could plausibly commit (a refactoring, an optimisation, a "robustness
  fix", a clean-up), not sabotage.

The change must need **something specific to manifest**: an unusual input, a particular option combination, a
multi-step sequence of operations, a fault at a particular point, a particular interleaving, or two cooperating sites
that each look fine alone.  A change that ordinary use would expose at once is not wanted.

Deliver, in a new directory `seed/` at the top of this worktree:

* `seed/patch.diff` -- the output of `git diff -- src` (must apply with `git apply` to a clean checkout),
* `seed/demo.py` -- a small stand-alone program (run as `PYTHONPATH=$PWD/src /venv/bin/python seed/demo.py`) that
  exits 0 on the unchanged code and exits non-zero (assertion failure) with your change applied; it must demonstrate a
  violation of the property as worded below, not merely a difference in behaviour,
* `seed/meta.json` -- `{"property": "<id>", "summary": "<what was changed and why it looks innocent>",
  "needs": "<what is needed for the violation to show>", "ran": "<the commands you ran and what they printed>"}`.

Before you finish, verify all of it yourself: tests pass with the change; demo fails with the change; `git stash` (or
`git apply -R seed/patch.diff`), demo passes without the change; re-apply.  Leave the worktree with the change applied.

Use a code site AND a mechanism different from every change already tried for this property (listed at the end), and
prefer a clause of the property that none of them addressed.
"""

for p in props:
    pid = p['id']
    if want and pid not in want:
        continue
    wt = '/tmp/mut/%s-%s' % (pid, tag)
    os.makedirs('/tmp/mut', exist_ok=True)
    if not os.path.exists(wt):
        subprocess.check_call(['git', '-C', '/repo', 'worktree', 'add', '-f', wt, 'HEAD', '-q'])
    tried = []
    for d in sorted(glob.glob(os.path.join(V, 'seeded', pid + '-m*'))):
        try:
            m = json.load(open(os.path.join(d, 'meta.json')))
        except Exception:
            continue
        tried.append('- ' + (m.get('summary') or '')[:260].replace('\n', ' '))
    body = RULES + '\n# The property (%s: %s)\n\n%s\n' % (pid, p.get('title', ''), p.get('statement') or p.get('text') or '')
    for k in ('anchors', 'code_anchors', 'where'):
        if p.get(k):
            body += '\nCode anchors: %s\n' % json.dumps(p[k])
    body += '\n# Changes already tried for this property (do not repeat their site or mechanism)\n\n' + '\n'.join(tried) + '\n'
    open(os.path.join(wt, 'TASK.md'), 'w').write(body)
    print(wt)
