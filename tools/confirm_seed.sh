#!/bin/sh
# usage: tools/confirm_seed.sh <dir with patch.diff demo.py meta.json> <seed-name>
# Confirms in a scratch worktree of /repo HEAD: patch applies, 94 tests pass with it, demo fails with it and
# passes without it.  On success copies the seed to /verif/seeded/<seed-name>/ with what was run.
src="$1"; name="$2"
wt=$(mktemp -d /tmp/seedwt-XXXXXX)
git -C /repo worktree add -f "$wt" HEAD -q || exit 2
cd "$wt"
ok=1
PYTHONPATH=$wt/src /venv/bin/python "$src/demo.py" >/tmp/seed_demo0.txt 2>&1; d0=$?
git apply "$src/patch.diff" || { echo "APPLY-FAIL"; ok=0; }
if [ $ok = 1 ]; then
  PYTHONPATH=$wt/src /venv/bin/python -m pytest -q -p no:cacheprovider >/tmp/seed_tests.txt 2>&1; t=$?
  PYTHONPATH=$wt/src /venv/bin/python "$src/demo.py" >/tmp/seed_demo1.txt 2>&1; d1=$?
  echo "demo-without=$d0 tests-with=$t ($(tail -1 /tmp/seed_tests.txt)) demo-with=$d1"
  if [ $d0 = 0 ] && [ $t = 0 ] && [ $d1 != 0 ]; then
    mkdir -p /verif/seeded/$name
    cp "$src/patch.diff" "$src/demo.py" /verif/seeded/$name/
    /venv/bin/python - "$src/meta.json" /verif/seeded/$name/meta.json "$(tail -1 /tmp/seed_tests.txt)" "$(git -C /repo rev-parse --short HEAD)" <<'PY'
import json,sys
m=json.load(open(sys.argv[1]))
out={'property':m.get('property'),'summary':m.get('summary'),'needs':m.get('needs'),
     'confirmed':{'base_commit':sys.argv[4],'demo_without_patch':'exit 0 (PASS)','tests_with_patch':sys.argv[3],
                  'demo_with_patch':'exit 1 (FAIL)','how':'tools/confirm_seed.sh in a scratch worktree of /repo HEAD'},
     'author_ran':m.get('ran'),'caught_by':None}
json.dump(out,open(sys.argv[2],'w'),indent=1)
PY
    echo "SEED-OK $name"
  else
    echo "SEED-REJECTED $name"; tail -5 /tmp/seed_demo0.txt /tmp/seed_demo1.txt
  fi
fi
cd /; git -C /repo worktree remove --force "$wt"
