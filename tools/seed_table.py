#!/usr/bin/env python3
"""normalise seeded/*/result.txt verdicts, set meta.json caught_by, and print the markdown table for DESIGN.md section 0.5"""
import glob
import json
import os
import re

V = os.path.dirname(os.path.dirname(os.path.abspath(__file__)))
rows = []
for d in sorted(glob.glob(os.path.join(V, 'seeded', '*'))):
    n = os.path.basename(d)
    rp = os.path.join(d, 'result.txt')
    if not os.path.exists(rp):
        continue
    txt = open(rp).read()
    lines = txt.splitlines()
    if 'NOAPPLY' in lines[0]:
        v = 'NOAPPLY'
    elif re.search(r'witness|^VIOLATION', txt, re.M):
        v = 'CAUGHT'
    elif re.search(r'^OK ', txt, re.M):
        v = 'MISSED'
    else:
        v = 'UNKNOWN'
    head = lines[0].split()
    head[1] = v
    lines[0] = ' '.join(head)
    open(rp, 'w').write('\n'.join(lines) + '\n')
    m = json.load(open(os.path.join(d, 'meta.json')))
    clause = ''
    mm = re.search(r'"(?:clause|cls)": "([^"]+)"', txt)
    if mm:
        clause = mm.group(1)
    mk = re.search(r'"kind": "([^"]+)"', txt)
    m['caught_by'] = ('bin/check %s --tier quick (%s)' % (n.split('-')[0], clause or (mk.group(1) if mk else 'violation'))) if v == 'CAUGHT' else None
    json.dump(m, open(os.path.join(d, 'meta.json'), 'w'), indent=1)
    rows.append((n, m.get('property'), v, clause or (mk.group(1) if mk else ''), (m.get('summary') or '')[:150].replace('\n', ' ').replace('|', '/')))
print('| seed | verdict (quick tier) | first clause reported | change |')
print('|---|---|---|---|')
for n, p, v, c, s in rows:
    print('| %s | %s | %s | %s |' % (n, v, c, s))
