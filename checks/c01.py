"""C01 -- text outside tags is reproduced verbatim, in order, and rendering composes.

Machine: spec/DTParse.tla (+ DTScan.tla).  The compiler machine cuts the source into literal slices and
tags (invariant Tiling: the top-level spans partition the source in order, every literal is the source
slice itself; SkipEol is the only place where characters are dropped) and RL renders the normal form for
plain namespaces: a literal is emitted once per rendering of the body it belongs to and never otherwise.

Binding: every source x namespace is compiled and rendered by the real HTML / String class; the search
log is compared with the machine's (drift only), the returned text must be the machine's (clause
verbatim).  Composition: for pairs (A, B) and for every split of a template into two accepted halves
the machine's renderings say whether out(AB) = out(A) + out(B) (it fails exactly when a skipped line end
or a tag straddles the junction); whenever the machine composes, the code must (clause composes).

Families: (a) all sequences of near-tag fragments up to the tier length (both recognisers);
(b) block skeletons (if/elif/else, in/else, unless, with, let, try/except/else, try/finally, comment,
nested) in dtml, SSI and EPFS spelling with near-tag literals in every text slot and every blank / line-end
variant after every block tag, under several namespaces; (c) pairs and splits.
"""
import itertools
import json
import random

from checks import front_common
from harness import common, front

PID = 'C01'

NEAR = ['<', '<d', '<dtml', '<dtml-', '</dtml-', '<!--', '<!--#', '-->', '&', '&dt', '&dtml', '&dtml-', '&dtml.',
        ';', '%', '%(', ')', ')s', ')[', '"', '>', ' ', '\n', 'x', '\t', '\r', '&dtml-x', 'é',
        # the tag prefixes in another letter case are text (tag names are case-sensitive)
        '<DTML-', '</Dtml-', '&DTML-']
EOLS = ['', '\n', ' \n', '\t \n', '  ', '\n\n', ' \r\n', '\r\n', '\x0b\n', '\xa0\n', ' \n \n', '\n ', 'q\n', ' \t\t\n']
TEXTS = ['t', 'a<b', 'x & y', '<d', '&dt;', '100%', '%(', 'a)s', '"q"', '<!-- c -->', ' lead', 'trail ', '\nnl\n', '<dtml',
         '&dtml', 'p.q-r', ';', '>', 'é<', '%%', ')[', '&dtml.', '', '<DTML-VAR v>', '<Dtml-if x>t</Dtml-if>', '&DTML-v;', '<!--#VAR v-->']
ENVS = [{'x': 'X', 'y': False, 's': 2, 'v': 'VAL', 'o': None},
        {'x': False, 'y': 'Y', 's': 0, 'v': 'W', 'o': None},
        {'x': False, 'y': False, 's': 1, 'v': 'val', 'o': None}]

# skeletons: list of parts; ('T',) text slot, ('E',) line-end slot, or a tag key
SKELS = [
    ['T', 'if x', 'E', 'T', '/if', 'E', 'T'],
    ['T', 'if x', 'E', 'T', 'else', 'E', 'T', '/if', 'E', 'T'],
    ['if x', 'E', 'T', 'elif y', 'E', 'T', 'else', 'E', 'T', '/if', 'E'],
    ['T', 'in s', 'E', 'T', '/in', 'E', 'T'],
    ['in s', 'E', 'T', 'else', 'E', 'T', '/in', 'E', 'T'],
    ['if x', 'E', 'in s', 'E', 'T', '/in', 'E', 'T', '/if', 'E', 'T'],
    ['in s', 'E', 'if y', 'E', 'T', 'else', 'E', 'T', '/if', 'E', '/in', 'E'],
    ['T', 'unless x', 'E', 'T', '/unless', 'E', 'T'],
    ['with o', 'E', 'T', 'var v', 'T', '/with', 'E', 'T'],
    ['let q=v', 'E', 'T', 'var q', '/let', 'E', 'T'],
    ['try', 'E', 'T', 'except', 'E', 'T', '/try', 'E', 'T'],
    ['try', 'E', 'T', 'except KeyError', 'E', 'T', 'else', 'E', 'T', '/try', 'E'],
    ['try', 'E', 'T', 'finally', 'E', 'T', '/try', 'E', 'T'],
    ['T', 'comment', 'E', 'T', '/comment', 'E', 'T'],
    ['T', 'var v', 'T', 'call v', 'T', 'var v', 'E'],
    ['if x', 'E', 'if y', 'E', 'T', '/if', 'E', 'else', 'E', 'unless y', 'E', 'T', '/unless', 'E', '/if', 'E', 'T'],
    # line ends behind tags that are not block tags (first thing in the source, first thing in a body, in the middle): kept
    ['call v', 'E', 'T'],
    ['var v', 'E', 'T', 'call v', 'E', 'T'],
    ['T', 'call v', 'E', 'var v', 'E'],
    ['if x', 'E', 'call v', 'E', 'T', '/if', 'E', 'T'],
    ['in s', 'E', 'var v', 'E', 'call v', 'E', '/in', 'E', 'call v', 'E'],
    ['try', 'E', 'call v', 'E', 'except', 'E', 'var v', 'E', '/try', 'E', 'var v', 'E', 'T'],
]
BLOCKS = ('if', 'in', 'unless', 'with', 'let', 'try', 'comment')


INNER_WS = [' ', '  ', '\t', '\n   ', ' \r\n ', ' \n']


def spell(part, style, ws=' ', tail=''):
    """style: 0 dtml, 1 SSI with /, 2 SSI with end, 3 EPFS; ws: the white space between name and arguments,
    tail: white space before the tag's closing delimiter"""
    name = part.split()[0].lstrip('/')
    args = part[len(part.split()[0]):]
    if args:
        args = ws + args.strip() + tail
    elif style != 3:
        args = tail
    closing = part.startswith('/')
    if style == 3:
        if closing:
            return '%%(%s)]' % name
        if name == 'var':
            return '%%(%s)s' % args.strip()
        if name == 'call':
            return '%%(call%s)!' % args
        return '%%(%s%s)[' % (name, args)
    if style == 0:
        return ('</dtml-%s>' % name) if closing else '<dtml-%s%s>' % (name, args)
    if closing:
        return ('<!--#/%s-->' % name) if style == 1 else '<!--#end%s-->' % name
    return '<!--#%s%s-->' % (name, args)


def fill(skel, style, texts, eols, ws=None):
    """ws: None (single blanks) or a list of (inner white space, tail) per tag, cycled"""
    out, ti, ei, wi = [], 0, 0, 0
    for p in skel:
        if p == 'T':
            out.append(texts[ti % len(texts)])
            ti += 1
        elif p == 'E':
            out.append(eols[ei % len(eols)])
            ei += 1
        elif ws:
            out.append(spell(p, style, *ws[wi % len(ws)]))
            wi += 1
        else:
            out.append(spell(p, style))
    return ''.join(out)


def syn_of(style):
    return 'epfs' if style == 3 else 'html'


def skeleton_cases(tier, rng):
    out = []
    per = 30 if tier == 'quick' else 400
    for sk in SKELS:
        ne = sk.count('E')
        nt = sk.count('T')
        for style in (0, 1, 2, 3):
            # every line-end variant at every E position (others empty / newline)
            for pos in range(ne):
                for ev in EOLS:
                    for other in ('', '\n'):
                        eols = [other] * ne
                        eols[pos] = ev
                        texts = [rng.choice(TEXTS) for _ in range(nt)] if style else ['t%d' % i for i in range(nt)]
                        out.append((syn_of(style), fill(sk, style, texts, eols)))
            for _ in range(per):
                texts = [rng.choice(TEXTS) + rng.choice(('', '', rng.choice(NEAR))) for _ in range(nt)]
                eols = [rng.choice(EOLS) for _ in range(ne)]
                out.append((syn_of(style), fill(sk, style, texts, eols)))
            # white space inside the tags themselves (runs of blanks, tabs, line breaks with indentation, before the closing
            # delimiter): the text after such a tag must still start exactly behind it
            for w in INNER_WS:
                for tail in ('', ' ', '\n'):
                    texts = [rng.choice(TEXTS) for _ in range(nt)]
                    eols = [rng.choice(EOLS[:6]) for _ in range(ne)]
                    out.append((syn_of(style), fill(sk, style, texts, eols, [(w, tail), (' ', '')])))
                    out.append((syn_of(style), fill(sk, style, texts, eols, [(rng.choice(INNER_WS), rng.choice(('', ' '))) for _ in range(5)])))
    cases = []
    for j, (syn, src) in enumerate(out):
        for e in (ENVS if j % 3 == 0 else ENVS[j % 3:j % 3 + 1]):
            cases.append({'syn': syn, 'src': src, 'env': e, 'fam': 'skeleton', 'render': True})
    return cases


GSKELS = [
    ['T', 'in s skip_unauthorized', 'E', 'T', '/in', 'E', 'T'],
    ['in s skip_unauthorized', 'E', 'T', 'else', 'E', 'T', '/in', 'E', 'T'],
    ['if x', 'E', 'in s skip_unauthorized', 'E', 'T', '/in', 'E', 'T', '/if', 'E', 'T'],
    ['in s skip_unauthorized', 'E', 'if y', 'E', 'T', 'else', 'E', 'T', '/if', 'E', '/in', 'E'],
    ['T', 'in s skip_unauthorized', 'E', 'T', 'var v', 'T', '/in', 'E', 'T'],
    ['in s skip_unauthorized size=9', 'E', 'T', '/in', 'E', 'T'],
]


def guarded_cases(tier, rng):
    """a block's text is emitted each time, and only when, its body is rendered: under a template class whose guard refuses
    some elements of the sequence (skip_unauthorized) the body of dtml-in is rendered for the permitted elements only.  The
    machine sees the permitted elements (env s = their number); the real class gets all n elements and the guard."""
    out = []
    for sk in GSKELS:
        nt, ne = sk.count('T'), sk.count('E')
        for style in (0, 1, 3):
            # at least one element stays permitted: a sequence whose elements are all refused is not an empty sequence (no else body)
            for n, refuse in ((3, [1]), (3, [0, 2]), (2, [1]), (4, [3]), (5, [0, 1, 3]), (3, [])):
                for rep in range(2 if tier == 'quick' else 6):
                    texts = [rng.choice(TEXTS) for _ in range(nt)]
                    eols = [rng.choice(EOLS[:8]) for _ in range(ne)]
                    for e in ENVS[:2]:
                        env = dict(e, s=n - len(refuse))
                        out.append({'syn': syn_of(style), 'src': fill(sk, style, texts, eols), 'env': env, 'fam': 'guarded',
                                    'render': True, 'guard': {'n': n, 'refuse': refuse}})
    return out


_GCLS = {}


def guarded_class(syn, refuse):
    key = (syn, tuple(refuse))
    if key not in _GCLS:
        from zExceptions import Unauthorized
        base = front.template_class(syn)

        def guarded_getitem(seq, index, refuse=frozenset(refuse)):
            if isinstance(seq, list) and index in refuse:
                raise Unauthorized('element %d' % index)
            return seq[index]

        def guarded_getattr(ob, name, default=None):
            return getattr(ob, name)
        _GCLS[key] = type('Guarded' + base.__name__, (base,), {'guarded_getitem': staticmethod(guarded_getitem),
                                                               'guarded_getattr': staticmethod(guarded_getattr)})
    return _GCLS[key]


_GC = None


def _guarded_one(i):
    c, m = _GC[i]
    env = front.py_env(c['env'])
    env['s'] = list(range(1, c['guard']['n'] + 1))
    try:
        got = guarded_class(c['syn'], c['guard']['refuse'])(c['src'])(**env)
        if not isinstance(got, str):
            got = repr(got)
    except BaseException as e:  # noqa
        got = 'RAISED %s: %s' % (type(e).__name__, str(e)[:100])
    return {'i': i, 'exp': front.txt(m['out']), 'got': got}


_BC = None


def _bytes_one(i):
    """the same template with the inserted value given as a byte string: the text around it is untouched"""
    c, m = _BC[i]
    env = front.py_env(c['env'])
    env['v'] = env['v'].encode('utf-8')
    try:
        got = front.template_class(c['syn'])(c['src'])(**env)
        if isinstance(got, bytes):
            got = got.decode('utf-8')
        elif not isinstance(got, str):
            got = repr(got)
    except BaseException as e:  # noqa
        got = 'RAISED %s: %s' % (type(e).__name__, str(e)[:100])
    return {'i': i, 'exp': front.txt(m['out']), 'got': got}


def fragment_cases(tier, rng):
    full = 3 if tier == 'quick' else 4
    alph = NEAR if tier == 'quick' else NEAR[:17] + [' ', '\n', 'x']
    seqs = [s for k in range(1, full + 1) for s in itertools.product(alph, repeat=k)]
    if tier == 'quick':
        seqs = [s for j, s in enumerate(seqs) if len(s) < 3 or j % 2 == 0] + \
               [tuple(rng.choice(NEAR) for _ in range(rng.randint(4, 9))) for _ in range(3000)]
    else:
        seqs += [tuple(rng.choice(NEAR) for _ in range(rng.randint(5, 12))) for _ in range(40000)]
    cases = []
    for s in seqs:
        src = ''.join(s)
        for syn in ('html', 'epfs'):
            cases.append({'syn': syn, 'src': src, 'env': ENVS[0], 'fam': 'fragments', 'render': True})
    return cases


def pool_sources(rng, n):
    pool = []
    for sk in SKELS:
        for style in (0, 3, 1):
            for _ in range(n):
                texts = [rng.choice(TEXTS) for _ in range(sk.count('T'))]
                eols = [rng.choice(EOLS[:8]) for _ in range(sk.count('E'))]
                pool.append((syn_of(style), fill(sk, style, texts, eols)))
    for t in ('', ' \n', '\n', 'plain', '  ', ' \t\nz', '<b>', '\n\n', 'x \n'):
        pool.append(('html', t))
        pool.append(('epfs', t))
    return pool


def composition_cases(tier, rng):
    """triples (A, B, AB) as three machine cases each; returns (cases, triples of indices)"""
    pool = pool_sources(rng, 1 if tier == 'quick' else 3)
    pairs = []
    for syn in ('html', 'epfs'):
        p = [s for y, s in pool if y == syn]
        allp = list(itertools.product(p, repeat=2))
        rng.shuffle(allp)
        pairs += [(syn, a, b) for a, b in allp[:2500 if tier == 'quick' else 30000]]
    # every split point of pool templates
    for syn, s in pool[::2 if tier == 'quick' else 1]:
        for i in range(1, len(s)):
            pairs.append((syn, s[:i], s[i:]))
    cases, triples, index = [], [], {}

    def add(syn, src, env):
        k = (syn, src, id(env))
        if k not in index:
            index[k] = len(cases)
            cases.append({'syn': syn, 'src': src, 'env': env, 'fam': 'composition', 'render': True})
        return index[k]
    for j, (syn, a, b) in enumerate(pairs):
        env = ENVS[j % len(ENVS)]
        triples.append((add(syn, a, env), add(syn, b, env), add(syn, a + b, env)))
    return cases, triples


class _Toggle:
    """a namespace callable whose answer changes from call to call (a flag that is consumed, a cursor that runs out)"""

    def __init__(self, first):
        self.state = first

    def __call__(self):
        r = self.state
        self.state = not self.state
        return 'T' if r else ''


def _merge_text(blocks):
    out = []
    for b in blocks:
        if b.get('t') == 'text' and out and out[-1].get('t') == 'text':
            out[-1] = {'t': 'text', 's': out[-1]['s'] + b['s']}
        elif not (b.get('t') == 'text' and b['s'] == ''):
            out.append(b)
    return out


def _dyn_one(job):
    """rendering composes also when the namespace changes under way: wherever the compiled blocks of A.B are those of A followed
    by those of B, rendering A.B is rendering A and then B on the same namespace values (whose state carries over)"""
    syn, a, b = job
    cls = front.template_class(syn)
    try:
        ts = [cls(x) for x in (a, b, a + b)]
        for t in ts:
            t.cook()
        na, nb, nab = [front.normalise(t._v_blocks) for t in ts]
    except Exception:  # noqa
        return {'skip': 1}
    if _merge_text(na + nb) != _merge_text(nab):
        return {'skip': 1}
    outs = []
    for first in (True, False):
        def env():
            return {'x': _Toggle(first), 'y': _Toggle(not first), 's': [1, 2], 'v': 'VAL', 'o': None}
        try:
            e1 = env()
            sep = ts[0](**e1) + ts[1](**e1)
            whole = ts[2](**env())
        except Exception:  # noqa
            continue
        if sep != whole:
            return {'bad': {'syn': syn, 'a': a, 'b': b, 'got_a_then_b': sep, 'got_ab': whole, 'x_first': first}}
        outs.append(1)
    return {'ok': len(outs)}


def main(tier):
    V = common.Verdicts(PID, tier)
    rng = random.Random(common.seed())
    base = fragment_cases(tier, rng) + skeleton_cases(tier, rng) + guarded_cases(tier, rng)
    comp, triples = composition_cases(tier, rng)
    off = len(base)
    cases = base + comp
    models, stats = front_common.run_machine(cases, coverage=(tier == 'thorough'))
    results = front_common.compare_all(cases, models)
    tagfree = 0
    for r in results:
        if '_crash' in r:
            common.machinery_failure('harness crash: %s' % repr(r)[:1500])
        if '_timeout' in r:
            c = cases[r['case']]
            V.violation({'kind': 'no-termination', 'syn': c['syn'], 'source': c['src'], 'cls': 'hang'})
            continue
        c = cases[r['i']]
        m = models[r['i']]
        V.count('sources_' + c['fam'])
        only_text = m is not None and m['k'] == 'ok' and all(it['t'] == 'text' for it in m['prog'])
        if only_text:
            tagfree += 1
        for clause, detail in r['bad']:
            V.count('drift_' + clause)
        if only_text and r['k'] != 'ok':
            V.violation({'kind': 'departure', 'clause': 'tag-free-source-rejected', 'syn': c['syn'], 'source': c['src'],
                         'detail': r['bad'][:1], 'cls': 'tag-free-rejected'})
            continue
        if 'render' in r:
            exp, got = r['render']
            if exp == got:
                V.count('renderings_conform')
            else:
                V.violation({'kind': 'departure', 'clause': 'verbatim', 'syn': c['syn'], 'source': c['src'], 'env': c['env'],
                             'expected': exp, 'got': got, 'family': c['fam'],
                             'cls': 'tag-free' if only_text else 'raised' if got.startswith('RAISED') else 'verbatim'})
        elif r.get('unrendered'):
            V.count('not_rendered_unsupported_by_RL')
    # guarded twins: the real class with a guard refusing elements must render what the machine renders for the permitted ones
    global _GC
    _GC = [(c, models[j]) for j, c in enumerate(cases) if c.get('guard') and models[j] is not None and models[j]['k'] == 'ok'
           and not models[j]['un']]
    for r in common.pool_map(_guarded_one, range(len(_GC)), chunk=100, per_case=20):
        if '_crash' in r or '_timeout' in r:
            common.machinery_failure('harness crash: %s' % repr(r)[:1500])
        c = _GC[r['i']][0]
        if r['exp'] == r['got']:
            V.count('guarded_renderings_conform')
        else:
            V.violation({'kind': 'departure', 'clause': 'only-when-rendered', 'syn': c['syn'], 'source': c['src'], 'env': c['env'],
                         'guard': c['guard'], 'expected': r['exp'], 'got': r['got'], 'family': 'guarded', 'cls': 'guarded'})
    # bytes twins: skeletons that insert v, rendered with v as a byte string
    global _BC
    _BC = [(c, models[j]) for j, c in enumerate(cases) if c['fam'] == 'skeleton' and isinstance(c['env'].get('v'), str)
           and ('var v' in c['src'] or '%(v)s' in c['src']) and models[j] is not None and models[j]['k'] == 'ok' and not models[j]['un']]
    for r in common.pool_map(_bytes_one, range(len(_BC)), chunk=200, per_case=20):
        if '_crash' in r or '_timeout' in r:
            common.machinery_failure('harness crash: %s' % repr(r)[:1500])
        c = _BC[r['i']][0]
        if r['exp'] == r['got']:
            V.count('bytes_renderings_conform')
        else:
            V.violation({'kind': 'departure', 'clause': 'verbatim', 'syn': c['syn'], 'source': c['src'], 'env': dict(c['env'], v='(as bytes)'),
                         'expected': r['exp'], 'got': r['got'], 'family': 'skeleton-bytes', 'cls': 'verbatim-bytes'})
    # composition, decided by the machine's three renderings
    byi = {r['i']: r for r in results if 'i' in r}
    composed = skipped = 0
    for ia, ib, iab in triples:
        ra, rb, rab = byi.get(off + ia), byi.get(off + ib), byi.get(off + iab)
        if not (ra and rb and rab and 'render' in ra and 'render' in rb and 'render' in rab):
            skipped += 1
            continue
        if ra['render'][0] + rb['render'][0] != rab['render'][0]:
            skipped += 1                      # the machine itself does not compose here (junction creates a tag / a skipped run)
            continue
        composed += 1
        if ra['render'][1] + rb['render'][1] != rab['render'][1]:
            c = cases[off + iab]
            V.violation({'kind': 'departure', 'clause': 'composes', 'syn': c['syn'], 'a': cases[off + ia]['src'],
                         'b': cases[off + ib]['src'], 'env': c['env'], 'got_a': ra['render'][1], 'got_b': rb['render'][1],
                         'got_ab': rab['render'][1], 'cls': 'composes'})
    # ... and under namespaces whose values change while the templates are rendered
    pool = [p_ for p_ in pool_sources(rng, 1) if p_[0] in ('html', 'epfs')]
    djobs = []
    for syn in ('html', 'epfs'):
        p_ = [s_ for y_, s_ in pool if y_ == syn and ('x' in s_ or 'y' in s_)]
        allp = list(itertools.product(p_, repeat=2))
        rng.shuffle(allp)
        djobs += [(syn, a_, b_) for a_, b_ in allp[:1500 if tier == 'quick' else 20000]]
    for r in common.pool_map(_dyn_one, djobs, chunk=100, per_case=30):
        if '_crash' in r or '_timeout' in r:
            common.machinery_failure('dynamic composition driver: %s' % repr(r)[:600])
        if 'bad' in r:
            V.violation(dict(r['bad'], kind='departure', clause='composes', cls='composes-changing-namespace'))
        elif 'ok' in r:
            V.count('compositions_under_changing_namespaces', r['ok'])
    cov = {'states': stats['states'], 'transitions': stats['transitions'],
           'traces_validated_against_impl': V.counters.get('renderings_conform', 0) + V.counters.get('guarded_renderings_conform', 0) + V.counters.get('bytes_renderings_conform', 0),
           'sources': len(cases), 'tag_free_sources': tagfree, 'compositions_claimed': composed,
           'compositions_where_the_machine_does_not_compose': skipped, 'exhaustive': True,
           'actions_covered': stats['coverage'],
           'rule': 'near-tag fragment sequences (all up to length %d), %d block skeletons x 4 spellings x line-end variants at every '
                   'block tag x near-tag literals x 3 namespaces, pairs and every split point of pool templates; dtml-in skeletons under a '
                   'guard refusing subsets of the elements (skip_unauthorized)'
                   % (3 if tier == 'quick' else 4, len(SKELS)),
           'samples': [{'syn': cases[i]['syn'], 'source': cases[i]['src']} for i in (11, off // 2, off - 3, off + 5, len(cases) - 2)]}
    return V.finish(cov, assumptions=['namespaces hold plain ASCII text, lists of ints and an attribute-less object',
                                      'RL renders if/elif/else, unless, in (unbatched), with, let, try, comment, var, call; '
                                      'other tags are compiled and compared but not rendered here'])


def replay_file(path):
    data = json.load(open(path))
    n = 0
    for v in data['violations']:
        n += 1
        if 'source' in v:
            real, t = front.real_compile(v['syn'], v['source'])
            try:
                got = t(**front.py_env(v.get('env'))) if real['k'] == 'ok' else real
            except Exception as e:  # noqa
                got = 'RAISED ' + repr(e)
            print(json.dumps({'source': v['source'], 'expected': v.get('expected'), 'code_now': got}, default=repr)[:1500])
        else:
            print(json.dumps(v)[:1500])
    return 1 if n else 0
