"""C16 -- summary statistics inside dtml-in equal independently computed values.

Machine: spec/DTStats.tla -- Accumulate/Finish transcribe the loop of sequence_variables.statistics
over exact data (integers of a unit); LoopCorrect relates the loop to the definitions; StatClauses
are the clauses of the property over a recorded observation, in exact integer arithmetic.
P2: every data set of the bounded model is realised as ints, floats, quarters and finely spaced
binary fractions (objects and mappings, None and missing attributes), rendered by the real dtml-in,
normalised to thousandths of a unit, and validated by TLC (ObsStats) against the clauses.
"""
import collections
import fractions
import itertools
import json
import random
import re

from harness import common, tlc
from harness.tlaval import Raw, mc_module, tla

PID = 'C16'
NUMDOM = [None, -2, 0, 1, 3]
STRDOM = [None, 1, 2, 3]
STATS = ['count', 'total', 'min', 'max', 'mean', 'variance-n', 'variance', 'standard-deviation-n',
         'standard-deviation', 'median']
def src_for(rot, numeric=True):
    """the statistics are computed together and cached on the first one asked for: every statistic is the first one in one
    of the ten rotations of the template"""
    order = STATS[rot % len(STATS):] + STATS[:rot % len(STATS)]
    if rot % 20 >= 10:
        order.reverse()
    if rot % 3 == 2:
        # a lazily produced sequence shown in batches of one, and another variable (z, a copy of x) summarised first: every
        # summary is computed over the whole sequence, whatever was displayed or summarised before
        return ('<dtml-in seq%s size=1 orphan=0><dtml-if sequence-end>cz=<dtml-var count-z>/<dtml-var total-z missing=->|' +
                '|'.join('%s=<dtml-var %s-x>' % (s, s) for s in order) + '</dtml-if></dtml-in>')
    if rot % 4 == 1:
        # the sequence is shown in an order of its own (a comparison function from the namespace / case-insensitive): the
        # summaries are about the values, not about the order they are displayed in
        return ('<dtml-in seq%s sort="x/' + ('cf' if (numeric or rot % 8 == 1) else 'nocase') + '"><dtml-if sequence-end>' +
                '|'.join('%s=<dtml-var %s-x>' % (s, s) for s in order) + '</dtml-if></dtml-in>')
    if rot % 4 == 3:
        # ... or simply sorted on the variable (and on two variables)
        return ('<dtml-in seq%s sort=' + ('x' if rot % 8 == 3 else 'x,z') + '><dtml-if sequence-end>' +
                '|'.join('%s=<dtml-var %s-x>' % (s, s) for s in order) + '</dtml-if></dtml-in>')
    if rot % 5 == 3:
        # shown in reverse (alone, with a sort, decided by an expression): the summaries are about the same values
        how = (' reverse', ' sort=x reverse', ' reverse_expr="1"')[(rot // 5) % 3]
        return ('<dtml-in seq%s' + how + '><dtml-if sequence-end>' + '|'.join('%s=<dtml-var %s-x>' % (s, s) for s in order) +
                '</dtml-if></dtml-in>')
    return ('<dtml-in seq%s><dtml-if sequence-end>' + '|'.join('%s=<dtml-var %s-x>' % (s, s) for s in order) +
            '</dtml-if></dtml-in>')
REAL = [('int', 1, 0), ('float', 1.0, 0.0), ('quarter', 0.25, 0.0), ('fine', 2.0 ** -15, 0.5),
        # mixed lists: halves, where the integral values are ints and the others floats (with and without an offset, so that
        # an int follows a fractional float in sorted order and vice versa)
        ('mixhalf', 0.5, 0.0), ('mixhalf-off', 0.5, 0.5),
        # numbers that are not exactly int or float: a subclass of int, booleans among ints, rationals
        ('intsub', 1, 0), ('boolmix', 1, 0), ('fraction', 0.5, 0.0)]


class MyInt(int):
    pass
NAMES = {1: 'a', 2: 'b', 3: 'c'}


def datasets(tier, rng):
    out = []
    nmax, smax = (5, 4) if tier == 'quick' else (6, 4)
    for n in range(1, nmax + 1):
        combos = list(itertools.product(NUMDOM, repeat=n))
        if len(combos) > 700:
            combos = rng.sample(combos, min(len(combos), 1500 if tier == 'quick' else 6000))
        out += [[{'t': 'none', 'v': 0} if x is None else {'t': 'num', 'v': x} for x in c] for c in combos]
    for n in range(1, smax + 1):
        out += [[{'t': 'none', 'v': 0} if x is None else {'t': 'str', 'v': x} for x in c]
                for c in itertools.product(STRDOM, repeat=n)]
    if tier == 'thorough':
        for _ in range(1500):
            n = rng.randint(7, 10)
            out.append([{'t': 'none', 'v': 0} if rng.random() < 0.15 else {'t': 'num', 'v': rng.randint(-9, 9)}
                        for _ in range(n)])
    return [d for d in out if any(x['t'] != 'none' for x in d)]


class O:
    pass


_t = {}


def odd_order(a, b):
    """a comparison function unrelated to the natural order: by distance from 1, placeholders of missing keys first"""
    def k(v):
        if isinstance(v, bool) or not isinstance(v, (int, float, fractions.Fraction)):
            return (0, 0)
        return (1, abs(v - 1), v)
    ka, kb = k(a), k(b)
    return (ka > kb) - (ka < kb)


def render(seq, mapping, rot=0, numeric=True):
    from DocumentTemplate.DT_HTML import HTML
    key = (mapping, rot % 120, numeric)
    if key not in _t:
        _t[key] = HTML(src_for(rot, numeric) % (' mapping' if mapping else ''))
    if rot % 3 == 2:
        seq = (e for e in seq)          # a generator: nothing can be read twice behind the tag's back
    elif rot % 2 == 1 and len(seq) > 1:
        # the caller keeps one list object and replaces its elements between two renderings (a results list that is refreshed in
        # place): the summaries of the second rendering are about the elements it holds then
        real = list(seq)
        seq[:] = real[1:] + real[:1] if rot % 4 == 1 else [real[0]] * len(real)
        try:
            _t[key](seq=seq, cf=odd_order)
        except Exception:  # noqa
            pass
        seq[:] = real
    return _t[key](seq=seq, cf=odd_order)


class RowRec:
    def __init__(self, d):
        self._d = d

    def __getitem__(self, k):
        return self._d[k]


Rec2 = collections.namedtuple('Rec2', 'x z')
Rec3 = collections.namedtuple('Rec3', 'x z w')


def observe(item):
    i, d = item
    res = []
    numeric = any(x['t'] == 'num' for x in d)
    reals = REAL if numeric else [('str', 1, 0)]
    for ri, (rname, u, off) in enumerate(reals):
        for mapping in (False, True):
            seq = []
            for j, x in enumerate(d):
                if x['t'] == 'none':
                    v = None
                    if (i + j) % 3 == 0 and not mapping:
                        o = O()          # attribute missing altogether
                        seq.append(o)
                        continue
                elif x['t'] == 'num':
                    v = x['v'] * u + off
                    if rname == 'int':
                        v = int(x['v'])
                    elif rname == 'intsub':
                        v = MyInt(x['v'])
                    elif rname == 'boolmix':
                        v = bool(x['v']) if x['v'] in (0, 1) else int(x['v'])
                    elif rname == 'fraction':
                        v = fractions.Fraction(x['v'], 2)
                    elif rname.startswith('mix') and v == int(v):
                        v = int(v)
                else:
                    v = NAMES[x['v']]
                if mapping:
                    # rows of a mapping loop: dicts, or records that can only be subscripted (no .get, no keys())
                    # (not where the tag is asked to sort: sorting a mapping loop reads the key with .get)
                    rot_ = i * 7 + ri * 3 + 1
                    plain_loop = rot_ % 3 == 2 or rot_ % 4 in (0, 2)
                    seq.append(RowRec({'x': v, 'z': v}) if ((i + ri) % 3 == 1 and plain_loop) else {'x': v, 'z': v})
                elif (i + ri) % 4 == 1:
                    seq.append(Rec2(v, v))       # a two-field record: a tuple subclass, not a (key, value) pair
                elif (i + ri) % 4 == 3:
                    seq.append(Rec3(v, v, j))
                else:
                    o = O()
                    o.x = o.z = v
                    seq.append(o)
            rec = {'ok': 1, 'real': rname, 'mapping': mapping}
            try:
                out = render(seq, mapping, rot=i * 7 + ri * 3 + int(mapping), numeric=numeric)
                rec['raw'] = out
                f = dict(p.split('=', 1) for p in out.split('|'))
                rec.update(normalise(f, u, off, numeric))
            except Exception as e:  # noqa
                rec['ok'] = 0
                rec['err'] = '%s: %s' % (type(e).__name__, str(e)[:80])
            res.append(rec)
    return {'d': d, 'obs': res}


def _num(s):
    if s in ('True', 'False'):
        return 1.0 if s == 'True' else 0.0
    if '/' in s:
        return float(fractions.Fraction(s))
    return float(s)


def normalise(f, u, off, numeric):
    o = dict(count=0, total=0, min=0, max=0, mean=0, varn=0, var=0, sdn2=0, sd2=0, medlo=0, medhi=0, numeric=0)
    # (TLC integers are 32 bit and the clauses multiply by n*n: a value far outside the data range is clamped -- it fails its clause either way)
    th = lambda x: max(-20000000, min(20000000, int(round(x * 1000))))  # noqa
    o['count'] = int(f['count']) if f['count'] else 0
    n = o['count']
    if numeric:
        un = lambda s: (_num(s) - off) / u  # noqa
        if f['total'] != '':
            o['numeric'] = 1
            o['total'] = th((_num(f['total']) - n * off) / u)
            o['mean'] = th(un(f['mean']))
            o['varn'] = th(_num(f['variance-n']) / (u * u))
            o['sdn2'] = th(_num(f['standard-deviation-n']) ** 2 / (u * u))
            if f['variance'] != '':
                o['var'] = th(_num(f['variance']) / (u * u))
                o['sd2'] = th(_num(f['standard-deviation']) ** 2 / (u * u))
        if f['min'] != '':
            o['min'], o['max'] = th(un(f['min'])), th(un(f['max']))
        if f['median'] != '':
            o['medlo'] = o['medhi'] = th(un(f['median']))
    else:
        rk = {v: k for k, v in NAMES.items()}
        o['numeric'] = 1 if f['total'] != '' else 0
        if f['min'] != '':
            o['min'], o['max'] = 1000 * rk[f['min']], 1000 * rk[f['max']]
        m = re.match(r'between (\w) and (\w)$', f['median'])
        if m:
            a, b = 1000 * rk[m.group(1)], 1000 * rk[m.group(2)]
            o['medlo'], o['medhi'] = min(a, b), max(a, b)
        elif f['median'] != '':
            o['medlo'] = o['medhi'] = 1000 * rk[f['median']]
        else:
            o['medlo'], o['medhi'] = 1, 0        # no median at all: fails the clause
    return o


def main(tier):
    V = common.Verdicts(PID, tier)
    rng = random.Random(common.seed())
    ds = datasets(tier, rng)
    defs = {'cData': Raw('{' + ', '.join(tla(d) for d in ds) + '}')}
    cfg = 'CONSTANTS\n DataSets <- cData\nSPECIFICATION Spec\nINVARIANT LoopCorrect\nCHECK_DEADLOCK FALSE\n'
    res = tlc.run('MC_DTStats', cfg, files={'MC_DTStats.tla': mc_module('MC_DTStats', 'DTStats', defs)}, timeout=3000)
    if res.violated:
        raise tlc.TLCFailure('DTStats machine violates %s' % res.violated)
    states, trans = res.distinct, res.generated
    cases = []
    for r in common.pool_map(observe, list(enumerate(ds)), chunk=100, per_case=30):
        if '_crash' in r:
            raise tlc.TLCFailure('harness crash: %s' % repr(r)[:1500])
        if '_timeout' in r:
            V.violation({'kind': 'no-result', 'detail': repr(r)[:800]})
            continue
        for o in r['obs']:
            cases.append((r['d'], o))
    keys = ('count', 'total', 'min', 'max', 'mean', 'varn', 'var', 'sdn2', 'sd2', 'medlo', 'medhi', 'numeric', 'ok')
    CH = 8000
    for off in range(0, len(cases), CH):
        part = cases[off:off + CH]
        payload = json.dumps([{'d': d, 'o': {k: o.get(k, 0) for k in keys}} for d, o in part])
        cfg2 = 'CONSTANTS\n DataSets = {}\nINIT Init\nNEXT Next\nINVARIANT Verdicts\nCHECK_DEADLOCK FALSE\n'
        r2 = tlc.run('ObsStats', cfg2, files={'cases.json': payload}, workers=1)
        states += max(1, r2.distinct)
        trans += max(1, r2.generated)
        vs = {v['tid'] - 1: v for v in r2.prints if 'tid' in v}
        if len(vs) != len(part):
            raise tlc.TLCFailure('ObsStats returned %d verdicts for %d cases\n%s\n%s' % (len(vs), len(part), (r2.error_trace or '')[:1500], r2.stdout_tail[-1200:]))
        for j, (d, o) in enumerate(part):
            f = vs[j]['failed']
            if f:
                vals = [None if x['t'] == 'none' else x['v'] for x in d]
                V.violation({'kind': 'clause', 'clauses': sorted(f), 'data_units': vals, 'realisation': o['real'],
                             'mapping': o['mapping'], 'rendered': o.get('raw'), 'error': (o.get('err') or '').split(':')[0],
                             'normalised': {k: o.get(k) for k in keys},
                             'cls': 'even-median-float' if sorted(f) == ['Median'] and o['real'] != 'int' else 'other'})
            else:
                V.count('validated')
    cov = {'states': states, 'transitions': trans, 'traces_validated_against_impl': V.counters.get('validated', 0),
           'datasets': len(ds), 'observations': len(cases), 'exhaustive': True,
           'rule': 'all lists up to the tier length over {None, -2, 0, 1, 3} units and over {None, a, b, c}; realised as '
                   'int, float, quarters, 0.5 + k*2^-15 (objects with attribute x / missing attribute, and mappings)',
           'samples': [{'data': ds[0]}, {'data': ds[len(ds) // 2], 'observed': cases[len(cases) // 2][1].get('raw')}]}
    return V.finish(cov, assumptions=['data are integers or binary fractions (exact in floating point); observed reals are '
                                      'compared in thousandths of a unit with a tolerance of 1/1000 unit (square roots '
                                      'through sd^2 = variance)',
                                      'mixes of numbers and strings are not defined by the documentation and not used'])


def replay_file(path):
    data = json.load(open(path))
    for v in data['violations']:
        print(json.dumps(v)[:1200])
    return 1 if data['violations'] else 0
