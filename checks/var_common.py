"""Driver of the checks decided on the DTVar machine (C03 C04 C15): TLC explores a sweep of the
pipeline (values x option combinations), checks the property invariants on the machine, exports
every behaviour; each is replayed into the real dtml-var (several written orders of the options,
both syntaxes, entity form) and the text compared."""
import itertools
import json
import os

from harness import common, tlc
from harness.tlaval import Raw, mc_module, tla

ALLMODS = ["html_quote", "url_quote", "url_quote_plus", "url_unquote", "url_unquote_plus",
           "newline_to_br", "lower", "upper", "capitalize", "spacify", "thousands_commas", "sql_quote"]
SPECIALS = '&<>"\''
MK = 2000000


def _str(cps):
    return ''.join(chr(c - MK if c >= MK else c) for c in cps)

FMT_ATTR = {'pct': 'fmt="[%s]"'}

INVS = ['NoRawLT', 'OnceNotTwice', 'NoRawSpecial', 'PlainUntouched', 'TruncBound', 'RoundTrip', 'SqlSafe']


def text(s, tnt=False, enc=''):
    return {'k': 'text', 's': [(MK + ord(c)) if c in SPECIALS else ord(c) for c in s],
            'tnt': tnt, 'nul': len(s) == 0, 'enc': enc}


def other(kind, strform, nul):
    return {'k': kind, 's': [ord(c) for c in strform], 'tnt': False, 'nul': nul, 'enc': ''}


def strobj(s):
    """a value that is not a string (an object, a subclass of int or float with its own __str__): inserted as str(value)"""
    return {'k': 'strobj', 's': [(MK + ord(c)) if c in SPECIALS else ord(c) for c in s], 'tnt': False, 'nul': False, 'enc': ''}


class _Labelled:
    def __init__(self, s):
        self._s = s

    def __str__(self):
        return self._s


class _IntLabel(int):
    def __new__(cls, s):
        o = int.__new__(cls, 7)
        o._s = s
        return o

    def __str__(self):
        return self._s


class _FloatLabel(float):
    def __new__(cls, s):
        o = float.__new__(cls, 0.05)
        o._s = s
        return o

    def __str__(self):
        return self._s


MISSING = {'k': 'missing', 's': [], 'tnt': False, 'nul': False, 'enc': ''}
KERR = {'k': 'kerr', 's': [], 'tnt': False, 'nul': False, 'enc': ''}      # defined, but evaluating it raises KeyError


def _raise_keyerror():
    return {}['inner-key']


def sweep(values, modsets, fmts=('',), cfmts=('s',), sizes=(-1,), etcs=('default',), nulls=(False,),
          missings=(False,), forms=('name',)):
    return dict(values=values, modsets=modsets, fmts=fmts, cfmts=cfmts, sizes=sizes, etcs=etcs,
                nulls=nulls, missings=missings, forms=forms)


def _set(xs):
    return Raw('{' + ', '.join(sorted(set(tla(x) for x in xs))) + '}')


def run_sweep(sw, invs=INVS, timeout=3000):
    ms = sw['modsets']
    defs = {'cValues': _set(sw['values']),
            'cModSets': Raw(ms) if isinstance(ms, str) else _set([set(m) for m in ms]),
            'cFmts': _set(sw['fmts']), 'cCFmts': _set(sw['cfmts']), 'cSizes': _set(sw['sizes']),
            'cEtcs': _set(sw['etcs']), 'cNulls': _set(sw['nulls']), 'cMissings': _set(sw['missings']),
            'cForms': _set(sw['forms'])}
    cfg = 'CONSTANTS\n' + ''.join(' %s <- c%s\n' % (n, n) for n in
                                  ('Values', 'ModSets', 'Fmts', 'CFmts', 'Sizes', 'Etcs', 'Nulls', 'Missings', 'Forms'))
    cfg += 'SPECIFICATION Spec\n' + ''.join('INVARIANT %s\n' % i for i in invs + ['Export'])
    cfg += 'PROPERTY StageOrder\nCHECK_DEADLOCK FALSE\n'
    out = []
    res = tlc.run('MC_DTVar', cfg, files={'MC_DTVar.tla': mc_module('MC_DTVar', 'DTVar', defs)},
                  on_print=out.append, keep_prints=False, timeout=timeout)
    if res.violated:
        raise tlc.TLCFailure('DTVar machine violates %s:\n%s' % (res.violated, (res.error_trace or '')[:2500]))
    return res, out


# ---------------------------------------------------------------------------------------------
# replay

def pyvalue(v):
    s = _str(v['s'])
    k = v['k']
    if k == 'text':
        if v['tnt']:
            from AccessControl.tainted import TaintedString
            return TaintedString(s)
        if v.get('enc'):
            return s.encode(v['enc'])
        return s
    if k == 'num':
        return float(s) if '.' in s else int(s)
    if k == 'none':
        return None
    if k == 'kerr':
        return _raise_keyerror
    if k == 'zero':          # a zero that is not a builtin int / float: still 0, not null
        import decimal
        import fractions
        return {'0': decimal.Decimal('0'), '0.00': decimal.Decimal('0.00'), '0j': 0j}.get(s, fractions.Fraction(0))
    if k == 'strobj':
        # (exception objects are inserted as their message: the one argument they were raised with)
        return (_Labelled, _IntLabel, _FloatLabel, KeyError, _Labelled, ValueError, _IntLabel)[(len(s) + sum(map(ord, s))) % 7](s)
    if k == 'elist':
        return []
    raise ValueError(k)


def attrs(b, order):
    """attribute strings of the tag, in a written order chosen by `order`"""
    a = list(b['mods'])
    if b['fmt']:
        a.append(FMT_ATTR.get(b['fmt'], 'fmt=' + b['fmt']))
    if b['size'] != -1:
        a.append('size=%d' % b['size'])
    if b['etc'] == 'none':
        a.append('etc=""')
    elif b['etc'] == 'tilde':
        a.append('etc="~~"')
    if b['null']:
        a.append('null="NUL"')
    if b['missing']:
        a.append('missing="MIS"')
    if order == 1:
        a.reverse()
    elif order >= 2:
        import random
        random.Random(order * 7919 + len(a)).shuffle(a)
    return a


def sources_for(b):
    """[(class name, source)] every concrete spelling of the behaviour"""
    out = []
    ref = 'x' if b['form'] != 'expr' else 'expr="x"'
    if b['form'] == 'entity':
        m = b['mods']
        if m == ['html_quote']:
            return [('HTML', '&dtml-x;')]
        out = [('HTML', '&dtml.%s-x;' % '.'.join(m))]
        if len(m) > 1:
            out.append(('HTML', '&dtml.%s-x;' % '.'.join(reversed(m))))
        return out
    norders = 1 if len(attrs(b, 0)) < 2 else (3 if len(attrs(b, 0)) > 2 else 2)
    for o in range(norders):
        a = ' '.join([ref] + attrs(b, o))
        if b['cf'] == 's':
            out.append(('HTML', '<dtml-var %s>' % a))
            if o == 0:
                out.append(('HTML', '<!--#var %s-->' % a))
        # EPFS: a tag starts with a plain name, so an expression is written  %(var expr="..." ...)s
        out.append(('String', '%%(%s%s)%s' % ('var ' if b['form'] == 'expr' else '', a, b['cf'])))
    return out


_tc = {}


def render_one(cls, src, b):
    from DocumentTemplate.DT_HTML import HTML
    from DocumentTemplate.DT_String import String
    enc = b['v'].get('enc') or None
    key = (cls, src, enc)
    t = _tc.get(key)
    if t is None:
        t = {'HTML': HTML, 'String': String}[cls](src, encoding=enc) if enc else {'HTML': HTML, 'String': String}[cls](src)
        if len(_tc) < 20000:
            _tc[key] = t
    kw = {}
    if b['v']['k'] != 'missing':
        kw['x'] = pyvalue(b['v'])
    if b['v']['k'] == 'text' and b['v']['tnt']:
        # history is part of the case: the same text passed through the same tag as a trusted string first (equal and
        # equally hashed, so anything remembered per text must not hand its trusted result to the untrusted twin)
        try:
            t(x=str(kw['x']))
        except Exception:  # noqa
            pass
    try:
        r = t(**kw)
    except KeyError:
        return 'KE'
    except Exception as e:  # noqa
        return 'EXC:%s:%s' % (type(e).__name__, str(e)[:80])
    if isinstance(r, bytes):
        r = r.decode(enc or 'utf-8')
    return r


def replay(b):
    exp = ''.join(chr(c) for c in b['out'])
    bad = []
    n = 0
    for cls, src in sources_for(b):
        n += 1
        got = render_one(cls, src, b)
        if got != exp:
            bad.append({'cls': cls, 'source': src, 'got': got})
    if bad:
        return {'ok': 0, 'n': n, 'b': b, 'expected': exp, 'bad': bad}
    return {'ok': 1, 'n': n}


def describe(b):
    v = b['v']
    return {'value': _str(v['s']), 'kind': v['k'], 'tainted': v['tnt'], 'enc': v.get('enc', ''),
            'mods': b['mods'], 'fmt': b['fmt'], 'cf': b['cf'], 'size': b['size'], 'etc': b['etc'],
            'null': b['null'], 'missing': b['missing'], 'form': b['form']}


def run(pid, tier, sweeps, classify, assumptions, rule, invs=INVS, post=None):
    """classify(b, bad) -> None (not this property's business: drift) or a dict merged into the witness"""
    V = common.Verdicts(pid, tier)
    states = trans = nexp = 0
    samples = []
    for si, sw in enumerate(sweeps):
        t_sw = __import__('time').time()
        res, out = run_sweep(sw, invs)
        if os.environ.get('VERIF_DEBUG'):
            print('sweep %d: %d behaviours, TLC %.0fs' % (si, len(out), __import__('time').time() - t_sw), flush=True)
        states += res.distinct
        trans += res.generated
        nexp += len(out)
        for r in common.pool_map(replay, out, chunk=500, per_case=20):
            if '_timeout' in r or '_crash' in r:
                V.violation({'kind': 'no-result', 'detail': repr(r)[:1200]})
                continue
            V.count('renderings', r['n'])
            if r['ok']:
                V.count('behaviours_conform')
                continue
            extra = classify(r['b'], r)
            if extra is None:
                V.count('drift')
                continue
            w = {'kind': 'departure', 'input': describe(r['b']), 'expected': r['expected'],
                 'observed': r['bad'][:3]}
            w.update(extra)
            V.violation(w)
        if out and len(samples) < 4:
            b = out[len(out) // 3]
            samples.append({'input': describe(b), 'sources': sources_for(b)[:2], 'out': ''.join(chr(c) for c in b['out'])})
    if post:
        post(V)
    cov = {'states': states, 'transitions': trans, 'traces_validated_against_impl': V.counters.get('behaviours_conform', 0),
           'behaviours_exported': nexp, 'sweeps': len(sweeps), 'rule': rule, 'exhaustive': True, 'samples': samples}
    return V.finish(cov, assumptions=assumptions)


def replay_file(path):
    data = json.load(open(path))
    for v in data['violations']:
        print(json.dumps(v)[:1200])
    return 1 if data['violations'] else 0
