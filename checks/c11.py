"""C11 -- batch windows stay in range, tile the sequence and link consistently.

spec/DTBatch.tla (machine + clauses), spec/ObsBatch.tla (validation of recorded renderings).

 1. TLC explores the DTBatch machine over the parameter space of the tier, checks every clause of
    the property as an invariant of the machine, and exports every behaviour.
 2. P1: every exported behaviour is replayed into the real dtml-in (parameters through variables,
    ints and strings, one shared compiled template; a sample with literal parameters, tuples,
    SSI syntax); rows are compared with the machine's.
 3. P2: every rendering that departs from the machine, a random sample of those that do not, and
    renderings with random larger parameters are handed to TLC (ObsBatch), which evaluates the
    clauses of the property on the *recorded* observation.  A clause failing there is a
    violation (witness: the recorded rendering); a departure that violates no clause is drift.
 4. Navigation: TLC explores FollowNext / FollowPrev; the chains are replayed by following the
    links the real code announces, and the recorded chains are validated by TLC (T_Tiles, T_Back).
"""
import json
import random

from harness import batch_obs, common, tlc

PID = 'C11'

BOUNDS = {
    'quick': dict(L=(0, 8), start=(-1, 10), end=(-1, 10), size=(-1, 5), orphan=(0, 3), overlap=(0, 2)),
    'thorough': dict(L=(0, 14), start=(-1, 16), end=(-1, 16), size=(-1, 7), orphan=(0, 4), overlap=(0, 3)),
}
NAV = {
    'quick': dict(L=(0, 10), size=(1, 5), orphan=(0, 3), overlap=(0, 3)),
    'thorough': dict(L=(0, 14), size=(1, 7), orphan=(0, 4), overlap=(0, 3)),
}

INVS = ['InvRenders', 'InvInRange', 'InvEnds', 'InvExplicit', 'InvNextIff', 'InvPrevIff',
        'InvNextStart', 'InvPrevEnd', 'InvFlags', 'InvLazy', 'InvEmptyOne']


def mc_module(name, b, navdir='none', starts=None, ends=None):
    r = lambda k: '%d..%d' % b[k]  # noqa
    return '''---- MODULE %s ----
EXTENDS DTBatch
cLs == %s
cStarts == %s
cEnds == %s
cSizes == %s
cOrphans == %s
cOverlaps == %s
====
''' % (name, r('L'), starts or r('start'), ends or r('end'), r('size'), r('orphan'), r('overlap'))


def mc_cfg(navdir, invs, props=True, pb=False):
    return '\n'.join([
        'CONSTANTS', '  Ls <- cLs', '  Starts <- cStarts', '  Ends <- cEnds', '  Sizes <- cSizes',
        '  Orphans <- cOrphans', '  Overlaps <- cOverlaps', '  NavDir = "%s"' % navdir,
        '  PrevBatches = %s' % ('TRUE' if pb else 'FALSE'),
        'SPECIFICATION Spec'] + ['INVARIANT ' + i for i in invs] +
        (['PROPERTY PullMonotone', 'PROPERTY ItemProgress', 'PROPERTY NavProgress'] if props else []) +
        ['CHECK_DEADLOCK FALSE', ''])


OBS_CFG = '''CONSTANTS
  Ls = {0}
  Starts = {0}
  Ends = {0}
  Sizes = {0}
  Orphans = {0}
  Overlaps = {0}
  NavDir = "none"
  PrevBatches = FALSE
INIT OInit
NEXT ONext
INVARIANT Verdict
CHECK_DEADLOCK FALSE
'''

CHAIN_CFG = '''CONSTANTS
  Ls = {0}
  Starts = {0}
  Ends = {0}
  Sizes = {0}
  Orphans = {0}
  Overlaps = {0}
  NavDir = "none"
  PrevBatches = FALSE
INIT OInit
NEXT ONext
INVARIANT ChainVerdicts
CHECK_DEADLOCK FALSE
'''


# -- P1 workers ---------------------------------------------------------------------------------

def _variant(i):
    """which concretisation case number i gets (deterministic)"""
    kinds = ('vars', 'pfx', 'rev', 'ssi', 'reent', 'lit', 'vars', 'revx', 'pfx', 'rv0', 'reent')
    # (listnone: not where the tag is asked to sort by the element -- None and numbers have no order)
    return kinds[i % 11], ('tuple' if i % 5 == 3 else 'listnone' if (i % 7 == 4 and kinds[i % 11] != 'revx') else 'list'), (i % 2 == 1)


def replay_case(item):
    i, exp = item
    par, e, c, rows, _pulled = exp[:5]
    kind, seqkind, as_str = _variant(i)
    obs = batch_obs.observe(par, kind=kind, seqkind=seqkind, as_str=as_str)
    same = obs['e'] == e and obs['c'] == c and \
        (c == 1 or [r[:9] for r in obs['r']] == [r[:9] for r in rows])
    obs['variant'] = [kind, seqkind, 'str' if as_str else 'int']
    if same:
        return {'ok': 1, 'obs': obs if i % 53 == 0 else None}
    return {'ok': 0, 'obs': obs}


def follow(par, direction, limit=80):
    """follow the links the real code announces; returns (chain, done, first obs error)"""
    L, start, end, size, orphan, overlap = par
    chain = []
    cur = start
    for _ in range(limit):
        obs = batch_obs.observe([L, cur, 0, size, orphan, overlap], kind='vars',
                                as_str=(len(chain) % 2 == 1))
        if obs['c']:
            return chain, 0, obs.get('err')
        if obs['e']:
            return chain, 1, None
        rows = obs['r']
        chain.append([rows[0][0], rows[-1][0]])
        if overlap >= size:          # the property (and FollowNext/FollowPrev) require overlap < size
            return chain, 1, None
        if direction == 'next':
            if rows[-1][2] != 1:
                return chain, 1, None
            cur = rows[-1][5]
        else:
            if rows[0][1] != 1:
                return chain, 1, None
            cur = rows[0][3]
    return chain, 0, 'navigation did not terminate within %d requests' % limit


def replay_chain(item):
    direction, exp = item
    par, e, c, chain = exp
    # the machine's par is the one of the last request; the first request's start is the first
    # window's start for "next" (always 1) and the last window's start for "prev"
    L, _s, _e, size, orphan, overlap = par
    if e or c or not chain:
        first = par[1]
    else:
        first = chain[0][0]
    got, done, err = follow([L, first, 0, size, orphan, overlap], direction)
    return {'ok': int(got == chain and done == 1), 'dir': direction,
            'p': [L, first, 0, size, orphan, overlap], 'ch': got, 'done': done, 'err': err,
            'model': chain}


# -- main ---------------------------------------------------------------------------------------

def adjudicate(cases, V, what):
    """TLC evaluates the clauses on recorded observations; returns number of cases validated"""
    if not cases:
        return 0, 0, 0
    verdicts = {}
    total_states = 0
    total_gen = 0
    CH = 20000
    for off in range(0, len(cases), CH):
        part = cases[off:off + CH]
        payload = json.dumps([dict({k: c[k] for k in ('p', 'e', 'c', 'r', 'pl', 'ln')}, np=c.get('np', 1))
                              for c in part])
        res = tlc.run('ObsBatch', OBS_CFG, files={'cases.json': payload, 'chains.json': '[]', 'lists.json': '[]', 'forms.json': '[]'},
                      workers=8)
        total_states += res.distinct
        total_gen += res.generated
        for v in res.prints:
            verdicts[off + v['tid'] - 1] = v
    if len(verdicts) != len(cases):
        raise tlc.TLCFailure('ObsBatch returned %d verdicts for %d cases' % (len(verdicts), len(cases)))
    for i, c in enumerate(cases):
        v = verdicts[i]
        if v['failed']:
            V.violation({'kind': 'clause', 'source': what, 'clauses': sorted(v['failed']),
                         'par': dict(zip(('L', 'start', 'end', 'size', 'orphan', 'overlap'), c['p'])),
                         'cls': classify(c['p']), 'error': (c.get('err') or '').split(':')[0],
                         'variant': c.get('variant'), 'observed': c, 'first_diff_row': v['diff']})
        elif not v['conform']:
            V.count('drift')
        else:
            V.count('validated_conform')
    return len(cases), total_states, total_gen


def classify(p):
    L, start, end, size, orphan, overlap = p
    if start > 0 and end > L:
        return 'start>0,end>L'
    return 'other'


def random_cases(n, rng):
    out = []
    for _ in range(n):
        L = rng.choice([rng.randint(0, 40), rng.randint(15, 300)])
        par = [L, rng.randint(-2, L + 5), rng.choice([0, 0, -1, rng.randint(1, L + 5)]),
               rng.choice([rng.randint(-1, 12), rng.randint(1, 60)]),
               rng.randint(0, 9), rng.randint(0, 6)]
        out.append(par)
    return out


def observe_random(par):
    i = sum(par)
    kind, seqkind, as_str = _variant(i)
    obs = batch_obs.observe(par, kind=kind, seqkind=seqkind, as_str=as_str)
    obs['variant'] = [kind, seqkind, 'str' if as_str else 'int']
    return obs


LISTS_CFG = CHAIN_CFG.replace('ChainVerdicts', 'ListVerdicts')


def replay_lists(item):
    i, exp = item
    par, w, nb, pb = exp
    obs = batch_obs.observe_lists(par, as_str=(i % 2 == 1), seqkind=('tuple' if i % 5 == 3 else 'list'))
    obs['ok'] = int('err' not in obs and obs['w'] == w and obs['nb'] == nb and obs['pb'] == pb and obs['sizes_ok'])
    obs['model'] = [w, nb, pb]
    return obs


def lists_stage(V, tier, rng):
    """next-batches / previous-batches: the machine's lists (InvNextList, InvPrevList, InvListsAgree checked by TLC) are
    replayed into the real tag; every recorded list, and lists of random larger parameters, are validated by TLC
    (L_Next, L_Prev evaluated on the recording)"""
    b = dict(BOUNDS[tier])
    ex = []
    res = tlc.run('MC_C11L', mc_cfg('none', ['InvNextList', 'InvPrevList', 'InvListsAgree', 'ExportLists'], props=False),
                  files={'MC_C11L.tla': mc_module('MC_C11L', b)}, on_print=ex.append, keep_prints=False, timeout=3000)
    if res.violated:
        raise tlc.TLCFailure('DTBatch violates %s (batch lists)' % res.violated)
    recs = common.pool_map(replay_lists, list(enumerate(ex)), chunk=1500, per_case=30)
    extra = []
    for _ in range(1500 if tier == 'quick' else 15000):
        L = rng.randint(1, 120)
        size = rng.randint(1, 15)
        extra.append((0, [[L, rng.randint(-1, L), 0, size, rng.randint(0, 6), rng.randint(0, size - 1)], None, None, None]))
    recs += common.pool_map(replay_lists, extra, chunk=500, per_case=30)
    todo = []
    for r in recs:
        if '_timeout' in r or '_crash' in r:
            V.violation({'kind': 'no-result', 'detail': repr(r)[:600]})
            continue
        if 'err' in r:
            V.violation({'kind': 'lists', 'clauses': ['renders'], 'par': r['p'], 'error': r['err'], 'cls': 'lists-error'})
            continue
        if r['ok']:
            V.count('lists_p1_conform')
        if not r['sizes_ok']:
            V.violation({'kind': 'lists', 'clauses': ['batch-size'], 'par': r['p'], 'observed': r, 'cls': 'lists-size'})
        todo.append(r)
    payload = json.dumps([{'p': r['p'], 'w': r['w'], 'nb': r['nb'], 'pb': r['pb']} for r in todo])
    one = json.dumps([{'p': [0, 0, 0, 1, 0, 0], 'e': 1, 'c': 0, 'r': [], 'pl': 0, 'ln': 0, 'np': 1}])
    r3 = tlc.run('ObsBatch', LISTS_CFG, files={'cases.json': one, 'chains.json': '[]', 'lists.json': payload, 'forms.json': '[]'}, workers=1)
    oks = {v['lid'] - 1: v for v in r3.prints if 'lid' in v}
    if len(oks) != len(todo):
        raise tlc.TLCFailure('list verdicts: %d for %d' % (len(oks), len(todo)))
    for i, r in enumerate(todo):
        v = oks[i]
        bad = [k for k in ('next', 'prev') if not v[k]]
        if bad:
            V.violation({'kind': 'lists', 'clauses': bad, 'par': dict(zip(('L', 'start', 'end', 'size', 'orphan', 'overlap'), r['p'])),
                         'window': r['w'], 'next_batches': r['nb'], 'previous_batches': r['pb'], 'model': r.get('model'),
                         'cls': 'lists-' + '-'.join(bad)})
        elif not r['ok'] and r['model'][0] is not None:
            V.count('drift')
        else:
            V.count('lists_validated')
    return res.distinct + r3.distinct, res.generated + r3.generated, len(ex), len(todo)


FORMS_CFG = CHAIN_CFG.replace('ChainVerdicts', 'FormVerdicts')


def replay_forms(item):
    i, exp = item
    par, w, pf, nf = exp
    obs = batch_obs.observe_forms(par, as_str=(i % 2 == 1), seqkind=('tuple' if i % 5 == 3 else 'list'))
    obs['ok'] = int('err' not in obs and obs['w'] == w and obs['pf'] == pf and obs['nf'] == nf and obs['sizes_ok'])
    obs['model'] = [w, pf, nf]
    return obs


def forms_stage(V, tier, rng):
    """<dtml-in ... previous> / <dtml-in ... next>: the machine's announcements (InvPrevForm, InvNextForm, InvFormsAgree checked
    by TLC) are replayed into the real tag forms; recorded announcements, also for random larger parameters with starts
    beyond the sequence, are validated by TLC (F_Prev, F_Next)"""
    ex = []
    res = tlc.run('MC_C11F', mc_cfg('none', ['InvPrevForm', 'InvNextForm', 'InvFormsAgree', 'ExportForms'], props=False),
                  files={'MC_C11F.tla': mc_module('MC_C11F', dict(BOUNDS[tier]))}, on_print=ex.append, keep_prints=False, timeout=3000)
    if res.violated:
        raise tlc.TLCFailure('DTBatch violates %s (tag forms)' % res.violated)
    recs = common.pool_map(replay_forms, list(enumerate(ex)), chunk=1500, per_case=30)
    extra = []
    for _ in range(1500 if tier == 'quick' else 15000):
        L = rng.randint(1, 120)
        size = rng.randint(1, 15)
        extra.append((0, [[L, rng.choice([rng.randint(-1, L), rng.randint(L, 3 * L + 5)]), rng.choice([0, 0, rng.randint(1, L + 9)]), size,
                           rng.randint(0, 6), rng.randint(0, size + 1)], None, None, None]))
    recs += common.pool_map(replay_forms, extra, chunk=500, per_case=30)
    todo = []
    for r in recs:
        if '_timeout' in r or '_crash' in r:
            V.violation({'kind': 'no-result', 'detail': repr(r)[:600]})
            continue
        if 'err' in r:
            if r.get('model', [None])[0] is None and r['err'].startswith('IndexError'):
                continue          # random parameters of the class F11 used to fail on are not the subject here
            V.violation({'kind': 'forms', 'clauses': ['renders'], 'par': r['p'], 'error': r['err'], 'cls': 'forms-error'})
            continue
        if r['ok']:
            V.count('forms_p1_conform')
        if not r['sizes_ok']:
            V.violation({'kind': 'forms', 'clauses': ['size'], 'par': r['p'], 'observed': r, 'cls': 'forms-size'})
        todo.append(r)
    payload = json.dumps([{'p': r['p'], 'w': r['w'], 'pf': r['pf'], 'nf': r['nf']} for r in todo])
    one = json.dumps([{'p': [0, 0, 0, 1, 0, 0], 'e': 1, 'c': 0, 'r': [], 'pl': 0, 'ln': 0, 'np': 1}])
    r3 = tlc.run('ObsBatch', FORMS_CFG, files={'cases.json': one, 'chains.json': '[]', 'lists.json': '[]', 'forms.json': payload}, workers=1)
    oks = {v['fid'] - 1: v for v in r3.prints if 'fid' in v}
    if len(oks) != len(todo):
        raise tlc.TLCFailure('form verdicts: %d for %d' % (len(oks), len(todo)))
    for i, r in enumerate(todo):
        bad = [k for k in ('prev', 'next') if not oks[i][k]]
        if bad:
            V.violation({'kind': 'forms', 'clauses': bad, 'par': dict(zip(('L', 'start', 'end', 'size', 'orphan', 'overlap'), r['p'])),
                         'window': r['w'], 'previous_form': r['pf'], 'next_form': r['nf'], 'model': r.get('model'),
                         'cls': 'forms-' + '-'.join(bad)})
        elif not r['ok'] and r['model'][0] is not None:
            V.count('drift')
        else:
            V.count('forms_validated')
    return res.distinct + r3.distinct, res.generated + r3.generated, len(ex), len(todo)


def lemmas():
    """the window lemmas for every sequence length and all integer parameters: spec/DTBatchLemma.tla checked symbolically by
    Apalache (unbounded integers); TLC checks that its operators are DTBatch's Opt on the enumerated ranges"""
    import os
    import shutil
    import subprocess
    from harness.tlc import SPEC, scratch
    cfg = ('CONSTANTS\n Ls = {1}\n Starts = {1}\n Ends = {1}\n Sizes = {1}\n Orphans = {0}\n Overlaps = {0}\n NavDir = "none"\n'
           ' PrevBatches = FALSE\nSPECIFICATION Spec\nCHECK_DEADLOCK FALSE\n')
    r = tlc.run('DTBatchLemmaX', cfg, timeout=900)          # ASSUME SameOpt: a false assumption is a TLC error
    out = {'SameOpt_TLC': 'holds' if r.ok else 'FAILED'}
    d = scratch('verif-apa-')
    try:
        shutil.copy(os.path.join(SPEC, 'DTBatchLemma.tla'), d)
        for inv in ('InRange', 'Ends', 'FirstWindow'):
            try:
                p = subprocess.run(['apalache-mc', 'check', '--inv=' + inv, '--length=2', '--out-dir=' + os.path.join(d, 'out'),
                                    'DTBatchLemma.tla'], cwd=d, capture_output=True, text=True, timeout=600)
                outc = 'NoError' if 'The outcome is: NoError' in p.stdout else 'Error' if 'The outcome is: Error' in p.stdout else 'unknown'
            except Exception as e:  # noqa
                outc = 'not run: %s' % type(e).__name__
            out[inv] = outc
    finally:
        shutil.rmtree(d, ignore_errors=True)
    if out['SameOpt_TLC'] != 'holds' or 'Error' in out.values():
        raise tlc.TLCFailure('window lemma not established: %r' % out)
    return out


def main(tier):
    V = common.Verdicts(PID, tier)
    rng = random.Random(common.seed())
    b = BOUNDS[tier]
    exported = []
    res = tlc.run('MC_C11', mc_cfg('none', INVS + ['Export']),
                  files={'MC_C11.tla': mc_module('MC_C11', b)},
                  on_print=exported.append, keep_prints=False, timeout=3000)
    if res.violated:
        # the machine itself violates a clause: decide on the real code (rule 2 of DESIGN 2.5)
        print('model-level violation of %s; the exported behaviours are still replayed' % res.violated)
        V.notes['model_violation'] = res.violated
    states, trans = res.distinct, res.generated
    # P1
    results = common.pool_map(replay_case, list(enumerate(exported)), chunk=1500, per_case=30)
    mism, sample = [], []
    for r in results:
        if '_timeout' in r or '_crash' in r:
            V.violation({'kind': 'no-result', 'detail': r})
            continue
        if r['ok']:
            V.count('p1_conform')
            if r['obs'] is not None:
                sample.append(r['obs'])
        else:
            mism.append(r['obs'])
    V.count('p1_mismatch', len(mism))
    # model violated but code conforms everywhere?  then the recorded observations decide below
    rnd = common.pool_map(observe_random, random_cases(4000 if tier == 'quick' else 40000, rng),
                          chunk=500, per_case=30)
    rnd = [r for r in rnd if '_timeout' not in r and '_crash' not in r]
    n1, s1, g1 = adjudicate(mism, V, 'p1-mismatch')
    n2, s2, g2 = adjudicate(sample, V, 'p1-sample')
    n3, s3, g3 = adjudicate(rnd, V, 'random-larger')
    states += s1 + s2 + s3
    trans += g1 + g2 + g3
    validated = n1 + n2 + n3

    # navigation
    nb = NAV[tier]
    chains = []
    for direction in ('next', 'prev'):
        ex = []
        starts = '{1}' if direction == 'next' else '1..%d' % nb['L'][1]
        bb = dict(nb, start=(1, 1), end=(0, 0))
        r2 = tlc.run('MC_C11N', mc_cfg(direction, ['InvTiles', 'InvBack', 'InvInRange', 'ExportChain']),
                     files={'MC_C11N.tla': mc_module('MC_C11N', bb, starts=starts, ends='{0}')},
                     on_print=ex.append, keep_prints=False, timeout=3000)
        if r2.violated:
            V.notes['model_violation_nav'] = r2.violated
            print('model-level violation of %s in navigation' % r2.violated)
        states += r2.distinct
        trans += r2.generated
        chains += [(direction, e) for e in ex]
    cres = common.pool_map(replay_chain, chains, chunk=300, per_case=60)
    recorded = []
    for r in cres:
        if '_timeout' in r or '_crash' in r:
            V.violation({'kind': 'no-result', 'detail': r})
            continue
        V.count('chains_replayed')
        if not r['ok']:
            V.count('chain_mismatch')
        recorded.append(r)
    # every recorded chain is validated by TLC against T_Tiles / T_Back
    payload = json.dumps([{'p': r['p'], 'dir': r['dir'], 'ch': r['ch'], 'done': r['done']} for r in recorded])
    one = json.dumps([{'p': [0, 0, 0, 1, 0, 0], 'e': 1, 'c': 0, 'r': [], 'pl': 0, 'ln': 0, 'np': 1}])
    r3 = tlc.run('ObsBatch', CHAIN_CFG, files={'cases.json': one, 'chains.json': payload, 'lists.json': '[]', 'forms.json': '[]'}, workers=1)
    oks = {}
    for v in r3.prints:
        if 'cid' in v:
            oks[v['cid'] - 1] = v['ok']
    if len(oks) != len(recorded):
        raise tlc.TLCFailure('chain verdicts: %d for %d' % (len(oks), len(recorded)))
    for i, r in enumerate(recorded):
        if not oks[i] or r['err']:
            V.violation({'kind': 'chain', 'dir': r['dir'],
                         'par': dict(zip(('L', 'start', 'end', 'size', 'orphan', 'overlap'), r['p'])),
                         'chain': r['ch'], 'done': r['done'], 'error': r['err'], 'model_chain': r['model']})
        else:
            V.count('chains_validated')
    validated += len(recorded)
    if V.notes.get('model_violation') and not V.violations and not V.known_hits:
        raise tlc.TLCFailure('the machine violates %s but the real code never does: the '
                             'specification misrepresents the code' % V.notes['model_violation'])
    ls, lg, lexp, lval = lists_stage(V, tier, rng)
    states += ls
    trans += lg
    validated += lval
    fs_, fg_, fexp, fval = forms_stage(V, tier, rng)
    states += fs_
    trans += fg_
    validated += fval
    from checks import c11_query
    qs_, qg_, qn = c11_query.stage(V, tier, rng)
    states += qs_
    trans += qg_
    validated += qn
    lem = lemmas()
    cov = {'states': states, 'transitions': trans, 'unbounded_window_lemmas_apalache': lem,
           'traces_validated_against_impl': V.counters.get('p1_conform', 0) + validated,
           'behaviours_exported': len(exported), 'chains_exported': len(chains), 'batch_lists_exported': lexp, 'tag_forms_exported': fexp, 'query_strings': qn, 'query_text_drift_samples': V.notes.get('query_text_drift', []),
           'exhaustive': True, 'bounds': {'window': b, 'navigation': nb},
           'samples': [exported[0], exported[len(exported) // 2], chains[len(chains) // 2][1]] if exported and chains else ['none'],
           'clauses': ['Renders', 'InRange', 'Ends', 'Explicit', 'NextIff', 'PrevIff', 'NextStart',
                       'PrevEnd', 'Flags', 'Tiles', 'Back', 'NextBatches', 'PreviousBatches', 'PreviousForm', 'NextForm', 'QueryLinks']}
    return V.finish(cov, assumptions=[
        'parameters are ints or numeric strings; sequences are lists/tuples of ints; some renderings carry reverse / reverse_expr / an empty sort_expr (the window arithmetic is the same)',
        'announced neighbours are specified modulo clamping into 1..L (DESIGN C11)'])


def replay(path):
    data = json.load(open(path))
    bad = 0
    for v in data['violations']:
        if v.get('kind') == 'clause':
            p = v['par']
            par = [p['L'], p['start'], p['end'], p['size'], p['orphan'], p['overlap']]
            kind, seqkind, conv = v.get('variant') or ['vars', 'list', 'int']
            obs = batch_obs.observe(par, kind=kind, seqkind=seqkind, as_str=(conv == 'str'))
            print('par=%s variant=%s clauses=%s\n  observed now: %s' % (par, v.get('variant'), v['clauses'], obs))
            bad += 1
        else:
            print(json.dumps(v)[:800])
            bad += 1
    return 1 if bad else 0
