"""C19 -- bytes in mixed output decode with the template encoding; str() is safe.

Machine: spec/DTJoin.tla -- Render (pieces appended by render_blocks_: plain / html-quoted values,
if bodies inline, in / try / with / let bodies through their own render_blocks), Result (0 / 1 / n
piece rule), JoinIn, ValOf (ustr).  Invariants MultiIsText, BytesEquivText, RaisesOnlyOwn.
P1: every case is printed, rendered with templates created in utf-8, latin-1, cp1252 and utf-16
(bytes pieces are the text encoded with the template's encoding) and the type and text compared.
"""
import itertools
import json
import random

from harness import common, tlc

PID = 'C19'
TEXTS = {'ascii': 'ab', 'latin': 'caf\xe9', 'euro': '€5', 'bmp': 'Ωx', 'astral': 'g\U0001F600', 'spec': '<&\'"',
         'mixl': '\xe9<&'}
ENCS = {'utf-8': TEXTS.keys(), 'latin-1': ('ascii', 'latin', 'spec', 'mixl'), 'cp1252': ('ascii', 'latin', 'euro', 'spec', 'mixl'),
        'utf-16': TEXTS.keys()}


def cps(s):
    return [ord(c) for c in s]


def piece(name, ty, q=False, how='var'):
    return {'t': 'piece', 'ty': ty, 's': cps(TEXTS[name]), 'q': q, 'name': name, 'how': how}


def lit(s):
    return {'t': 'piece', 'ty': 'text', 's': cps(s), 'q': False, 'name': None, 'how': 'lit', 'lit': s}


def grp(g, c):
    return {'t': 'grp', 'g': g, 'c': c}


class Plain:
    pass


class WithStr:
    def __str__(self):
        return 'instance'


class StrText:
    def __str__(self):
        return 'Ω own'


class StrBytes:
    enc = 'utf-8'

    def __str__(self):
        return 'own bytes'.encode(self.enc)


class StrWrong:
    def __str__(self):
        return 5


class StrRaises:
    def __str__(self):
        raise RuntimeError('my own fault')


def _sb(enc):
    o = StrBytes()
    o.enc = enc
    return o


def values(enc='utf-8'):
    """name -> (python value, kind, expected string form)"""
    v = {
        'int': (42, 'plain', '42'), 'float': (1.5, 'plain', '1.5'), 'none': (None, 'plain', 'None'),
        'true': (True, 'plain', 'True'), 'list': ([1, 'a'], 'plain', "[1, 'a']"), 'tuple': ((1, 2), 'plain', '(1, 2)'),
        'dict': ({'k': 1}, 'plain', "{'k': 1}"), 'cls': (Plain, 'plain', str(Plain)),
        'clsstr': (WithStr, 'plain', str(WithStr)), 'inst': (WithStr(), 'plain', 'instance'),
        'builtincls': (int, 'plain', "<class 'int'>"),
        'exc0': (ValueError(), 'plain', ''), 'exc1': (ValueError('msg \xe9'), 'plain', 'msg \xe9'),
        'exc2': (ValueError('a', 2), 'plain', "('a', 2)"), 'keyerr': (KeyError('k'), 'plain', 'k'),
        'excnum': (ValueError(7), 'plain', '7'), 'excb': (ValueError('raw'.encode(enc)), 'str-bytes', 'raw'),
        'strtext': (StrText(), 'plain', 'Ω own'), 'strbytes': (_sb(enc), 'str-bytes', 'own bytes'),
        'strwrong': (StrWrong(), 'str-wrong', ''), 'strraises': (StrRaises(), 'str-raises', ''),
    }
    return v


def val(name, q=False, how='var'):
    py, kind, s = values()[name]
    return {'t': 'val', 'kind': kind, 's': cps(s), 'name': name, 'q': q, 'how': how}


def cases_for(tier, rng):
    out = []
    names = list(TEXTS)
    atoms = [piece(n, ty, q, how) for n in names for ty in ('text', 'bytes')
             for q, how in ((False, 'var'), (True, 'var'), (True, 'entity'), (True, 'fmt'), (True, 'hqsize'))]
    # 1..2 top-level pieces, with and without literal text around
    for a in atoms:
        out.append([a])
        out.append([lit('['), a, lit(']')])
        for g in ('if', 'in', 'in2', 'inb', 'inb2', 'try', 'with', 'let', 'handler'):
            out.append([grp(g, [a])])
            out.append([lit('>'), grp(g, [a])])
            out.append([grp(g, [a, lit('!')])])
    pairs = list(itertools.product(atoms, repeat=2))
    rng.shuffle(pairs)
    for a, b in pairs[:300 if tier == 'quick' else 2000]:
        out.append([a, b])
        g1, g2 = rng.choice(('if', 'in', 'try', 'with', 'let', 'handler', 'in2', 'inb', 'inb2')), rng.choice(('if', 'in', 'try'))
        out.append([grp(g1, [a]), grp(g2, [b])])
        out.append([grp(g1, [a, grp(g2, [b])])])
    triples = list(itertools.product(atoms[::3], repeat=3))
    rng.shuffle(triples)
    for t in triples[:100 if tier == 'quick' else 1500]:
        out.append(list(t))
        out.append([t[0], grp('in', [t[1], grp('if', [t[2]])])])
    # string forms of non-string values, alone and next to text / bytes
    for n in values():
        out.append([val(n)])
        out.append([lit('x'), val(n)])
        out.append([val(n), piece('latin', 'bytes')])
        out.append([grp('in', [val(n)])])
        out.append([grp('try', [val(n), lit('.')])])
        for how in ('var', 'fmt', 'hqsize'):
            out.append([val(n, True, how)])
            out.append([lit('<'), val(n, True, how), lit('>')])
            out.append([grp('handler', [val(n, True, how)]), piece('latin', 'bytes')])
    return [{'prog': p} for p in out]


def compile_case(c):
    def strip(n):
        n = {k: v for k, v in n.items() if k in ('t', 'ty', 's', 'q', 'kind', 'g', 'c')}
        if 'c' in n:
            n['c'] = [strip(x) for x in n['c']]
        return n
    return {'prog': [strip(n) for n in c['prog']]}


def names_in(prog):
    for n in prog:
        if n['t'] == 'grp':
            yield from names_in(n['c'])
        elif n.get('name'):
            yield n['name']


def pr(prog, ns, enc, counter):
    out = []
    for n in prog:
        if n['t'] == 'piece':
            if n['how'] == 'lit':
                out.append(n['lit'])
                continue
            k = 'v%d' % counter[0]
            counter[0] += 1
            s = TEXTS[n['name']]
            ns[k] = s.encode(enc) if n['ty'] == 'bytes' else s
            out.append({'var': '<dtml-var %s%s>' % (k, ' html_quote' if n['q'] else ''),
                        'entity': '&dtml-%s;' % k, 'fmt': '<dtml-var %s fmt=html-quote>' % k,
                        'hqsize': '<dtml-var %s size=99 html_quote>' % k}[n['how']])
        elif n['t'] == 'val':
            k = 'o%d' % counter[0]
            counter[0] += 1
            ns[k] = values(enc)[n['name']][0]
            out.append({'var': '<dtml-var expr="%s"%s>' % (k, ' html_quote' if n.get('q') else ''),
                        'fmt': '<dtml-var expr="%s" fmt=html-quote>' % k,
                        'hqsize': '<dtml-var expr="%s" size=99 html_quote>' % k}[n.get('how', 'var')])
        else:
            inner = pr(n['c'], ns, enc, counter)
            g = n['g']
            out.append({'if': '<dtml-if yes>%s</dtml-if>', 'in': '<dtml-in one>%s</dtml-in>',
                        'in2': '<dtml-in two>%s</dtml-in>',
                        'inb': '<dtml-in one size=5>%s</dtml-in>', 'inb2': '<dtml-in two size=5 orphan=0>%s</dtml-in>', 'try': '<dtml-try>%s<dtml-except ZeroDivisionError>never</dtml-try>',
                        'with': '<dtml-with obj>%s</dtml-with>', 'let': '<dtml-let zz=yes>%s</dtml-let>',
                        'handler': '<dtml-try><dtml-raise KeyError>k</dtml-raise><dtml-except>%s</dtml-try>'}[g] % inner)
    return ''.join(out)


class Obj:
    pass


_CASES = None


def replay(m):
    from DocumentTemplate.DT_HTML import HTML
    case = _CASES[m['tid'] - 1]
    used = set(names_in(case['prog'])) & set(TEXTS)
    bad = []
    n = 0
    for enc, ok in ENCS.items():
        if not used <= set(ok):
            continue
        ns = {'yes': 1, 'one': [1], 'two': [1, 2], 'obj': Obj()}
        src = pr(case['prog'], ns, enc, [0])
        n += 1
        try:
            if enc == 'utf-8':
                # UTF-8 is the default: not giving an encoding, or giving an empty one, means the same
                form = (m['tid'] + n) % 4
                t = HTML(src) if form == 0 else HTML(src, encoding=None) if form == 1 else HTML(src, encoding='') if form == 2 \
                    else HTML(src, encoding='utf-8')
            else:
                t = HTML(src, encoding=enc)
            r = t(**ns)
            if isinstance(r, bytes):
                got = ['bytes', r.decode(enc)]
            elif isinstance(r, str):
                got = ['text', r]
            else:
                got = ['other', repr(r)]
        except Exception as e:  # noqa
            got = ['error', type(e).__name__]
        exp = [m['ty'], ''.join(chr(c) for c in m['s']) if m['ty'] != 'error' else m['s']]
        if got != exp and m['np'] <= 1 and got[1] == exp[1] and {got[0], exp[0]} == {'text', 'bytes'}:
            continue          # a single piece: the property does not say whether it stays bytes
        if got != exp:
            bad.append({'encoding': enc, 'source': src, 'expected': exp, 'got': got})
    return {'ok': int(not bad), 'n': n, 'bad': bad, 'tid': m['tid']}


def post_sorted(V):
    """byte strings that are the elements of a dtml-in shown in sorted / reversed order (by the element itself, by the key of
    (key, value) pairs): inserting s.encode(encoding) is equivalent to inserting s"""
    from DocumentTemplate.DT_HTML import HTML
    texts = ['a-caf\xe9', 'c-z\xe8bre', 'b-\xfcber <x>']
    opts = ['sort', 'sort=sequence-item', 'reverse', 'sort reverse', 'sort size=9', 'sort_expr="\'\'"', 'sort=sequence-item reverse_expr="1"',
            'reverse size=2 orphan=0']
    for enc in ('utf-8', 'latin-1', 'cp1252', 'utf-16'):
        for o in opts:
            for body in ('<dtml-var sequence-item>,', '&dtml-sequence-item;,', '[<dtml-var sequence-item html_quote size=30>]'):
                for pairs in (False, True):
                    src = '<dtml-in seq %s>%s</dtml-in>' % (o, body)
                    outs = []
                    for conv in (lambda t: t, lambda t: t.encode(enc)):
                        seq = [(t[0], conv(t)) for t in texts] if pairs else [conv(t) for t in texts]
                        V.count('renderings')
                        try:
                            r = (HTML(src, encoding=enc) if enc != 'utf-8' else HTML(src))(seq=seq)
                            outs.append(r if isinstance(r, str) else ['not text', repr(r)[:80]])
                        except Exception as e:  # noqa
                            outs.append(['raised', type(e).__name__])
                    if outs[0] != outs[1] or not isinstance(outs[0], str):
                        V.violation({'kind': 'departure', 'source': src, 'encoding': enc, 'expected': outs[0], 'got': outs[1],
                                     'elements': 'pairs' if pairs else 'plain', 'cls': 'sorted-bytes-elements'})


def main(tier):
    global _CASES
    V = common.Verdicts(PID, tier)
    rng = random.Random(common.seed())
    cases = cases_for(tier, rng)
    _CASES = cases
    cfg = ('SPECIFICATION Spec\nINVARIANT MultiIsText\nINVARIANT BytesEquivText\nINVARIANT RaisesOnlyOwn\n'
           'INVARIANT Export\nCHECK_DEADLOCK FALSE\n')
    out = []
    res = tlc.run('DTJoin', cfg, files={'cases.json': json.dumps([compile_case(c) for c in cases])},
                  on_print=out.append, keep_prints=False, timeout=3000)
    if res.violated:
        raise tlc.TLCFailure('DTJoin machine violates %s\n%s' % (res.violated, (res.error_trace or '')[:1500]))
    for r in common.pool_map(replay, out, chunk=200, per_case=30):
        if '_crash' in r:
            raise tlc.TLCFailure('harness crash: %s' % repr(r)[:1500])
        if '_timeout' in r:
            V.violation({'kind': 'no-result', 'detail': repr(r)[:800]})
            continue
        V.count('renderings', r['n'])
        if r['ok']:
            V.count('behaviours_conform')
        else:
            b = r['bad'][0]
            case = cases[r['tid'] - 1]
            vals = [n.get('name') for n in case['prog'] if n['t'] == 'val']
            V.violation({'kind': 'departure', 'source': b['source'], 'encoding': b['encoding'], 'expected': b['expected'],
                         'got': b['got'], 'n_encodings_failing': len(r['bad']),
                         'cls': 'class-object' if set(vals) & {'clsstr', 'cls', 'builtincls'} else
                         'fmt-html-quote-bytes' if 'fmt=html-quote' in b['source'] else 'other'})
    post_sorted(V)
    cov = {'states': res.distinct, 'transitions': res.generated,
           'traces_validated_against_impl': V.counters.get('behaviours_conform', 0), 'cases': len(cases), 'exhaustive': True,
           'rule': 'piece trees (1-3 pieces; text/bytes x {ascii, latin-1, euro, BMP, astral, specials} x {plain, html_quote, '
                   'entity, fmt=html-quote}; groups if/in/in(2 items)/try/with/let/handler, nested) and 21 non-string values; '
                   'each rendered with utf-8, latin-1, cp1252 and utf-16 templates where the text is representable',
           'samples': [{'source': pr(cases[5]['prog'], {}, 'utf-8', [0])}, {'source': pr(cases[-3]['prog'], {}, 'utf-8', [0])}]}
    return V.finish(cov, assumptions=['Python codecs are trusted; a bytes value is the text encoded with the template encoding',
                                      'str() of plain builtin values is taken from Python (the property defines the form as str())'])


def replay_file(path):
    data = json.load(open(path))
    for v in data['violations']:
        print(json.dumps(v)[:1200])
    return 1 if data['violations'] else 0
