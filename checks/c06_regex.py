"""C06, time clause, decided on the regular expressions themselves (spec/DTRegexAmb.tla).

Every pattern the package compiles is turned into an automaton (harness/regex_nfa.py); TLC searches the product of each
automaton with itself for a loop that can be read in two different ways (exponential degree of ambiguity) and exports the
witness (prefix, pump).  Spec -> code: each witness is fed to the real code -- first to the compiled pattern itself, then,
embedded in every tag position, to cook() -- and the CPU time is measured for growing repetitions.  A violation is reported
only when compiling a source of a few hundred characters really takes super-polynomial time; a candidate the measurement
refutes is counted in the evidence.

Binding / non-vacuity self-test in the same TLC run: patterns known to be exponentially ambiguous (among them the scanner
pattern as it was before the repair of F3) must be exported, and the exported pump must make the real `re` engine blow up;
patterns known to be unambiguous must not be exported.
"""
import json
import subprocess
import sys

from harness import common, regex_nfa, tlc

OLD_TAGRE = ('%\\((?P<name>[a-zA-Z0-9_/.-]+)([\000- ]+(?P<args>([^\\)"]+("[^"]*")?)*))?'
             '\\)(?P<fmt>[0-9]*[.]?[0-9]*[a-z]|[]![])')
CANARY_EDA = ['(a*)*b', '(a|a)*b', '(a+)+b', '(x+x+)+y', OLD_TAGRE]
CANARY_OK = ['a*b*', '(ab)*c', '[ \t]*\n', '([a-z]+=)?[0-9]+;', '"[^"]*"']

_RAW = r'''
import json, re, sys, time
pat, flags, s, how = json.loads(sys.stdin.read())
r = re.compile(pat, flags)
t0 = time.process_time()
getattr(r, how)(s)
print(json.dumps(time.process_time() - t0))
'''


def raw_time(pat, flags, s, how, limit):
    try:
        p = subprocess.run([sys.executable, '-c', _RAW], input=json.dumps([pat, flags, s, how]), text=True,
                           capture_output=True, timeout=limit)
        return json.loads(p.stdout.strip().splitlines()[-1])
    except subprocess.TimeoutExpired:
        return float('inf')
    except Exception:  # noqa
        return -1.0


def _raw_job(job):
    pat, flags, s, how, limit = job
    return raw_time(pat, flags, s, how, limit)


EMBED = [('epfs', '%s'), ('html', '%s'), ('html', '<dtml-var %s>'), ('html', '<dtml-var x %s>'), ('html', '<dtml-let %s>y</dtml-let>'),
         ('epfs', '%%(var %s)s'), ('epfs', '%%(x %s)s'), ('html', '<!--#var %s-->'), ('html', '<dtml-in %s>y</dtml-in>'),
         ('html', '<dtml-%s>'), ('html', '&dtml-%s;'), ('html', '<dtml-if a>%s</dtml-if>'), ('html', '<dtml-tree %s>y</dtml-tree>')]


def blows_up(times):
    """times: [(n, seconds)] in increasing n; exponential = the last finite steps grow by a constant factor and end beyond 3 s
    (or do not finish) on inputs a few hundred characters long"""
    if not times:
        return False
    big = [t for _, t in times if t == float('inf') or t > 3.0]
    if not big:
        return False
    fin = [(n, t) for n, t in times if t != float('inf') and t > 0.02]
    if len(fin) >= 2:
        (n0, t0), (n1, t1) = fin[-2], fin[-1]
        return t1 / t0 >= 1.8 ** ((n1 - n0) / 2.0) or times[-1][1] == float('inf')
    return True


def run(V, tier):
    from checks import c06
    regs = regex_nfa.collect(common.SRC)
    items = []          # (origin, pattern, flags, nfa)
    notes = {'patterns': [], 'not_modelled': [], 'approximations': {}}
    for r in regs:
        try:
            n = regex_nfa.to_nfa(r['pattern'], r['flags'])
        except regex_nfa.Unsupported as e:
            notes['not_modelled'].append({'where': '%s:%d' % (r['file'], r['line']), 'pattern': r['pattern'], 'why': str(e)})
            continue
        items.append(('%s:%d' % (r['file'], r['line']), r['pattern'], r['flags'], n))
        notes['patterns'].append('%s:%d' % (r['file'], r['line']))
        if n['approx']:
            notes['approximations']['%s:%d' % (r['file'], r['line'])] = n['approx']
    if len(items) < 8:
        common.machinery_failure('regex collection found only %d patterns' % len(items))
    npkg = len(items)
    for p in CANARY_EDA + CANARY_OK:
        items.append(('canary', p, 2 if p == OLD_TAGRE else 0, regex_nfa.to_nfa(p, 2 if p == OLD_TAGRE else 0)))
    payload = json.dumps([{'states': n['states'], 'start': n['start'], 'edges': n['edges']} for _, _, _, n in items])
    cfg = 'SPECIFICATION Spec\nVIEW View\nINVARIANT TypeOK\nINVARIANT Together\nINVARIANT Export\nCHECK_DEADLOCK FALSE\n'
    res = tlc.run('DTRegexAmb', cfg, files={'regexes.json': payload}, timeout=1200, coverage=(tier == 'thorough'))
    if res.violated:
        raise tlc.TLCFailure('DTRegexAmb violates %s\n%s' % (res.violated, (res.error_trace or '')[:1500]))
    V.count('regex_states', res.distinct)
    V.count('regex_patterns_modelled', npkg)
    found = {}
    for e in res.prints:
        found.setdefault(e['rx'], []).append(e)

    def words(i, e):
        al = items[i - 1][3]['alphabet']
        return ''.join(al[c - 1] for c in e['pre']), ''.join(al[c - 1] for c in e['pump'])
    # ---- self-test: canaries (all measurements of all canaries in one pool run)
    NS = (14, 18, 22, 26)
    jobs, jmeta = [], []
    for j, p in enumerate(CANARY_EDA + CANARY_OK):
        i = npkg + 1 + j
        if p in CANARY_EDA:
            if i not in found:
                common.machinery_failure('DTRegexAmb self-test: no ambiguous loop exported for %r' % p)
            for ei, e in enumerate(found[i][:2]):
                pre, pump = words(i, e)
                for suf in items[i - 1][3]['reject'][:2] + ['']:
                    for n in NS:
                        jobs.append((p, items[i - 1][2], pre + pump * n + suf, 'search', 4))
                        jmeta.append((p, ei, suf, n))
        elif i in found:
            common.machinery_failure('DTRegexAmb self-test: unambiguous pattern %r reported ambiguous (%r)' % (p, found[i][0]))
        else:
            V.count('regex_selftest_unambiguous_patterns_clean')
    series = {}
    for m, t in zip(jmeta, common.pool_map(_raw_job, jobs, chunk=1, per_case=30)):
        series.setdefault(m[:3], []).append((m[3], t if isinstance(t, float) else -1.0))
    for p in CANARY_EDA:
        if not any(blows_up(sorted(ts)) for k, ts in series.items() if k[0] == p):
            common.machinery_failure('DTRegexAmb self-test: the exported pump of %r does not slow the real engine down (%r)'
                                     % (p, {k[1:]: ts for k, ts in series.items() if k[0] == p}))
        V.count('regex_selftest_ambiguous_patterns_confirmed_on_the_engine')
    # ---- the package's own patterns
    cands = []
    for i in range(1, npkg + 1):
        for e in found.get(i, [])[:6]:
            pre, pump = words(i, e)
            cands.append((i, pre, pump))
    V.count('regex_ambiguous_loops_found', len(cands))
    refuted = []
    for i, pre, pump in cands:
        where, pat, flags, n = items[i - 1]
        sufs = n['reject'][:4] + ['', '\x00', '"', ')', '>', ';']
        jobs = [(pat, flags, pre + pump * 24 + suf, how, 4) for suf in sufs for how in ('search', 'match')]
        slow = [jobs[k][2][len(pre + pump * 24):] for k, t in enumerate(common.pool_map(_raw_job, jobs, chunk=1, per_case=30))
                if isinstance(t, float) and (t == float('inf') or t > 0.5)]
        slow = sorted(set(slow))
        if not slow:
            refuted.append({'where': where, 'pattern': pat, 'prefix': pre, 'pump': pump, 'why': 'the engine is not slowed down'})
            continue
        hit = None
        for syn, frame in EMBED:
            for suf in slow:
                ts = []
                for k in (10, 14, 18, 22, 26, 30):
                    src = frame % (pre + pump * k + suf)
                    t, outc = c06.cpu_time(syn, src, 8)
                    ts.append((k, float('inf') if outc == 'TIMEOUT' else t))
                    if outc == 'TIMEOUT':
                        break
                if blows_up(ts):
                    # re-measure once before reporting
                    k = ts[-1][0]
                    t2, outc2 = c06.cpu_time(syn, frame % (pre + pump * k + suf), 12)
                    if outc2 == 'TIMEOUT' or t2 > 3.0:
                        hit = (syn, frame, suf, ts)
                        break
            if hit:
                break
        if hit:
            syn, frame, suf, ts = hit
            V.violation({'kind': 'time', 'family': 'ambiguous-regex', 'syn': syn, 'pattern': pat, 'compiled_at': where,
                         'source_shape': repr(frame) + ' %% (' + repr(pre) + ' + ' + repr(pump) + ' * n + ' + repr(suf) + ')',
                         'cpu_s_by_n': [[k, (round(t, 3) if t != float('inf') else 'timeout')] for k, t in ts],
                         'cls': 'superpolynomial-ambiguous-regex'})
        else:
            refuted.append({'where': where, 'pattern': pat, 'prefix': pre, 'pump': pump,
                            'why': 'slow on its own, but no source text makes cook() slow'})
    notes['ambiguous_loops_refuted_by_measurement'] = refuted[:10]
    V.count('regex_ambiguous_loops_refuted_by_measurement', len(refuted))
    V.notes['regex'] = notes
    return res
