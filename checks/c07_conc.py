"""C07 under concurrent compilation: two threads compile two different templates at the same time; whichever spelling a template
is written in, it compiles to the program it compiles to alone (which is the same for all spellings).

The deterministic scheduler of C18 (harness/sched.py: real threads, line-level preemption, the compile lock substituted by a
scheduling lock) preempts one compiling thread at a sampled line, runs the other to completion and resumes the first.
"""
import random

from harness import common, front, sched

A = [('html', 'A=<dtml-var apple>.<dtml-if a>x<dtml-else>y</dtml-if>&dtml-z;<dtml-in s><dtml-var k html_quote></dtml-in>'),
     ('html', 'A=<!--#var apple-->.<!--#if a-->x<!--#else-->y<!--#/if-->&dtml-z;<!--#in s--><!--#var k html_quote--><!--#/in-->'),
     ('epfs', 'A=%(apple)s.%(if a)[x%(else)[y%(if)]%(z html_quote)s%(in s)[%(k html_quote)s%(in)]')]
B = [('html', 'B=<dtml-var banana>!<dtml-in t><dtml-var sequence-item></dtml-in><dtml-unless b>u</dtml-unless>&dtml-w;'),
     ('html', 'B=<!--#var banana-->!<!--#in t--><!--#var sequence-item--><!--#endin--><!--#unless b-->u<!--#endunless-->&dtml-w;'),
     ('epfs', 'B=%(banana)s!%(in t)[%(sequence-item)s%(in)]%(unless b)[u%(unless)]%(w html_quote)s')]


def _compile_pair(first, second, k):
    """thread 0 compiles `first`, is preempted after k line steps, thread 1 compiles `second` to the end, thread 0 resumes"""
    ts = [front.template_class(syn)(src) for syn, src in (first, second)]
    s = sched.Scheduler(2)
    h = sched.Hooks()
    h.install(s, ())
    try:
        res = s.run([ts[0].cook, ts[1].cook], sched.segments([(0, k), (1, 10 ** 9), (0, 10 ** 9)]), line_mode=True)
    finally:
        h.remove()
    out = []
    for t, r in zip(ts, res):
        if r[0] != 'ok':
            out.append({'k': 'err', 'what': r[1]})
        else:
            out.append({'k': 'ok', 'prog': front.normalise(t.__dict__.get('_v_blocks'))})
    return out, s.steps[0]


def _job(job):
    sp, swap, k = job
    first, second = (B[sp], A[sp]) if swap else (A[sp], B[sp])
    try:
        out, _ = _compile_pair(first, second, k)
    except (sched.Deadlock, sched.Stuck) as e:
        return {'job': job, 'dead': str(e)[:200]}
    return {'job': job, 'out': out}


def stage(V, tier, rng):
    ref = {}
    for name, sp in (('A', A), ('B', B)):
        progs = []
        for syn, src in sp:
            t = front.template_class(syn)(src)
            t.cook()
            progs.append(front.normalise(t._v_blocks))
        if any(not front.same_prog(progs[0], p) for p in progs[1:]):
            common.machinery_failure('c07_conc: the reference spellings of %s do not compile alike' % name)
        ref[name] = progs
    jobs = []
    budget = 40 if tier == 'quick' else 400
    for sp in range(3):
        for swap in (False, True):
            _, total = _compile_pair((B[sp], A[sp])[0] if swap else A[sp], A[sp] if swap else B[sp], 10 ** 9)
            ks = list(range(1, total + 1))
            if len(ks) > budget:
                ks = sorted(rng.sample(ks, budget))
            jobs += [(sp, swap, k) for k in ks]
    for r in common.pool_map(_job, jobs, chunk=4, per_case=120):
        if '_crash' in r or '_timeout' in r:
            common.machinery_failure('c07_conc: %s' % repr(r)[:800])
        sp, swap, k = r['job']
        V.count('concurrent_compilations')
        if 'dead' in r:
            V.violation({'kind': 'departure', 'clause': 'programs-differ', 'cls': 'concurrent-compilation-deadlock', 'detail': r['dead'],
                         'spelling': A[sp][0], 'preempted_after_lines': k})
            continue
        names = ('B', 'A') if swap else ('A', 'B')
        for name, o in zip(names, r['out']):
            want = ref[name][2 if sp != 2 else 0]          # the program of another spelling of the same template
            if o['k'] != 'ok' or not front.same_prog(want, o['prog']):
                V.violation({'kind': 'departure', 'clause': 'programs-differ', 'cls': 'concurrent-compilation',
                             'detail': {'template': name, 'source': (A if name == 'A' else B)[sp][1], 'compiled_next_to': (B if name == 'A' else A)[sp][1],
                                        'preempted_thread': names[0], 'preempted_after_lines': k,
                                        'got': o if o['k'] != 'ok' else 'another program than the %s spelling gives' % ('epfs' if sp != 2 else 'dtml')}})
                break
    return len(jobs)


# ---------------------------------------------------------------------------------------------
# the template's encoding reaches every tag of every spelling alike

ENC_T = [
    [('html', 'A <dtml-with o>v=<dtml-var v>.</dtml-with> Z'), ('html', 'A <!--#with o-->v=<!--#var v-->.<!--#/with--> Z'),
     ('epfs', 'A %(with o)[v=%(v)s.%(with)] Z')],
    [('html', '<dtml-let w=v>[<dtml-var w>|<dtml-var v html_quote>]</dtml-let>'), ('html', '<!--#let w=v-->[<!--#var w-->|<!--#var v html_quote-->]<!--#/let-->'),
     ('epfs', '%(let w=v)[[%(w)s|%(v html_quote)s]%(let)]')],
    [('html', '<dtml-in s>(<dtml-var v>,<dtml-var sequence-item>)</dtml-in>'), ('html', '<!--#in s-->(<!--#var v-->,<!--#var sequence-item-->)<!--#/in-->'),
     ('epfs', '%(in s)[(%(v)s,%(sequence-item)s)%(in)]')],
    [('html', '<dtml-try>t<dtml-var v><dtml-var nope><dtml-except>e<dtml-var v></dtml-try>'),
     ('html', '<!--#try-->t<!--#var v--><!--#var nope--><!--#except-->e<!--#var v--><!--#/try-->'),
     ('epfs', '%(try)[t%(v)s%(nope)s%(except)[e%(v)s%(try)]')],
    [('html', '<dtml-if a>i<dtml-var v upper><dtml-else>n</dtml-if>&dtml-v;'), ('html', '<!--#if a-->i<!--#var v upper--><!--#else-->n<!--#/if-->&dtml-v;'),
     ('epfs', '%(if a)[i%(v upper)s%(else)[n%(if)]%(v html_quote)s')],
    [('html', '<dtml-raise KeyError>m<dtml-var v></dtml-raise>'), ('html', '<!--#raise KeyError-->m<!--#var v--><!--#/raise-->'),
     ('epfs', '%(raise KeyError)[m%(v)s%(raise)]')],
]


class _O:
    q = 1


def enc_stage(V):
    text = 'caf\xe9 <\xfc>'
    for enc in ('latin-1', 'cp1252', 'utf-8', 'utf-16'):
        for case in ENC_T:
            outs = []
            for syn, src in case:
                cls = front.template_class(syn)
                per = []
                for val in (text.encode(enc), text):
                    V.count('encoding_renderings')
                    try:
                        r = cls(src, encoding=enc)(v=val, o=_O(), s=[val, 'x'], a=1)
                        per.append(r if isinstance(r, str) else repr(r))
                    except Exception as e:  # noqa
                        a = e.args[0] if e.args else ''
                        per.append('RAISED %s %s' % (type(e).__name__, a if isinstance(a, str) else repr(a)))
                outs.append(per)
            for (syn, src), o in zip(case[1:], outs[1:]):
                if o != outs[0]:
                    V.violation({'kind': 'departure', 'clause': 'renders-differ', 'cls': 'renders-differ-under-encoding',
                                 'detail': {'encoding': enc, 'a': case[0][1], 'b': src, 'got_a': outs[0], 'got_b': o}})
                    break


# ---------------------------------------------------------------------------------------------
# a tag registered while the process is running (an add-on product imported late) is a tag in every spelling

def late_tag_stage(V):
    from DocumentTemplate.DT_String import String
    from DocumentTemplate._DocumentTemplate import render_blocks

    class Shout:
        name = 'shout'
        blockContinuations = ()

        def __init__(self, blocks, encoding=None):
            tname, args, section = blocks[0]
            self.section = section.blocks

        def render(self, md):
            return render_blocks(self.section, md).upper()
        __call__ = render
    # templates of every class using every lazily imported block tag have been compiled before
    for syn, src in A + B:
        front.template_class(syn)(src).cook()
    String.commands['shout'] = Shout
    try:
        outs = []
        spell = [('html', 'a<dtml-shout>b<dtml-var v></dtml-shout>c'), ('html', 'a<!--#shout-->b<!--#var v--><!--#/shout-->c'),
                 ('html', 'a<!--#shout-->b<!--#var v--><!--#endshout-->c'), ('epfs', 'a%(shout)[b%(v)s%(shout)]c')]
        for syn, src in spell:
            V.count('late_tag_compilations')
            try:
                outs.append(front.template_class(syn)(src)(v='x'))
            except Exception as e:  # noqa
                outs.append('RAISED %s' % type(e).__name__)
        if any(o != outs[0] for o in outs) or outs[0] != 'aBXc':
            V.violation({'kind': 'departure', 'clause': 'accept-reject', 'cls': 'late-tag-registration',
                         'detail': {'spellings': spell, 'outcomes': outs, 'expected': 'aBXc in every spelling'}})
    finally:
        del String.commands['shout']
