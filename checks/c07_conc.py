"""C07 under concurrent compilation: two threads compile two different templates at the same time; whichever spelling a template
is written in, it compiles to the program it compiles to alone (which is the same for all spellings).

The deterministic scheduler of C18 (harness/sched.py: real threads, line-level preemption, the compile lock substituted by a
scheduling lock) preempts one compiling thread at a sampled line, runs the other to completion and resumes the first.
"""
import random

from harness import common, front, sched

A = [('html', 'A=<dtml-var apple>.<dtml-if a>x<dtml-else>y</dtml-if>&dtml-z;<dtml-in s><dtml-var k html_quote></dtml-in>'),
     ('html', 'A=<!--#var apple-->.<!--#if a-->x<!--#else-->y<!--#/if-->&dtml-z;<!--#in s--><!--#var k html_quote--><!--#/in-->'),
     ('epfs', 'A=%(apple)s.%(if a)[x%(else)[y%(if)]%(z html_quote)s%(in s)[%(k html_quote)s%(in)]')]
B = [('html', 'B=<dtml-var banana>!<dtml-in t><dtml-var sequence-item></dtml-in><dtml-unless b>u</dtml-unless>&dtml-w;'),
     ('html', 'B=<!--#var banana-->!<!--#in t--><!--#var sequence-item--><!--#endin--><!--#unless b-->u<!--#endunless-->&dtml-w;'),
     ('epfs', 'B=%(banana)s!%(in t)[%(sequence-item)s%(in)]%(unless b)[u%(unless)]%(w html_quote)s')]


def _compile_pair(first, second, k):
    """thread 0 compiles `first`, is preempted after k line steps, thread 1 compiles `second` to the end, thread 0 resumes"""
    ts = [front.template_class(syn)(src) for syn, src in (first, second)]
    s = sched.Scheduler(2)
    h = sched.Hooks()
    h.install(s, ())
    try:
        res = s.run([ts[0].cook, ts[1].cook], sched.segments([(0, k), (1, 10 ** 9), (0, 10 ** 9)]), line_mode=True)
    finally:
        h.remove()
    out = []
    for t, r in zip(ts, res):
        if r[0] != 'ok':
            out.append({'k': 'err', 'what': r[1]})
        else:
            out.append({'k': 'ok', 'prog': front.normalise(t.__dict__.get('_v_blocks'))})
    return out, s.steps[0]


def _job(job):
    sp, swap, k = job
    first, second = (B[sp], A[sp]) if swap else (A[sp], B[sp])
    try:
        out, _ = _compile_pair(first, second, k)
    except (sched.Deadlock, sched.Stuck) as e:
        return {'job': job, 'dead': str(e)[:200]}
    return {'job': job, 'out': out}


def stage(V, tier, rng):
    ref = {}
    for name, sp in (('A', A), ('B', B)):
        progs = []
        for syn, src in sp:
            t = front.template_class(syn)(src)
            t.cook()
            progs.append(front.normalise(t._v_blocks))
        if any(not front.same_prog(progs[0], p) for p in progs[1:]):
            common.machinery_failure('c07_conc: the reference spellings of %s do not compile alike' % name)
        ref[name] = progs
    jobs = []
    budget = 40 if tier == 'quick' else 400
    for sp in range(3):
        for swap in (False, True):
            _, total = _compile_pair((B[sp], A[sp])[0] if swap else A[sp], A[sp] if swap else B[sp], 10 ** 9)
            ks = list(range(1, total + 1))
            if len(ks) > budget:
                ks = sorted(rng.sample(ks, budget))
            jobs += [(sp, swap, k) for k in ks]
    for r in common.pool_map(_job, jobs, chunk=4, per_case=120):
        if '_crash' in r or '_timeout' in r:
            common.machinery_failure('c07_conc: %s' % repr(r)[:800])
        sp, swap, k = r['job']
        V.count('concurrent_compilations')
        if 'dead' in r:
            V.violation({'kind': 'departure', 'clause': 'programs-differ', 'cls': 'concurrent-compilation-deadlock', 'detail': r['dead'],
                         'spelling': A[sp][0], 'preempted_after_lines': k})
            continue
        names = ('B', 'A') if swap else ('A', 'B')
        for name, o in zip(names, r['out']):
            want = ref[name][2 if sp != 2 else 0]          # the program of another spelling of the same template
            if o['k'] != 'ok' or not front.same_prog(want, o['prog']):
                V.violation({'kind': 'departure', 'clause': 'programs-differ', 'cls': 'concurrent-compilation',
                             'detail': {'template': name, 'source': (A if name == 'A' else B)[sp][1], 'compiled_next_to': (B if name == 'A' else A)[sp][1],
                                        'preempted_thread': names[0], 'preempted_after_lines': k,
                                        'got': o if o['k'] != 'ok' else 'another program than the %s spelling gives' % ('epfs' if sp != 2 else 'dtml')}})
                break
    return len(jobs)
