"""C12 -- batching a lazy sequence pulls only the window plus one look-ahead batch.

Same machine as C11 (spec/DTBatch.tla): `pulled` is the number of elements the lazy sequence has
produced, every probe of the code is a PullTo, len() is LenPulls.  Invariants InvLazy (bound at
every step), PullMonotone, ItemProgress (termination), InvPlainAll (unbatched pulls all, once).

P1: every exported behaviour is replayed with counting iterators / generators (bounded and
unbounded) and a lazy __getitem__ sequence; per row the number of elements pulled so far is
compared with the machine's.  P2: departures, a sample and random larger parameters are validated
by TLC (ObsBatch: C_Lazy on the recorded rows; "renders and terminates").
"""
import json
import random

from harness import batch_obs, common, tlc
from checks import c11

PID = 'C12'

BOUNDS = {
    'quick': dict(L=(0, 7), start=(-1, 9), end=(-1, 9), size=(-1, 4), orphan=(0, 2), overlap=(0, 2)),
    'thorough': dict(L=(0, 14), start=(-1, 16), end=(-1, 16), size=(-1, 7), orphan=(0, 4), overlap=(0, 3)),
}
PB_BOUNDS = {
    'quick': dict(L=(0, 7), start=(0, 8), end=(0, 0), size=(0, 4), orphan=(0, 2), overlap=(0, 3)),
    'thorough': dict(L=(0, 12), start=(-1, 13), end=(-1, 13), size=(-1, 5), orphan=(0, 3), overlap=(0, 3)),
}
PLAIN = {'quick': (0, 12), 'thorough': (0, 40)}

INVS = ['InvLazyB', 'InvEmptyOne', 'InvPlainAll']


def mc_module(name, b, unlimited=True):
    r = lambda k: '%d..%d' % b[k]  # noqa
    return '''---- MODULE %s ----
EXTENDS DTBatch
cLs == (%s)%s
cStarts == %s
cEnds == %s
cSizes == %s
cOrphans == %s
cOverlaps == %s
====
''' % (name, r('L'), ' \\cup {Unlimited}' if unlimited else '', r('start'), r('end'), r('size'),
       r('orphan'), r('overlap'))


def obs_cfg(navdir, pb):
    return c11.OBS_CFG.replace('NavDir = "none"', 'NavDir = "%s"' % navdir).replace(
        'PrevBatches = FALSE', 'PrevBatches = %s' % ('TRUE' if pb else 'FALSE'))


def _seqkind(i, L):
    k = ('gen', 'genfn', 'lazy', 'sized', 'gennone', 'maplike', 'lazy', 'hinted', 'gen')[i % 9]
    if L < 0 and k in ('lazy', 'sized', 'maplike'):
        k = 'gen' if i % 2 else 'gennone'
    return k


def replay_case(item):
    i, mode, exp = item
    par, e, c, rows, pulled, strict = exp
    seqkind = _seqkind(i, par[0])
    if mode == 'plain' and seqkind == 'lazy':
        seqkind = 'genfn'      # a __len__ that costs nothing says nothing about pulling
    if mode == 'pb':
        # previous_batches() only makes progress for overlap < size (as C11's navigation); with
        # overlap >= size the real loop never terminates, for any kind of sequence -- outside the
        # quantifier of this property (noted in DESIGN.md), so such behaviours are not replayed
        _L, st_, en_, sz_, _o, ov_ = par
        eff = sz_ if sz_ >= 1 else ((en_ + 1 - st_) if (st_ > 0 and en_ > 0 and en_ >= st_) else 7)
        if ov_ >= eff:
            return {'ok': 2, 'obs': None, 'mode': mode}
    kind = ('plainrv0' if i % 4 == 1 else 'plain') if mode == 'plain' else ('ssi' if i % 7 == 3 else 'rv0' if i % 7 == 5 else
                                                                                 'guard' if i % 7 == 1 else 'vars')
    extra = batch_obs.PB if mode == 'pb' else ''
    if mode == 'batch' and kind in ('vars', 'rv0') and par[2] <= 0 and par[3] >= 1 and i % 3 == 2:
        extra = batch_obs.NEST
    obs = batch_obs.observe(par, kind=kind, seqkind=seqkind, as_str=('obj' if i % 5 == 2 else i % 2 == 1), extra=extra)
    obs['np'] = 0
    obs['variant'] = [kind, seqkind, mode + ('+nested' if extra == batch_obs.NEST else '')]
    same = obs['e'] == e and obs['c'] == c and (c == 1 or (obs['r'] == rows and obs['pl'] == pulled)) \
        and obs['ln'] == 0
    return {'ok': int(same), 'obs': obs if (not same or not strict or i % 41 == 0) else None, 'mode': mode}


def observe_random(item):
    i, par = item
    seqkind = _seqkind(i, par[0])
    kind = 'rv0' if i % 3 == 0 else 'vars'
    obs = batch_obs.observe(par, kind=kind, seqkind=seqkind, as_str=('obj' if i % 5 == 2 else i % 2 == 1))
    obs['np'] = 0
    obs['variant'] = [kind, seqkind, 'batch']
    return {'ok': 0, 'obs': obs, 'mode': 'batch'}


def adjudicate(cases, mode, V, what):
    if not cases:
        return 0, 0, 0
    navdir = 'plain' if mode == 'plain' else 'none'
    n = st = tr = 0
    CH = 20000
    for off in range(0, len(cases), CH):
        part = cases[off:off + CH]
        payload = json.dumps([dict({k: c[k] for k in ('p', 'e', 'c', 'r', 'pl', 'ln')}, np=0) for c in part])
        res = tlc.run('ObsBatch', obs_cfg(navdir, mode == 'pb'),
                      files={'cases.json': payload, 'chains.json': '[]', 'lists.json': '[]', 'forms.json': '[]'}, workers=8)
        st += res.distinct
        tr += res.generated
        vs = {v['tid'] - 1: v for v in res.prints}
        if len(vs) != len(part):
            raise tlc.TLCFailure('ObsBatch returned %d verdicts for %d cases' % (len(vs), len(part)))
        for j, c in enumerate(part):
            v = vs[j]
            n += 1
            if not v['lazy']:
                L, start, end, size, orphan, overlap = c['p']
                V.violation({'kind': 'lazy', 'source': what, 'mode': mode,
                             'cls': 'prev-lookahead-overlap' if v['lazyr'] else 'other',
                             'par': dict(zip(('L', 'start', 'end', 'size', 'orphan', 'overlap'), c['p'])),
                             'variant': c.get('variant'), 'observed': c, 'error': (c.get('err') or '')[:60],
                             'first_diff_row': v['diff']})
            elif not v['conform']:
                V.count('drift')
                V.notes.setdefault('drift_examples', [])
                if len(V.notes['drift_examples']) < 5:
                    V.notes['drift_examples'].append({'case': c, 'diff_row': v['diff']})
            else:
                V.count('validated_conform')
    return n, st, tr


def random_cases(n, rng):
    out = []
    for i in range(n):
        L = rng.choice([-1, -1, rng.randint(0, 60), rng.randint(15, 500)])
        hi = 60 if L < 0 else L + 5
        par = [L, rng.randint(-2, hi), rng.choice([0, 0, -1, rng.randint(1, hi)]),
               rng.choice([rng.randint(-1, 12), rng.randint(1, 60)]),
               rng.randint(0, 9), rng.randint(0, 6)]
        out.append((i, par))
    return out


def main(tier):
    V = common.Verdicts(PID, tier)
    rng = random.Random(common.seed())
    states = trans = 0
    items = []
    runs = [('batch', 'none', False, mc_module('MC_C12', BOUNDS[tier])),
            ('pb', 'none', True, mc_module('MC_C12', PB_BOUNDS[tier])),
            ('plain', 'plain', False,
             mc_module('MC_C12', dict(L=PLAIN[tier], start=(0, 0), end=(0, 0), size=(0, 0),
                                      orphan=(0, 0), overlap=(0, 0)), unlimited=False))]
    nexp = {}
    for mode, navdir, pb, mod in runs:
        ex = []
        res = tlc.run('MC_C12', c11.mc_cfg(navdir, INVS + ['Export'], pb=pb),
                      files={'MC_C12.tla': mod}, on_print=ex.append, keep_prints=False, timeout=3000)
        if res.violated:
            V.notes['model_violation'] = res.violated
            print('model-level violation of %s (%s)' % (res.violated, mode))
        states += res.distinct
        trans += res.generated
        nexp[mode] = len(ex)
        items += [(len(items) + k, mode, e) for k, e in enumerate(ex)]
    results = common.pool_map(replay_case, items, chunk=1500, per_case=8)
    results += common.pool_map(observe_random, random_cases(3000 if tier == 'quick' else 30000, rng),
                               chunk=300, per_case=8)
    for k in V.known:
        w = k.get('witness')
        if w:
            results.append(observe_random((0, w['par'])))
    todo = {'batch': [], 'pb': [], 'plain': []}
    for r in results:
        if '_timeout' in r:
            c = r['case']
            V.violation({'kind': 'hang', 'case': repr(c)[:300],
                         'what': 'rendering did not terminate within the watchdog'})
            continue
        if '_crash' in r:
            raise tlc.TLCFailure('harness crash: %s' % r)
        if r['ok'] == 2:
            V.count('pb_skipped_overlap_ge_size')
        elif r['ok']:
            V.count('p1_conform')
        else:
            V.count('p1_mismatch_or_random')
        if r['obs'] is not None:
            todo[r['mode']].append(r['obs'])
    validated = 0
    for mode, cases in todo.items():
        n, st, tr = adjudicate(cases, mode, V, 'recorded')
        validated += n
        states += st
        trans += tr
    if V.notes.get('model_violation') and not V.violations and not V.known_hits:
        raise tlc.TLCFailure('the machine violates %s but the real code never does' % V.notes['model_violation'])
    cov = {'states': states, 'transitions': trans,
           'traces_validated_against_impl': V.counters.get('p1_conform', 0) + validated,
           'behaviours_exported': nexp, 'exhaustive': True,
           'bounds': {'batch': BOUNDS[tier], 'previous_batches': PB_BOUNDS[tier], 'plain_L': PLAIN[tier],
                      'L_includes_unbounded_iterator': True},
           'samples': [items[0][2], items[len(items) // 2][2], items[-1][2]],
           'drift_examples': V.notes.get('drift_examples', [])}
    return V.finish(cov, assumptions=[
        'lazy sequences: counting iterator, generator, __getitem__/__len__ class, sized iterable without subscription, '
        'mapping-like (keys/get) iterable; pulls are counted by the '
        'sequence itself (an iterator cannot be pulled out of order or twice)',
        'sort/reverse/sequence-length/next-batches/statistics are excepted by the property and not used (a reverse_expr that evaluates false reverses nothing and is used)'])


def replay(path):
    data = json.load(open(path))
    for v in data['violations']:
        print(json.dumps(v)[:1000])
        if 'par' in v:
            p = v['par']
            par = [p['L'], p['start'], p['end'], p['size'], p['orphan'], p['overlap']]
            kind, seqkind, mode = v.get('variant') or ['vars', 'gen', 'batch']
            try:
                print('  now:', batch_obs.observe(par, kind=kind, seqkind=seqkind,
                                                  extra=batch_obs.PB if mode == 'pb' else ''))
            except common.CaseTimeout:
                print('  now: timeout')
    return 1 if data['violations'] else 0
