"""C06 -- compiling any source terminates and fails only with a located ParseError.

Machine: spec/DTParse.tla (+ DTScan.tla): the compiler as a small-step machine -- tag search, parseTag,
parse / parse_block / parse_close over a control stack, parse_params / name_param / parse_let_params and
every tag constructor; outcome = the normal form of _v_blocks, or (exception class, named tag, line).
TLC checks ErrLocated, OnlyTwoErrors, Tiling, FrameProgress on every behaviour.

Binding (P1 + P2): every source is compiled by the real HTML / String class with each tagre.search
logged; the search log (a recorded trace), accept / reject, the exception class, the tag named in the
message, its line and -- for accepted sources -- the compiled program must be the machine's.

Families: (a) all item sequences up to the tier length over a 17-item alphabet (one item is text with unterminated entity openers), both syntaxes, one tag per
line; (b) all attribute lists up to the tier length per tag; (c) valid templates with one mutation (char
deleted / duplicated / swapped, tag deleted / duplicated / swapped) at every position; (d) truncation at
every offset; (e) random soups of tag fragments, quotes and delimiters.  Clauses "only ParseError /
SyntaxError escapes" and "terminates" are claimed for every input; accept / reject, named tag and line
are claimed on (a)-(d) (the grammar region) and recorded as drift on (e).
Time clause: pump families measured in a subprocess (CPU time of cook()).
"""
import itertools
import json
import os
import random
import subprocess
import sys
import time

from checks import front_common
from harness import common, front

PID = 'C06'

H_ITEMS = ['<dtml-if a>', '<dtml-elif b>', '<dtml-else>', '</dtml-if>', '<dtml-in s>', '</dtml-in>',
           '<dtml-try>', '<dtml-except>', '<dtml-finally>', '</dtml-try>', '<dtml-let x=a>', '</dtml-let>',
           '<dtml-var v>', 'text', '<dtml-bogus>', '</dtml-with>', 'see &dtml-foo and &dtml.x']
E_ITEMS = ['%(if a)[', '%(elif b)[', '%(else)[', '%(if)]', '%(in s)[', '%(in)]', '%(try)[', '%(except)[',
           '%(finally)[', '%(try)]', '%(let x=a)[', '%(let)]', '%(v)s', 'text', '%(bogus)[', '%(with)]', 'see &dtml-foo and &dtml.x']
S_ITEMS = ['<!--#if a-->', '<!--#elif b-->', '<!--#else-->', '<!--#/if-->', '<!--#in s-->', '<!--#endin-->',
           '<!--#try-->', '<!--#except-->', '<!--#finally-->', '<!--#/try-->', '<!--#let x=a-->', '<!--#/let-->',
           '<!--#var v-->', 'text', '<!--#bogus-->', '<!--#/with-->', 'see &dtml-foo and &dtml.x']


def seq_cases(tier, rng):
    n = len(H_ITEMS)
    full = 3 if tier == 'quick' else 4
    seqs = [s for k in range(1, full + 1) for s in itertools.product(range(n), repeat=k)]
    extra = 6000 if tier == 'quick' else 60000
    for _ in range(extra):
        k = rng.randint(full + 1, 8)
        seqs.append(tuple(rng.randrange(n) for _ in range(k)))
    out = []
    for j, s in enumerate(seqs):
        for syn, items in (('html', H_ITEMS), ('epfs', E_ITEMS), ('html', S_ITEMS)):
            if items is S_ITEMS and j % 3:
                continue
            sep = '\n' if j % 4 else ('' if j % 8 else ' \n')
            out.append({'syn': syn, 'src': sep.join(items[i] for i in s) + ('\n' if j % 2 else ''),
                        'fam': 'items', 'canon': True})
    return out


ATOMS = {
    'var': ['x', 'name=x', 'expr="a"', 'expr="1+"', '"a"', '"1+"', 'lower', 'size=3', 'fmt=u', 'bogus=1', 'bogus',
            'NAME=y', 'a="', 'null', 'html_quote', 'expr=a+1', 'expr', 'LOWER', 'Html_Quote', 'SIZE=2', 'Fmt=u'],
    'in': ['x', 'name=x', 'expr="a"', 'expr="1+"', '"a"', 'mapping', 'size=3', 'start=b', 'orphan=1', 'prefix=p',
           'prefix="a b"', 'prefix=_row', 'prefix=gr\u00f6sse', 'prefix=9x', 'prefix=a-b', 'prefix=A_1', 'sort_expr="1+"', 'reverse_expr="a"', 'bogus=1', 'sort=k', 'next', 'prefix', 'overlap', 'Mapping', 'REVERSE',
           'Size=3', 'NEXT'],
    'if': ['x', 'name=x', 'expr="a"', 'expr="1+"', '"a"', '"1+"', 'bogus', 'mapping', 'y=1', '=x', 'EXPR="b"'],
    'unless': ['x', 'name=x', 'expr="a"', '"1+"', 'bogus', 'expr="1+"'],
    'with': ['x', 'name=x', 'expr="a"', 'expr="1+"', '"a"', 'mapping', 'only', 'bogus', 'only=0', 'mapping="', 'ONLY', 'Mapping', 'Only=1'],
    'let': ['x=a', 'y="a"', 'z="1+"', 'x', '"a"', 'X=b', 'x=a"', 'x="a" y=b'],
    'try': ['x', 'name=x', '"a"', 'bogus=1', 'x y'],
    'raise': ['x', 'type=x', 'expr="a"', 'expr="1+"', '"a"', '"1+"', 'name=x', 'bogus'],
    'call': ['x', 'name=x', 'expr="a"', 'expr="1+"', '"a"', '"1+"', 'lower'],
    'return': ['x', 'name=x', 'expr="a"', 'expr="1+"', '"a"', '"1+"', 'lower'],
    'tree': ['x', 'name=x', 'expr="a"', 'expr="1+"', 'branches=b', 'branches_expr="c"', 'branches_expr="1+"', 'nowrap',
             'prefix="a b"', 'prefix=_t', 'prefix=\u00e9', 'prefix=T2', 'sort', 'id=i', 'bogus', 'name', 'single', 'prefix=p', 'NOWRAP', 'Single', 'ID=i'],
    'comment': ['x', 'bogus=1', '"'],
}
CONT_ATOMS = {'elif': ATOMS['if'], 'else-if': ['a', 'name=a', '"a"', 'b', 'bogus=1', 'a ', 'expr="a"'],
              'else-in': ['s', 'name=s', '"s"', 'b', 'bogus=1'], 'except': ['KeyError', 'A B', '"x"', 'a=b']}
SIMPLE = ('var', 'call', 'return')


def tag_text(syn, tag, args, style=0):
    a = (' ' + args) if args else ''
    if syn == 'epfs':
        if tag in SIMPLE:
            return '%%(%s%s)%s' % (tag, a, 's' if tag == 'var' else '!')
        return '%%(%s%s)[body%%(%s)]' % (tag, a, tag)
    if style == 1:
        if tag in SIMPLE:
            return '<!--#%s%s-->' % (tag, a)
        return '<!--#%s%s-->body<!--#/%s-->' % (tag, a, tag)
    if tag in SIMPLE:
        return '<dtml-%s%s>' % (tag, a)
    return '<dtml-%s%s>body</dtml-%s>' % (tag, a, tag)


def cont_text(syn, kind, args):
    a = (' ' + args) if args else ''
    if kind == 'elif':
        return ('%%(if a)[x%%(elif%s)[y%%(if)]' % a) if syn == 'epfs' else '<dtml-if a>x\n<dtml-elif%s>y</dtml-if>' % a
    if kind == 'else-if':
        return ('%%(if a)[x%%(else%s)[y%%(if)]' % a) if syn == 'epfs' else '<dtml-if a>x\n<dtml-else%s>y</dtml-if>' % a
    if kind == 'else-in':
        return ('%%(in s)[x%%(else%s)[y%%(in)]' % a) if syn == 'epfs' else '<dtml-in s>x\n<dtml-else%s>y</dtml-in>' % a
    return ('%%(try)[x%%(except%s)[y%%(try)]' % a) if syn == 'epfs' else '<dtml-try>x\n<dtml-except%s>y</dtml-try>' % a


CHAINS = {
    'if': ('a', ['elif b', 'elif a', 'else', 'else a', 'else b', 'else a ', 'elif expr="b"', 'else "a"']),
    'in': ('s', ['else', 'else s', 'else t', 'else name=s']),
    'try': ('', ['except', 'except KeyError', 'except A B', 'else', 'finally', 'else x']),
    'with': ('o', ['else', 'else o']),
}


def chain_cases(tier, rng):
    """a block followed by every chain of up to three continuation tags (with and without arguments that repeat the
    opening tag's or an earlier continuation's arguments), in the three spellings, one tag per line"""
    out = []
    for tag, (arg, conts) in CHAINS.items():
        chains = [c for k in range(0, 4) for c in itertools.product(conts, repeat=k)]
        for j, ch in enumerate(chains):
            for style in (0, 1, 2):
                if style == 1 and j % 2:
                    continue
                def t(name_args, kind):
                    name, _, a = name_args.partition(' ')
                    a = (' ' + a) if a else ''
                    if style == 2:
                        return '%%(%s%s)%s' % (name, a, ']' if kind == 'close' else '[')
                    if style == 1:
                        return ('<!--#/%s-->' % name) if kind == 'close' else '<!--#%s%s-->' % (name, a)
                    return ('</dtml-%s>' % name) if kind == 'close' else '<dtml-%s%s>' % (name, a)
                parts = [t((tag + ' ' + arg).strip(), 'open'), 'x']
                for c in ch:
                    parts += [t(c, 'cont'), 'y']
                parts.append(t(tag, 'close'))
                out.append({'syn': 'epfs' if style == 2 else 'html', 'src': 'top\n' + '\n'.join(parts) + '\nend', 'fam': 'chains', 'canon': True})
    return out


def attr_cases(tier, rng):
    out = []
    full = 2 if tier == 'quick' else 3
    for tag, atoms in ATOMS.items():
        lists = [()] + [l for k in range(1, full + 1) for l in itertools.product(atoms, repeat=k)]
        if tier == 'quick':
            lists += [tuple(rng.choice(atoms) for _ in range(3)) for _ in range(150)]
        else:
            lists += [tuple(rng.choice(atoms) for _ in range(rng.randint(4, 5))) for _ in range(1500)]
        for j, l in enumerate(lists):
            args = ' '.join(l) if j % 5 else '  '.join(l)
            for syn in ('html', 'epfs'):
                src = 'line1\n' + ('  ' if j % 2 else '') + tag_text(syn, tag, args, style=(j % 7 == 0)) + '\nend'
                out.append({'syn': syn, 'src': src, 'fam': 'attrs', 'canon': True})
    # the same tags nested in blocks and continuation sections, so that the reported line is deep in the text
    wraps_h = ['<dtml-if a>\n\n%s\n</dtml-if>', '<dtml-if a>x\n<dtml-else>\n \n%s</dtml-if>', '<dtml-in s>\n<dtml-let q=a>\n%s\n</dtml-let></dtml-in>',
               '<dtml-try>\n<dtml-except>\n\n%s</dtml-try>', '<dtml-with o>\n%s</dtml-with>\n']
    wraps_e = ['%%(if a)[\n\n%s\n%%(if)]', '%%(if a)[x\n%%(else)[\n \n%s%%(if)]', '%%(in s)[\n%%(let q=a)[\n%s\n%%(let)]%%(in)]',
               '%%(try)[\n%%(except)[\n\n%s%%(try)]', '%%(with o)[\n%s%%(with)]\n']
    for tag, atoms in ATOMS.items():
        lists = [()] + [(a,) for a in atoms] + [tuple(rng.choice(atoms) for _ in range(2)) for _ in range(12 if tier == 'quick' else 60)]
        for j, l in enumerate(lists):
            for syn, wraps in (('html', wraps_h), ('epfs', wraps_e)):
                w = wraps[j % len(wraps)]
                out.append({'syn': syn, 'src': 'top\n' + w % tag_text(syn, tag, ' '.join(l)), 'fam': 'attrs', 'canon': True})
    for kind, atoms in CONT_ATOMS.items():
        lists = [()] + [l for k in range(1, 3) for l in itertools.product(atoms, repeat=k)]
        for l in lists:
            for syn in ('html', 'epfs'):
                out.append({'syn': syn, 'src': 'a\n' + cont_text(syn, kind, ' '.join(l)), 'fam': 'attrs', 'canon': True})
    return out


TAGNAMES = ['if', 'elif', 'else', 'unless', 'in', 'with', 'let', 'try', 'except', 'finally', 'raise', 'return', 'call', 'var',
            'comment', 'tree']
CLASSNAMES = ['If', 'Else', 'Unless', 'In', 'InClass', 'With', 'Let', 'Try', 'Raise', 'ReturnTag', 'Call', 'Var', 'Comment',
              'Tree', 'TreeTag', 'String', 'HTML', 'DT_If', 'commands', 'end', 'endif']


def name_cases(tier, rng):
    """tag names are matched exactly: case variants of the known tags, the names of the classes that implement them and near
    misses are unknown tags (opening, continuation and closing position, the three spellings)"""
    names = []
    for n in TAGNAMES:
        names += [n.capitalize(), n.upper(), n[0] + n[1:].upper(), n + 'x', n + '_', n[:-1] if len(n) > 2 else n + n, n + '2']
    names += CLASSNAMES
    out = []

    def sp(style, name, args, kind):
        a = (' ' + args) if args else ''
        if style == 2:
            return '%%(%s%s)%s' % (name, a, {'open': '[', 'close': ']', 'single': 's'}[kind])
        if style == 1:
            return ('<!--#/%s-->' % name) if kind == 'close' else '<!--#%s%s-->' % (name, a)
        return ('</dtml-%s>' % name) if kind == 'close' else '<dtml-%s%s>' % (name, a)
    for j, nm in enumerate(sorted(set(names))):
        low = nm.lower()
        for style in (0, 1, 2):
            syn = 'epfs' if style == 2 else 'html'
            srcs = ['a\n' + sp(style, nm, 'x', 'open') + 'yes' + sp(style, nm, '', 'close'),
                    'a\n' + sp(style, nm, 'x', 'single') + '\nb']
            if low in TAGNAMES:
                srcs += ['a\n' + sp(style, nm, 'x', 'open') + 'yes' + sp(style, low, '', 'close'),
                         'a\n\n' + sp(style, low, 'x', 'open') + 'yes\n' + sp(style, nm, '', 'close')]
            srcs += ['top\n' + sp(style, 'if', 'a', 'open') + 'x\n' + sp(style, nm, '', 'open') + 'y' + sp(style, 'if', '', 'close'),
                     sp(style, 'try', '', 'open') + 'x\n\n' + sp(style, nm, '', 'open') + 'y' + sp(style, 'try', '', 'close')]
            for src in srcs:
                out.append({'syn': syn, 'src': src, 'fam': 'names', 'canon': True})
    return out


BASES_H = [
    'a\n<dtml-if x>\n  yes <dtml-var v>\n<dtml-elif expr="y">\n  maybe\n<dtml-else>\n  no\n</dtml-if>\nz',
    '<dtml-in s size=2 orphan=0>\n <dtml-var sequence-item>\n<dtml-else>\n none\n</dtml-in>',
    '<dtml-try>\n<dtml-raise KeyError>k</dtml-raise>\n<dtml-except KeyError>\n got &dtml-error_type;\n<dtml-else>\n fine\n</dtml-try>',
    '<dtml-let a=x b="y+1">\n<dtml-with o only>\n<dtml-call "f()">\n</dtml-with>\n</dtml-let>',
    '<!--#if x-->\n<!--#var v fmt=upper-->\n<!--#else-->\n<!--#unless y-->u<!--#/unless-->\n<!--#endif-->',
    '<dtml-comment>\n<dtml-var x>\n</dtml-comment>\n<dtml-return "1">\n&dtml.lower-v;',
    '<dtml-try>\n a\n<dtml-finally>\n b\n</dtml-try><dtml-tree o branches=kids>\n<dtml-var id>\n</dtml-tree>',
]
BASES_E = [
    'a\n%(if x)[\n  yes %(v)s\n%(elif expr="y")[\n  maybe\n%(else)[\n  no\n%(if)]\nz',
    '%(in s size=2 orphan=0)[\n %(sequence-item)s\n%(else)[\n none\n%(in)]',
    '%(try)[\n%(raise KeyError)[k%(raise)]\n%(except KeyError)[\n got %(error_type)s\n%(else)[\n fine\n%(try)]',
    '%(let a=x b="y+1")[\n%(with o only)[\n%(call expr="f()")!\n%(with)]\n%(let)]',
    '%(comment)[\n%(x)s\n%(comment)]\n%(return expr="1")!\n%(v lower)10.3s',
]


def tags_of(syn, src):
    """spans of the tags in a valid base, found by the real scanner (only used to choose mutation sites)"""
    cls = front.template_class(syn)
    tr = cls('').tagre()
    spans, pos = [], 0
    while True:
        mo = tr.search(src, pos)
        if mo is None:
            break
        s = mo.start(0)
        e = s + len(mo.group(0))
        spans.append((s, e))
        pos = e
    return spans


def mutation_cases(tier, rng):
    out = []
    for syn, bases in (('html', BASES_H), ('epfs', BASES_E)):
        for b in bases:
            muts = {b}
            for i in range(len(b)):
                muts.add(b[:i] + b[i + 1:])                 # delete a character
                muts.add(b[:i] + b[i] + b[i:])              # duplicate a character
                if i + 1 < len(b):
                    muts.add(b[:i] + b[i + 1] + b[i] + b[i + 2:])   # swap adjacent characters
                muts.add(b[:i])                             # truncate
            sp = tags_of(syn, b)
            for k, (s, e) in enumerate(sp):
                muts.add(b[:s] + b[e:])                     # delete a tag
                muts.add(b[:e] + b[s:e] + b[e:])            # duplicate a tag
                if k + 1 < len(sp):
                    s2, e2 = sp[k + 1]
                    muts.add(b[:s] + b[s2:e2] + b[e:s2] + b[s:e] + b[e2:])   # swap adjacent tags
                # attribute level: drop / duplicate the last word of the tag
                inner = b[s:e]
                cut = inner.rfind(' ')
                if cut > 0:
                    close = inner[-1] if syn == 'html' else inner[inner.rfind(')'):]
                    muts.add(b[:s] + inner[:cut] + close + b[e:])
                    muts.add(b[:s] + inner[:len(inner) - len(close)] + inner[cut:len(inner) - len(close)] + close + b[e:])
            ms = sorted(muts)
            if tier == 'quick' and len(ms) > 260:
                keep = [b] + rng.sample(ms, 260)
                ms = keep
            for m in ms:
                out.append({'syn': syn, 'src': m, 'fam': 'mutation', 'canon': True})
    return out


FRAGS_H = ['<dtml-', '</dtml-', '<!--#', '-->', '>', '<', '&dtml-', '&dtml.', '&dtml', ';', '"', ' ', '\n', 'if', 'in',
           'var', 'else', 'end', '/', 'x', 'a=b', 'expr=', '"1+"', 'try', 'except', 'let', '-', '.', '=', 'comment',
           'with', '\t', 'raise', 'sequence-item', '\x01', 'É']
FRAGS_E = ['%(', ')', ')s', ')[', ')]', ')!', '"', ' ', '\n', 'if', 'in', 'var', 'else', 'x', 'a=b', 'expr=', '"1+"',
           'try', 'except', 'let', '/', '.', '-', '_', '1', '2.', ')d', '(', '%', 'with', '\t', 'raise', ')S', '\x01', 'ſ']


def soup_cases(tier, rng):
    out = []
    n = 6000 if tier == 'quick' else 80000
    for j in range(n):
        syn = 'html' if j % 2 else 'epfs'
        fr = FRAGS_H if syn == 'html' else FRAGS_E
        k = rng.randint(1, 14 if j % 10 else 40)
        out.append({'syn': syn, 'src': ''.join(rng.choice(fr) for _ in range(k)), 'fam': 'soup', 'canon': False})
    return out


# ---------------------------------------------------------------------------------------------
# time clause

PUMPS = [
    ('epfs', 'unterminated-args', '%(x ', 'a', ''),
    ('epfs', 'unterminated-quoted', '%(x a', '"b"c', ''),
    ('epfs', 'many-openers', '', '%(', ''),
    ('epfs', 'many-tags', '', '%(x)s', ''),
    ('epfs', 'nested-fmt-digits', '%(x)', '1', ''),
    ('html', 'unterminated-quote-tag', '<dtml-var x ', '">', ''),
    ('html', 'many-ssi-openers', '', '<!--#', ''),
    ('html', 'many-entity-openers', '', '&dtml-x', ''),
    ('html', 'many-dtml-openers', '', '<dtml-', ''),
    ('html', 'many-attrs', '<dtml-var x', ' lower', '>'),
    ('html', 'many-tags', '', '<dtml-var x>', ''),
    ('html', 'long-quoted-attr', '<dtml-var x fmt="', 'a', '">'),
    ('html', 'sequential-blocks', '', '<dtml-if x>a</dtml-if>\n', ''),
    ('html', 'let-bindings', '<dtml-let', ' a=b', '>x</dtml-let>'),
]

_TIMER = r'''
import sys, time, json
sys.path.insert(0, %r)
sys.setrecursionlimit(1000)
from DocumentTemplate.DT_HTML import HTML
from DocumentTemplate.DT_String import String
from DocumentTemplate.DT_Util import ParseError
syn, src = json.loads(sys.stdin.read())
t = (String if syn == 'epfs' else HTML)(src)
t0 = time.process_time()
try:
    t.cook(); r = 'ok'
except ParseError: r = 'ParseError'
except SyntaxError: r = 'SyntaxError'
except BaseException as e: r = type(e).__name__
print(json.dumps([time.process_time() - t0, r]))
'''


def cpu_time(syn, src, limit):
    try:
        p = subprocess.run([sys.executable, '-c', _TIMER % common.SRC], input=json.dumps([syn, src]), text=True,
                           capture_output=True, timeout=limit)
        return json.loads(p.stdout.strip().splitlines()[-1])
    except subprocess.TimeoutExpired:
        return [float(limit), 'TIMEOUT']
    except Exception as e:  # noqa
        return [0.0, 'MACHINERY %s' % e]


def _pump(job):
    syn, name, pre, rep, post, n, limit = job
    return (name, n, cpu_time(syn, pre + rep * n + post, limit))


def time_clause(V, tier):
    """cubic envelope: t(4n) <= 64 * max(t(n), floor) + slack; re-measured once before reporting"""
    sizes = (12, 18, 24) if tier == 'quick' else (12, 18, 24, 30)
    big = (200, 800, 3200)
    jobs = []
    for syn, name, pre, rep, post in PUMPS:
        for n in sizes + big:
            jobs.append((syn, name, pre, rep, post, n, 20))
    res = {}
    for name, n, r in common.pool_map(_pump, jobs, chunk=1, per_case=60):
        res.setdefault(name, {})[n] = r
    for syn, name, pre, rep, post in PUMPS:
        r = res[name]
        V.count('timing_measurements', len(r))
        worst = None
        for n in sorted(r):
            t, outc = r[n]
            base = max(r[min(r)][0], 0.002)
            envelope = base * (n / min(r)) ** 3 * 8 + 0.25
            if outc == 'TIMEOUT' or t > envelope:
                worst = (n, t, outc, envelope)
                break
        if worst:
            n, t, outc, envelope = worst
            t2, outc2 = cpu_time(syn, pre + rep * n + post, 30)          # re-measure before reporting
            if outc2 == 'TIMEOUT' or t2 > envelope:
                V.violation({'kind': 'time', 'family': name, 'syn': syn, 'n': n, 'cpu_s': round(t2, 3),
                             'envelope_s': round(envelope, 3), 'source_shape': repr(pre) + ' + ' + repr(rep) + '*n + ' + repr(post),
                             'cls': 'superpolynomial-' + name})
        V.notes.setdefault('timing', {})[name] = {str(n): round(r[n][0], 4) for n in sorted(r)}


def depth_clause(V, tier):
    """deeply nested blocks: the only exceptions allowed are ParseError / SyntaxError"""
    for syn, opn, cls in (('html', '<dtml-if x>', '</dtml-if>'), ('epfs', '%(if x)[', '%(if)]')):
        for closed in (False, True):
            for d in (50, 150, 400, 1000):
                src = opn * d + (cls * d if closed else '')
                t, outc = cpu_time(syn, src, 120)
                V.count('depth_measurements')
                if outc not in ('ok', 'ParseError', 'SyntaxError'):
                    V.violation({'kind': 'exception-type', 'family': 'nested-open', 'syn': syn, 'depth': d, 'closed': closed,
                                 'exception': outc, 'cls': 'deep-nesting'})


def main(tier):
    V = common.Verdicts(PID, tier)
    rng = random.Random(common.seed())
    cases = (seq_cases(tier, rng) + chain_cases(tier, rng) + attr_cases(tier, rng) + mutation_cases(tier, rng) + soup_cases(tier, rng)
             + name_cases(tier, rng))
    seen, uniq = set(), []
    for c in cases:
        k = (c['syn'], c['src'])
        if k not in seen:
            seen.add(k)
            uniq.append(c)
    cases = uniq
    models, stats = front_common.run_machine(cases, coverage=(tier == 'thorough'))
    results = front_common.compare_all(cases, models)
    drift = 0
    outcomes = {}
    for r in results:
        if '_crash' in r:
            common.machinery_failure('harness crash: %s' % repr(r)[:1500])
        if '_timeout' in r:
            c = cases[r['case']]
            V.violation({'kind': 'no-termination', 'syn': c['syn'], 'source': c['src'], 'cls': 'hang'})
            continue
        c = cases[r['i']]
        V.count('sources_' + c['fam'])
        outcomes[r['k']] = outcomes.get(r['k'], 0) + 1
        if not r['bad']:
            V.count('behaviours_conform')
            continue
        for clause, detail in r['bad']:
            claimed = clause in ('exception-type',) or (c['canon'] and clause in (
                'accept-reject', 'exception-class', 'named-tag', 'line', 'message-shape'))
            if claimed:
                V.violation({'kind': 'departure', 'clause': clause, 'syn': c['syn'], 'source': c['src'],
                             'family': c['fam'], 'detail': detail, 'cls': clause})
                break
        else:
            drift += 1
            for clause, _ in r['bad']:
                V.count('drift_' + clause)       # model-tagged clauses: search log, message wording, program shape
    time_clause(V, tier)
    depth_clause(V, tier)
    from checks import c06_regex
    rres = c06_regex.run(V, tier)
    stats['states'] += rres.distinct
    stats['transitions'] += rres.generated
    cov = {'states': stats['states'], 'transitions': stats['transitions'], 'regular_expressions': V.notes.get('regex'),
           'traces_validated_against_impl': V.counters.get('behaviours_conform', 0),
           'sources': len(cases), 'drift_on_soups': drift, 'outcomes_of_the_code': outcomes,
           'exhaustive': True, 'actions_covered': stats['coverage'], 'timing': V.notes.get('timing'),
           'rule': 'item sequences (16 items, all up to length %d + random to 8; dtml, SSI and EPFS spellings), attribute '
                   'lists per tag (all up to length %d), single mutations and every truncation of %d valid templates, '
                   'random fragment soups, case variants / class names / near misses of every tag name in every position; every search of the real scanner is compared with the machine\'s'
                   % (3 if tier == 'quick' else 4, 2 if tier == 'quick' else 3, len(BASES_H) + len(BASES_E)),
           'samples': [{'syn': cases[i]['syn'], 'source': cases[i]['src']} for i in (7, len(cases) // 3, len(cases) // 2, len(cases) - 5)]}
    return V.finish(cov, assumptions=[
        'Python\'s own parser (ast.parse) decides which expression texts are invalid (passed to the machine as data)',
        'CPU time of cook() is measured, not modelled: cubic envelope with a re-measurement before reporting; the inputs measured are fixed pump '
        'families plus the witnesses (prefix, pump) of every exponentially ambiguous loop TLC finds in the automata of the patterns the package compiles (DTRegexAmb)',
        'TreeDisplay is imported, so dtml-tree is a known block tag'])


def replay_file(path):
    data = json.load(open(path))
    n = 0
    for v in data['violations']:
        if v.get('source') is not None:
            real, _ = front.real_compile(v['syn'], v['source'])
            print(json.dumps({'source': v['source'], 'clause': v.get('clause'), 'code_now': {k: real[k] for k in real if k != 'scans'},
                              'expected': v.get('detail')}, default=repr)[:1500])
        else:
            print(json.dumps(v)[:1200])
        n += 1
    return 1 if n else 0
