"""C11, links through the query string (spec/DTQuery.tla).

A batched dtml-in whose start is given through a variable NAME offers `sequence-query`: the request's query string without the
NAME parameter, ready for `NAME=<next-sequence-start-number>` to be appended.  TLC runs the DTQuery machine (the transcription
of sequence_variables.query, one action per statement group) on every query string of the tier and checks Q_Shape, Q_Others,
Q_StartGone, Q_Stable, Q_Agree.  Spec -> code: every exported result is compared with what the real tag inserts (a departure
in the text alone is model-tagged drift: the property does not speak about the text).  Claimed under C11: *following* the link
-- the query the tag produced plus NAME=<announced start>, parsed the way a web server parses it -- shows the batch that was
announced, again with the same query, until every element has been shown in order.
"""
import itertools
import json
import urllib.parse

from harness import common, tlc

PARAMS = ['a=1', 'b=', 'qs=2', 'qs=x', 'xqs=3', 'qs=45', 'c=d=e', 'q', 'qs', 'qs=', 'qs=7a', 'zz=qs=9', 'a=%26', 'qs=007']
NAME = 'qs'


def cp(s):
    return [ord(c) for c in s]


def is_start(p):
    return p.startswith(NAME + '=') and len(p) > len(NAME) + 1 and p[len(NAME) + 1:].isdigit()


def strings(tier, rng):
    out = set()
    for n in (0, 1, 2, 3):
        combos = list(itertools.product(PARAMS, repeat=n))
        if n == 3 and tier == 'quick':
            combos = rng.sample(combos, 500)
        for ps in combos:
            for pre in ('', '?', '&', '?&'):
                for suf in ('', '&', '&&'):
                    for sep in ('&', '&&'):
                        if n < 2 and sep == '&&':
                            continue
                        if n == 3 and (len(pre) + len(suf) + len(sep)) % 3:
                            continue
                        out.add(pre + sep.join(ps) + suf)
    return sorted(out)


_t = {}


def render(qs, start):
    from DocumentTemplate.DT_HTML import HTML
    t = _t.get('t')
    if t is None:
        t = _t['t'] = HTML('<dtml-in seq start=%s size=2 overlap=ov>'
                           '<dtml-if sequence-start>Q[<dtml-var sequence-query>]</dtml-if>'
                           '<dtml-var sequence-item>,'
                           '<dtml-if sequence-end>N[<dtml-if next-sequence><dtml-var next-sequence-start-number></dtml-if>]</dtml-if>'
                           '</dtml-in>' % NAME)
    return t(seq=list(range(1, 8)), QUERY_STRING=qs, ov=0, **{NAME: start})


def parse(out):
    q = out[out.index('Q[') + 2:out.index(']', out.index('Q['))]
    body = out[out.index(']', out.index('Q[')) + 1:out.index('N[')]
    nxt = out[out.index('N[') + 2:-1]
    return q, [int(x) for x in body.split(',') if x], nxt


def observe(qs):
    """the real tag on this query string: its sequence-query, and what following its links shows"""
    rec = {'qs': qs}
    try:
        q, items, nxt = parse(render(qs, 1))
    except Exception as e:  # noqa
        rec['err'] = '%s: %s' % (type(e).__name__, str(e)[:100])
        return rec
    rec['q'] = q
    shown = list(items)
    cur_q, steps = q, 0
    bad = None
    while nxt and steps < 10:
        steps += 1
        link = cur_q[1:] + '%s=%s' % (NAME, nxt)
        vals = urllib.parse.parse_qs(link, keep_blank_values=True).get(NAME)
        if not vals or not vals[-1].isdigit():
            bad = 'the link %r does not carry %s=%s' % (link, NAME, nxt)
            break
        try:
            q2, items, nxt2 = parse(render(link, int(vals[-1])))
        except Exception as e:  # noqa
            bad = 'following %r raised %s' % (link, type(e).__name__)
            break
        if not items or items[0] != int(nxt):
            bad = 'following %r shows %r, announced was %s' % (link, items, nxt)
            break
        if q2 != cur_q:
            bad = 'the page reached by %r offers another query (%r, was %r)' % (link, q2, cur_q)
            break
        shown += items
        nxt = nxt2
    rec['shown'] = shown
    rec['bad'] = bad
    return rec


def stage(V, tier, rng):
    qss = strings(tier, rng)
    cases = [{'qs': cp(q), 'name': cp(NAME), 'n': cp('5')} for q in qss]
    cfg = ('SPECIFICATION Spec\nINVARIANT Q_Shape\nINVARIANT Q_Others\nINVARIANT Q_StartGone\nINVARIANT Q_Stable\n'
           'INVARIANT Q_Agree\nINVARIANT Export\nCHECK_DEADLOCK FALSE\n')
    out = {}
    res = tlc.run('DTQuery', cfg, files={'qcases.json': json.dumps(cases)}, on_print=lambda v: out.__setitem__(v['tid'], v),
                  keep_prints=False, timeout=1800)
    if res.violated:
        raise tlc.TLCFailure('DTQuery violates %s\n%s' % (res.violated, (res.error_trace or '')[:1500]))
    if len(out) != len(cases):
        raise tlc.TLCFailure('DTQuery exported %d results for %d cases' % (len(out), len(cases)))
    drift = 0
    for i, rec in enumerate(common.pool_map(observe, qss, chunk=300, per_case=30), 1):
        if '_crash' in rec or '_timeout' in rec:
            common.machinery_failure('query driver: %s' % repr(rec)[:600])
        V.count('query_strings_replayed')
        model = ''.join(chr(c) for c in out[i]['q'])
        if 'err' in rec:
            V.violation({'kind': 'query-link', 'query_string': rec['qs'], 'error': rec['err'], 'cls': 'query-raises'})
            continue
        if rec['q'] != model:
            drift += 1
            if drift <= 5:
                V.notes.setdefault('query_text_drift', []).append({'query_string': rec['qs'], 'machine': model, 'code': rec['q']})
        nstart = sum(1 for p in rec['qs'].lstrip('?&').split('&') if is_start(p))
        if nstart <= 1 and (rec['bad'] or rec['shown'] != list(range(1, 8))):
            V.violation({'kind': 'query-link', 'query_string': rec['qs'], 'sequence_query': rec['q'], 'elements_shown': rec['shown'],
                         'detail': rec['bad'] or 'following the links does not show every element once, in order',
                         'cls': 'query-link'})
        else:
            V.count('query_link_chains_followed')
    V.count('query_text_drift', drift)
    return res.distinct, res.generated, len(qss)
