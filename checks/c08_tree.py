"""C08, second stage: executions the DTRender machine does not generate (dtml-tree in every mode, nested in
other blocks, with faults in branches / id / url / body callables) are recorded -- every TemplateDict push
and pop while the template runs as a sub-template on an existing namespace -- and validated by TLC against
the projection specification spec/ObsStack.tla: at exit the stack holds exactly the frames of entry and the
level is the entry level, on every exit path."""
import itertools
import json
import os
import subprocess
import sys
import tempfile

from harness import common, tlc

SRCS = {
    'tree-branches': '<dtml-tree root branches=kids>R:<dtml-var tpId>;</dtml-tree>|<dtml-var probe>',
    'tree-expr': '<dtml-tree root branches_expr="kids()">R:<dtml-var tpId>;</dtml-tree>|<dtml-var probe>',
    'tree-body-call': '<dtml-tree root branches=kids>R:<dtml-var tpId><dtml-var f1>;</dtml-tree>|<dtml-var probe>',
    'tree-in-try': '<dtml-try><dtml-tree root branches_expr="kids()">R:<dtml-var tpId><dtml-var f1>;</dtml-tree>'
                   '<dtml-except>caught</dtml-try>|<dtml-var probe>|<dtml-var tpId missing=no-id>',
    'tree-in-in': '<dtml-in outer><dtml-with o><dtml-tree root branches_expr="kids()">R:<dtml-var tpId>;</dtml-tree>'
                  '</dtml-with></dtml-in>|<dtml-var probe>',
    'tree-return': '<dtml-tree root branches=kids>R:<dtml-var tpId><dtml-if "tpId == \'n3\'"><dtml-return f1></dtml-if>;</dtml-tree>',
    'tree-opts': '<dtml-tree root branches_expr="kids()" sort=tpId reverse header=hd footer=ft nowrap=1 prefix=tp>'
                 'R:<dtml-var tpId>;</dtml-tree>|<dtml-var probe>',
}
# documents named by leaves= / expand= / header= / footer=, present in the namespace or not (the tag tolerates a missing one)
SRCS['tree-leaves-missing'] = '<dtml-tree root branches=kids leaves=nolf>R:<dtml-var tpId>;</dtml-tree>|<dtml-var probe>'
SRCS['tree-expand-missing'] = '<dtml-tree root branches=kids expand=noex header=nohd footer=noft>R:<dtml-var tpId>;</dtml-tree>|<dtml-var probe>'
SRCS['tree-leaves-expand'] = ('<dtml-tree root branches_expr="kids()" leaves=lfdoc header=lfdoc>R:<dtml-var tpId>;</dtml-tree>|'
                              '<dtml-tree root branches=kids expand=lfdoc>R:<dtml-var tpId>;</dtml-tree>|<dtml-var probe>')
# the same call with a client: none, one object, a tuple ("path") of 0..3 objects -- every client is one frame to pop
_CLIENT_SRC = '<dtml-var nid>|<dtml-in outer><dtml-var f1><dtml-var tpId></dtml-in>|<dtml-with o><dtml-var f1></dtml-with>|<dtml-var probe>'
for _k in ('0', '1', '1t', '2', '3'):
    SRCS['clients-' + _k] = _CLIENT_SRC
# a template that calls itself until the recursion limit of the namespace refuses the call (SystemError): the refused call,
# like every other, leaves the namespace as it found it -- with keyword arguments per level, with defaults of the template
SRCS['recursion-kw'] = ('<dtml-try><dtml-var "rec(nil, _, depth=depth+1)"><dtml-except SystemError>caught@<dtml-var depth></dtml-try>'
                        '|<dtml-var probe>')
SRCS['recursion-defaults'] = ('<dtml-try><dtml-var rec><dtml-except SystemError>caught:<dtml-var dflt></dtml-try>|<dtml-var probe>')
SRCS['recursion-python'] = '<dtml-var "rec(nil, _, depth=depth+1)">|<dtml-var probe>'
MODES = [{}, {'expand_all': 1}, {'collapse_all': 1}, 'cookie', 'click', 'expleaf']


class Fault(Exception):
    pass


class Ctl:
    n = 0
    at = None
    kind = None


def tick():
    from DocumentTemplate.DT_Return import DTReturn
    Ctl.n += 1
    if Ctl.at is not None and Ctl.n == Ctl.at:
        if Ctl.kind == 'return':
            raise DTReturn('RV')
        if Ctl.kind == 'key':
            raise KeyError('fault')
        raise Fault('fault')


class Node:
    def __init__(self, nid, kids=()):
        self.nid, self._kids = nid, list(kids)

    def tpId(self):
        tick()
        return self.nid

    def tpURL(self):
        tick()
        return 'u-' + self.nid

    def kids(self):
        tick()
        return self._kids


class Resp:
    cookie = None

    def setCookie(self, name, value, **kw):
        if name == 'tree-s':
            self.cookie = value


def tree():
    return Node('n1', [Node('n2', [Node('n4'), Node('n5', [Node('n6')])]), Node('n3', [Node('n7')])])


_rec = {'on': False, 'root': None, 'ev': [], 'next': 1}
_installed = [False]


def install():
    if _installed[0]:
        return
    _installed[0] = True
    from DocumentTemplate._DocumentTemplate import TemplateDict
    op, oo = TemplateDict._push, TemplateDict._pop

    def _push(self, src):
        r = op(self, src)
        if _rec['on'] and self is _rec['root']:
            _rec['ev'].append({'e': 'push', 'id': _rec['next']})
            _rec['next'] += 1
        return r

    def _pop(self, i=1):
        if _rec['on'] and self is _rec['root']:
            _rec['ev'].append({'e': 'pop', 'n': i})
        return oo(self, i)
    TemplateDict._push = _push
    TemplateDict._pop = _pop


_T = {}


_K = {}


def _subclass(base):
    c = _K.get('cls')
    if c is None:
        c = _K['cls'] = type('CallerNamespace', (base,), {})
    return c


def run(src_name, mode, at, kind):
    """one call of the template as a sub-template on a prepared namespace; returns the trace record"""
    from DocumentTemplate._DocumentTemplate import TemplateDict
    from DocumentTemplate.DT_HTML import HTML
    install()
    t = _T.get(src_name)
    if t is None:
        t = _T[src_name] = HTML(SRCS[src_name], dflt='D') if src_name == 'recursion-defaults' else HTML(SRCS[src_name])
        t.cook()
    if src_name.startswith('recursion'):
        sys.setrecursionlimit(max(sys.getrecursionlimit(), 30000))
    root = tree()
    resp = Resp()

    class F:
        def __call__(self):
            tick()
            return 'F'
    base = {'URL': 'http://h/doc', 'RESPONSE': resp, 'root': root, 'probe': 'outer-probe', 'f1': F(), 'outer': [1, 2],
            'o': Node('o'), 'hd': 'H', 'ft': 'F', 'lfdoc': HTML('L:<dtml-var tpId><dtml-var f1>;'), 'rec': t, 'depth': 0, 'nil': None}
    kw = {}
    if mode in ('cookie', 'click'):
        # a first, fault-free request to obtain a cookie (and a link)
        Ctl.at = None
        md0 = TemplateDict()
        md0.guarded_getattr = md0.guarded_getitem = None
        md0._push(dict(base, expand_all=1))
        HTML('<dtml-tree root branches=kids>x</dtml-tree>')(None, md0)
        kw['tree-s'] = resp.cookie
        if mode == 'click':
            from TreeDisplay.TreeTag import encode_seq
            kw['tree-c'] = encode_seq(['n1', 'n2'])
    elif mode == 'expleaf':
        from TreeDisplay.TreeTag import encode_seq
        kw['tree-e'] = encode_seq(['n1', 'n3', 'n7'])          # the expand link of a childless node (leaves=)
    elif mode:
        kw.update(mode)
    # (callers' namespaces are often instances of a subclass -- the restricted namespace of an application server)
    _K['n'] = _K.get('n', 0) + 1
    md = (_subclass(TemplateDict) if _K['n'] % 2 else TemplateDict)()
    md.guarded_getattr = md.guarded_getitem = None      # what String.__call__ sets on a namespace it creates
    md._push({'probe': 'bottom'})
    md._push(dict(base, **kw))
    before = [id(f) for f in md._data]
    level0 = md.level
    Ctl.n, Ctl.at, Ctl.kind = 0, at, kind
    _rec.update(on=True, root=md, ev=[{'e': 'enter', 'level': level0}], next=1)
    try:
        client = None
        if src_name.startswith('clients-'):
            k = src_name.split('-')[1]
            objs = [Node('c1'), Node('c2'), Node('c3')][:int(k[0])]
            client = objs[0] if k == '1' else tuple(objs)
        try:
            out = t(client, md)
            how = 'ok'
        except BaseException as e:  # noqa
            out = '%s: %s' % (type(e).__name__, str(e)[:60])
            how = 'exc'
    finally:
        _rec['on'] = False
    ev = _rec['ev'] + [{'e': 'exit', 'level': md.level, 'how': how}]
    after = [id(f) for f in md._data]
    return {'src': src_name, 'mode': mode if isinstance(mode, str) else sorted(mode), 'at': at, 'kind': kind, 'ev': ev,
            'initial': [0, -1], 'same_frames': before == after, 'level_same': md.level == level0, 'ninv': Ctl.n, 'out': str(out)[:300],
            'source': SRCS[src_name]}


def stage(V, tier):
    recs = []
    for name in SRCS:
        for mode in (MODES if not name.startswith('recursion') else MODES[:1]):
            r0 = run(name, mode, None, None)
            recs.append(r0)
            kmax = r0['ninv'] if tier == 'thorough' else min(r0['ninv'], 14)
            for k in range(1, kmax + 1):
                for kind in ('fault', 'key', 'return'):
                    recs.append(run(name, mode, k, kind))
    # binding self-test: the same traces with one pop removed must be flagged by the specification
    n_real = len(recs)
    for r in recs[:40]:
        pops = [i for i, e in enumerate(r['ev']) if e['e'] == 'pop']
        if pops:
            recs.append(dict(r, ev=r['ev'][:pops[-1]] + r['ev'][pops[-1] + 1:], corrupted=True))
    out = {}
    res = tlc.run('ObsStack', 'SPECIFICATION Spec\nINVARIANT Verdict\nCHECK_DEADLOCK FALSE\n',
                  files={'traces.json': json.dumps([{'ev': [dict(e) for e in r['ev']], 'initial': r['initial']} for r in recs])},
                  on_print=lambda v: out.__setitem__(v['tid'], v), keep_prints=False, timeout=1800)
    if res.violated:
        raise tlc.TLCFailure('ObsStack: %s' % res.violated)
    for i, r in enumerate(recs, 1):
        v = out.get(i)
        if v is None:
            raise tlc.TLCFailure('no verdict for stack trace %d' % i)
        if r.get('corrupted'):
            if not v['bad']:
                common.machinery_failure('binding self-test: a stack trace with a pop removed was accepted by ObsStack')
            V.count('binding_selftest_corrupted_traces_rejected')
            continue
        V.count('tree_traces_validated')
        if v['bad'] or v['open'] or not r['same_frames'] or not r['level_same']:
            V.violation({'kind': 'stack', 'clause': v['bad'] or 'frames differ', 'source': r['source'], 'mode': r['mode'],
                         'fault_at_invocation': r['at'], 'fault_kind': r['kind'], 'result': r['out'],
                         'pushes_pops': [(e['e'], e.get('n', e.get('id'))) for e in r['ev']][:40],
                         'cls': 'tree-' + (v['bad'] or 'frames')})
        else:
            V.count('behaviours_conform')
    return {'tree_stack_traces': n_real, 'tree_states': res.distinct}


def repo_test_files():
    import glob
    d = os.path.join(common.REPO, 'src', 'DocumentTemplate', 'tests')
    return sorted(glob.glob(os.path.join(d, 'test*.py'))) + [os.path.join(common.REPO, 'src', 'TreeDisplay', 'tests.py')]


def repo_tests_stage(V, tier):
    """the repository's own tests (the 94 pinned ones and the 143 of the modules the pinned run does not collect), executed
    under the recorder plugin; every block-body rendering of every test is an enter / exit pair validated by ObsStack"""
    fd, path = tempfile.mkstemp(prefix='verif-traces-', suffix='.json', dir=os.environ.get('VERIF_SCRATCH', '/tmp'))
    os.close(fd)
    try:
        env = dict(os.environ, VERIF_TRACE_OUT=path, PYTHONPATH=common.VERIF + os.pathsep + common.SRC)
        p = subprocess.run([sys.executable, '-m', 'pytest', '-q', '-p', 'no:cacheprovider', '-p', 'harness.pytest_recorder'] + repo_test_files(),
                           cwd=common.REPO, env=env, capture_output=True, text=True, timeout=1200)
        tail = (p.stdout or '').strip().splitlines()[-1:] if p.stdout else []
        try:
            traces = json.load(open(path))
        except Exception:
            raise tlc.TLCFailure('the recorder plugin wrote no traces: %s %s' % (tail, (p.stderr or '')[-400:]))
    finally:
        try:
            os.remove(path)
        except OSError:
            pass
    traces = [t for t in traces if not t['truncated']]
    out = {}
    res = tlc.run('ObsStack', 'SPECIFICATION Spec\nINVARIANT Verdict\nCHECK_DEADLOCK FALSE\n',
                  files={'traces.json': json.dumps([{'ev': t['ev'], 'initial': t['initial']} for t in traces])},
                  on_print=lambda v: out.__setitem__(v['tid'], v), keep_prints=False, timeout=1800)
    if res.violated:
        raise tlc.TLCFailure('ObsStack: %s' % res.violated)
    nev = 0
    for i, t in enumerate(traces, 1):
        v = out.get(i)
        if v is None:
            raise tlc.TLCFailure('no verdict for recorded trace %d' % i)
        nev += len(t['ev'])
        V.count('repo_test_traces_validated')
        if v['bad']:
            V.violation({'kind': 'stack', 'clause': v['bad'], 'test': t['test'],
                         'pushes_pops': [(e['e'], e.get('n', e.get('id', e.get('site')))) for e in t['ev']][:60], 'cls': 'repo-test-' + v['bad']})
        else:
            V.count('behaviours_conform')
    return {'repo_tests_run': ' '.join(tail), 'repo_test_namespaces_traced': len(traces), 'repo_test_events': nev,
            'tree_states': res.distinct}


def stages(V, tier):
    a = stage(V, tier)
    b = repo_tests_stage(V, tier)
    b['tree_states'] += a.pop('tree_states', 0)
    a.update(b)
    return a
