"""C18 -- concurrent renders of one shared template give sequential results.

Machine: spec/DTConc.tla -- threads x the compile lock, _v_blocks / _v_cooked and the attributes of the
shared compiled tag objects; the cook protocol is modelled action by action, the render-phase access
programs are extracted from the real code by a solo pre-pass under access hooks.  TLC checks Published,
LockDiscipline (and deadlock freedom) and enumerates every interleaving at access granularity (2 threads
exhaustively, 3 threads with <= 2 preemptions), exporting the schedule and, per schedule, which threads
would crash on a missing block list (NoPartialTemplate) or read another render's value (Isolation).

Binding
 A (spec -> code): every exported schedule is replayed with real threads under the deterministic
   scheduler (harness/sched.py: threads park before every shared access); each thread's result must be
   its solo result; the real access at each step is compared with the machine's action (drift).
 B (the property's own quantifier): line-granularity schedules of the package's code -- every
   single-preemption schedule of cooked templates and a systematic sample for compiling ones (thorough:
   all), two preemptions and PCT-random priorities beyond; per-thread result = solo result.
 C (code -> spec): the shared-access traces recorded in B are validated by TLC against DTConc
   (spec/ObsConc.tla): every recorded access must be an enabled action, in order.
 The fingerprint pre-pass (line mode, solo) lists every line that changes shared compiled state; a
 change not reported by the access hooks is recorded as drift (proviso of stage A).
"""
import json
import random
import sys

from harness import common, sched, tlc

sys.setrecursionlimit(max(sys.getrecursionlimit(), 20000))

PID = 'C18'


class O:
    def __init__(self, **kw):
        self.__dict__.update(kw)


class Guarded:
    """template class mixin supplying guards (restricted expressions: lazily compiled code on shared Eval objects)"""

    def guarded_getattr(self, ob, name):
        return getattr(ob, name)

    def guarded_getitem(self, ob, i):
        return ob[i]


SUB_SRC = '[<dtml-var w> <dtml-if w>t<dtml-else>f</dtml-if>]'

SCENARIOS = {
    'in-sort-reverse': dict(
        src='<dtml-in seq sort_expr="key"><dtml-var x>,</dtml-in>|<dtml-in seq reverse_expr="rev"><dtml-var x></dtml-in>|'
            '<dtml-if a>A<dtml-else>B</dtml-if><dtml-in seq sort=y size=2 reverse_expr="rev"><dtml-var y></dtml-in>'),
    'blocks': dict(
        src='<dtml-let v="a+1" u=a><dtml-var v>:<dtml-var u></dtml-let><dtml-with o>&dtml-p;</dtml-with>'
            '<dtml-try><dtml-raise KeyError>k<dtml-var a></dtml-raise><dtml-except KeyError>E&dtml-error_value;'
            '</dtml-try><dtml-unless a>U</dtml-unless><dtml-call "seq.append(a)"><dtml-comment>c</dtml-comment>'
            '<dtml-var expr="len(seq)"><dtml-try>x<dtml-finally>F</dtml-try><dtml-if expr="a > 0">pos<dtml-elif a>nz<dtml-else>zero</dtml-if>'
            # (a namespace of its own for the body: this render's own)
            '<dtml-with o only><dtml-var p><dtml-let q=p>&dtml-q;</dtml-let><dtml-if p><dtml-var p></dtml-if></dtml-with>'),
    'batch': dict(
        src='<dtml-in seq size=2 start=st orphan=0 prefix=it sort=x><dtml-var it_item fmt=upper size=3>'
            '<dtml-if sequence-end>(<dtml-var next-sequence-start-number missing=none>)</dtml-if></dtml-in>'
            '<dtml-in seq reverse><dtml-var sequence-index></dtml-in><dtml-in emp>x<dtml-else>none</dtml-in>'),
    'subtemplate': dict(
        src='<dtml-var sub><dtml-in seq sort_expr="key"><dtml-var sub></dtml-in><dtml-var a>', sub=True),
    'restricted': dict(
        src='<dtml-var expr="o.p + _.str(a)"><dtml-in expr="seq" sort_expr="key"><dtml-var expr="x + y"></dtml-in>'
            '<dtml-if expr="a and o.p">T</dtml-if>', guarded=True),
    # dtml-return travels as an exception through finally bodies and handlers of the render that raised it
    'return': dict(
        src='<dtml-try><dtml-in seq><dtml-if expr="x == 2"><dtml-try><dtml-return expr="(a, o.p, x + a)"><dtml-finally>'
            '<dtml-var a></dtml-try></dtml-if></dtml-in><dtml-finally><dtml-call "seq.append(a)"><dtml-var w></dtml-try>'),
    # var tags with several options each (whatever a tag prepares for its options is prepared before it is shared)
    'modifiers': dict(
        src='<dtml-var who html_quote upper spacify size=30 etc="~"><dtml-in seq><dtml-var x url_quote lower thousands_commas>,'
            '</dtml-in><dtml-var who null=n newline_to_br sql_quote>&dtml.upper.url_quote_plus-who;'),
    # the client object of the call: reached by name and as _.this
    'client': dict(
        src='<dtml-var p>/<dtml-var expr="_.this.p"><dtml-in seq><dtml-var expr="_.this.p + _.str(x)"></dtml-in>'
            '<dtml-with o><dtml-var expr="_.this.p">:<dtml-var p></dtml-with>', client=True),
    # sort specifications with comparison functions from the thread's own namespace, in a process that has served many
    # different requests before (whatever the package remembers per sort field, per expression, ... has grown large)
    'sortspec': dict(
        src='<dtml-in seq sort="x/cf,y/cmp"><dtml-var x></dtml-in>|<dtml-in seq sort_expr="sx"><dtml-var y>,</dtml-in>', served=5),
    # a markup format (structured text) of a per-thread document, again in a process that has formatted many documents before
    'stx': dict(
        src='<dtml-var doc fmt=structured-text>|<dtml-in seq><dtml-var x></dtml-in>', served=5, serve='stx'),
    # one object all threads reach (a site-wide configuration object, a template default): its attributes are computed, and
    # computing them runs template code of its own
    'computed': dict(
        src='<dtml-with shared><dtml-var title>:<dtml-var a>;<dtml-if motto><dtml-var motto></dtml-if></dtml-with>|<dtml-var expr="shared.title">'),
    'epfs': dict(
        src='%(in seq sort_expr="key")[%(x)s,%(in)]%(if a)[A%(else)[B%(if)]%(a)05d', epfs=True),
}


def _cf_asc(a, b):
    return (a > b) - (a < b)


def _cf_desc(a, b):
    return (a < b) - (a > b)


_served = {'n': 0}


def _serve_one(what):
    """one more earlier request, with a sort specification (a document to format) nobody has used before"""
    from DocumentTemplate.DT_HTML import HTML
    _served['n'] += 1
    d = _served['n']
    if what == 'stx':
        t = _served.get('stx')
        if t is None:
            t = _served['stx'] = HTML('<dtml-var doc fmt=structured-text>')
        t(doc='earlier document %d' % d)
        return
    t = _served.get('t')
    if t is None:
        t = _served['t'] = HTML('<dtml-in seq sort_expr="sx"><dtml-var x></dtml-in>')
    t(seq=[O(x=1, y=2), O(x=2, y=1)], sx='f%d/cmp,g%d/nocase/desc' % (d, d))


def _pkg_containers():
    """module-level dicts / lists / sets of the package: what a process accumulates while it serves requests"""
    out = []
    for mn, m in list(sys.modules.items()):
        if m is None or not (mn.startswith('DocumentTemplate') or mn.startswith('TreeDisplay')) or '.tests' in mn:
            continue
        for an, v in list(vars(m).items()):
            if not an.startswith('__') and type(v) in (dict, list, set):
                out.append(('%s.%s' % (mn, an), v))
    return out


def serve_requests(n, what='sort'):
    """the process has served earlier requests.  At least n of them; and when serving shows that some module-level container of
    the package is bounded (it grows request by request and then shrinks: something is evicted), serving goes on until that
    container is one request short of its largest size -- the state in which the next two requests (the racing threads) make it
    overflow.  What is bounded, and at which size, is learnt by observation, once per process and kind of request"""
    for _ in range(n):
        _serve_one(what)
    key = 'brink-' + what
    if key not in _served:
        conts = _pkg_containers()
        hist = {name: [len(c)] for name, c in conts}
        found = None
        for _ in range(600):
            _serve_one(what)
            for name, c in conts:
                h = hist[name]
                h.append(len(c))
                if found is None and len(h) >= 3 and h[-1] < h[-2]:
                    found = (name, c, h[-3])          # the size one request before the largest size
            if found:
                break
        _served[key] = found
    found = _served[key]
    if found:
        name, c, pre_peak = found
        for _ in range(1200):
            if len(c) == pre_peak:
                break
            _serve_one(what)


class Shared:
    """attributes computed on access by rendering small templates (so that a thread can be preempted half way through)"""

    _t = {}

    def _render(self, key, src, **kw):
        from DocumentTemplate.DT_HTML import HTML
        t = self._t.get(key)
        if t is None:
            t = self._t[key] = HTML(src)
            t.cook()
        return t(**kw)

    @property
    def title(self):
        return self._render('title', 'Annual <dtml-if yes>report<dtml-else>-</dtml-if> <dtml-var n>', yes=1, n=7)

    @property
    def motto(self):
        return self._render('motto', '<dtml-in ws><dtml-var sequence-item> </dtml-in>', ws=['per', 'aspera'])


SHARED = Shared()


def namespace(name, i):
    seq = [O(x=1, y=3, w=i), O(x=2, y=2, w=0), O(x=3, y=1, w=i)]
    ns = {'seq': seq, 'key': 'x' if i % 2 == 0 else 'y', 'rev': i % 2 == 0, 'a': i, 'o': O(p='p%d' % i), 'st': 1 + i % 2,
          'emp': [], 'w': i, 'who': 'bob_&_%s\n\'%d\'' % ('ab'[i % 2], i),
          'shared': SHARED, 'doc': 'Report %d\n\n  the *%d*th thread' % (i, i), 'cf': _cf_asc if i % 2 == 0 else _cf_desc, 'sx': 'y/cf,x/cmp/desc' if i % 2 == 0 else 'x/cf,y'}
    if name == 'batch':
        ns['seq'] = ['ab%d' % i, 'cd%d' % i, 'ef%d' % i]
        ns['seq'] = [s for s in ns['seq']]
        # sort=x on strings: items without x -> order kept; harmless
    return ns


class Setup:
    """one run: a fresh (optionally pre-compiled) shared template and its jobs"""

    def __init__(self, name, n, cooked):
        from DocumentTemplate.DT_HTML import HTML
        from DocumentTemplate.DT_String import String
        sc = SCENARIOS[name]
        base = String if sc.get('epfs') else HTML
        if sc.get('guarded'):
            base = type('G' + base.__name__, (Guarded, base), {})
        self.ref = [None]
        probe = sched.make_probe(base, self.ref)
        self.t = probe(sc['src'])
        self.sub = None
        if sc.get('sub'):
            self.sub = probe(SUB_SRC)
        if cooked:
            self.t.cook()
            if self.sub is not None:
                self.sub.cook()
        self.n = n
        self.name = name
        self.cooked = cooked
        if sc.get('served'):
            serve_requests(sc['served'], sc.get('serve', 'sort'))

    def job(self, i):
        ns = namespace(self.name, i)
        if self.sub is not None:
            ns['sub'] = self.sub

        if SCENARIOS[self.name].get('client'):
            client = O(p='client%d' % i, q=i)

            def run():
                return self.t(client, **ns)
            return run

        def run():
            return self.t(**ns)
        return run

    def execute(self, policy, line_mode=False, watch=(), warm=False, observer=None, lines=None):
        s = sched.Scheduler(self.n)
        for base, ln in (lines or ()):
            s.line_watch.setdefault(base, set()).add(ln)
        self.ref[0] = s
        h = sched.Hooks()
        h.install(s, watch)
        try:
            for tpl in (self.t, self.sub):
                if tpl is not None and '_v_blocks' in tpl.__dict__:
                    s.publish(tpl.__dict__['_v_blocks'])
            if observer is not None:
                observer(s, self)
            res = s.run([self.job(i) for i in range(self.n)], policy, line_mode=line_mode)
        finally:
            h.remove()
            self.ref[0] = None
        return res, s


def solo_results(name, n):
    """what each thread obtains running alone on a fresh template"""
    out = []
    for i in range(n):
        su = Setup(name, n, False)
        try:
            out.append(('ok', su.job(i)()))
        except BaseException as e:  # noqa
            out.append(('raised', '%s: %s' % (type(e).__name__, str(e)[:200])))
    return out


def acc_name(kind, detail):
    if kind in ('acq', 'rel'):
        return kind
    if kind == 'u':
        return 'u:line:%s:%d' % (detail[1], detail[2])
    if isinstance(detail, str):
        return {('r', '_v_cooked'): 'rc', ('w', '_v_blocks'): 'wb', ('w', '_v_cooked'): 'wc', ('r', '_v_blocks'): 'rb',
                ('d', '_v_cooked'): 'dc'}.get(
            (kind, detail), kind + ':' + detail)
    return '%s:%s#%d.%s' % (kind, detail[0], detail[2], detail[1])


def prepass(name, n, lines=()):
    """solo runs under access hooks: the watch set ((class, attribute) written after publication) and each
    thread's render-phase access program.  Every thread renders the same compiled template twice; a write that
    happens only in the first render is a lazy initialisation, guarded by the read of the same object that
    precedes it (g: the guard cell; the write is skipped when that read found the cell initialised)."""
    watch = set()
    progs = []
    for _ in range(3):
        progs, grew = [], False
        for i in range(n):
            su = Setup(name, n, True)
            runs = []
            for _rep in range(2):
                res, s = su.execute(sched.explicit([i] * 100000), watch=watch, lines=lines)
                runs.append([(k, d) for (t, k, d) in s.log if t == i and k in ('r', 'w', 'u') and not isinstance(d, str)])
            for k, d in runs[0]:
                if k == 'u':
                    continue
                if k == 'w' and (d[0], d[1]) not in watch:
                    watch.add((d[0], d[1]))
                    grew = True
            second = {}
            for k, d in runs[1]:
                second[(k, d)] = second.get((k, d), 0) + 1
            prog, last_read = [], {}
            for k, d in runs[0]:
                if k == 'u':
                    prog.append({'op': 'u', 'c': 'line:%s:%d' % (d[1], d[2]), 'g': ''})
                    continue
                cell = '%s#%d.%s' % (d[0], d[2], d[1])
                g = ''
                if k == 'r':
                    last_read[d[2]] = cell
                elif second.get((k, d), 0) == 0 and d[2] in last_read:
                    g = last_read[d[2]]
                if second.get((k, d), 0) > 0:
                    second[(k, d)] -= 1
                prog.append({'op': k, 'c': cell, 'g': g})
            progs.append(prog)
        if not grew:
            break
    return watch, progs


# ---------------------------------------------------------------------------------------------
# stage A: replay of TLC's schedules at access granularity

_CTX = {}


def _replay_access(job):
    name, n, cooked, hist, watch, solo, lines = job
    su = Setup(name, n, cooked)
    drift = []
    state = {'j': 0, 'started': 0}

    def pol(en, s):
        # first let every thread reach its first shared access
        for i in range(n):
            if s.state[i] == 'ready' and s.pending[i][0] == 'start':
                return i
        while state['j'] < len(hist):
            t, a = hist[state['j']]
            state['j'] += 1
            t -= 1
            if t in en:
                got = acc_name(*s.pending[t])
                if got != a:
                    drift.append({'step': state['j'], 'model': a, 'code': got})
                return t
            drift.append({'step': state['j'], 'model': a, 'code': 'thread not enabled'})
        return en[0]
    try:
        res, s = su.execute(pol, watch=watch, lines=lines)
    except sched.Deadlock as e:
        return {'bad': 'deadlock', 'detail': str(e)[:300], 'hist': hist}
    bad = [i for i in range(n) if res[i] != solo[i]]
    return {'bad': bad, 'res': res, 'drift': drift[:3], 'left': len(hist) - state['j']}


# ---------------------------------------------------------------------------------------------
# stage B: line granularity

def _line_run(job):
    name, n, cooked, kind, arg, watch, solo = job
    su = Setup(name, n, cooked)
    if kind == 'segs':
        pol = sched.segments(arg)
    else:
        seed, depth, est = arg
        pol = sched.pct(random.Random(seed), n, depth, est)
    try:
        res, s = su.execute(pol, line_mode=True, watch=watch)
    except sched.Deadlock as e:
        return {'bad': 'deadlock', 'detail': str(e)[:300], 'sched': [kind, arg]}
    bad = [i for i in range(n) if res[i] != solo[i]]
    acc = [[t + 1, acc_name(k, d)] for (t, k, d) in s.log if k not in ('line', 'start')
           and not (isinstance(d, str) and d not in ('_v_cooked', '_v_blocks'))]
    return {'bad': bad, 'res': res, 'trace': acc, 'steps': list(s.steps), 'switches': s.switches,
            'where': [e for e in s.log if e[1] == 'line'][-1:] if bad else None}


def line_counts(name, n, cooked, watch):
    """per thread: number of scheduling steps when it runs first (others after it), and the indices of its
    shared accesses among them"""
    out = []
    for i in range(n):
        su = Setup(name, n, cooked)
        order = [(i, 10 ** 9)] + [(j, 10 ** 9) for j in range(n) if j != i]
        res, s = su.execute(sched.segments(order), line_mode=True, watch=watch)
        mine = [e for e in s.log if e[0] == i]
        acc_idx = [k for k, e in enumerate(mine) if e[1] not in ('line', 'start')]
        out.append((len(mine), acc_idx))
    return out


def fingerprint_prepass(name, watch, cooked=False):
    """solo, line mode: which lines change the shared compiled state, and did the access hooks see it?"""
    su = Setup(name, 1, cooked)
    changes = []
    state = {'fp': None}

    def observer(s, setup):
        state['fp'] = sched.fingerprint(setup.t)

    def pol(en, s):
        fp = sched.fingerprint(su.t)
        if fp != state['fp']:
            last = s.log[-1] if s.log else None
            changes.append(last)
            state['fp'] = fp
        return en[0]
    res, s = su.execute(pol, line_mode=True, watch=watch, observer=observer)
    hooks_saw = [e for e in s.log if e[1] == 'w']
    return changes, hooks_saw


DEEP_SRC = '<dtml-if "d < 104"><dtml-var "rec(nil, _, d=d+1)"><dtml-else><dtml-var a>:<dtml-var w></dtml-if>'


def _deep_job(job):
    """two threads, each a hundred template calls deep in one shared template that calls itself; thread 0 is preempted after k line
    steps, thread 1 runs to the end, thread 0 resumes.  Sampled, not enumerated: no access programs, no TLC"""
    k = job
    from DocumentTemplate.DT_HTML import HTML
    t = HTML(DEEP_SRC)
    t.cook()
    s = sched.Scheduler(2)
    h = sched.Hooks()
    h.install(s, ())

    def mk(i):
        return lambda: t(rec=t, d=0, nil=None, a='A%d' % i, w='W%d' % i)
    try:
        res = s.run([mk(0), mk(1)], sched.segments([(0, k), (1, 10 ** 9), (0, 10 ** 9)]), line_mode=True)
    except (sched.Deadlock, sched.Stuck) as e:
        return {'k': k, 'dead': str(e)[:200]}
    finally:
        h.remove()
    return {'k': k, 'res': res, 'steps': s.steps[0]}


def deep_stage(V, tier):
    total = _deep_job(10 ** 9)['steps']
    n = 10 if tier == 'quick' else 120
    ks = sorted({max(1, total * j // (n + 1)) for j in range(1, n + 1)})
    want = [('ok', 'A0:W0'), ('ok', 'A1:W1')]
    for r in common.pool_map(_deep_job, ks, chunk=1, per_case=300):
        if '_crash' in r or '_timeout' in r:
            common.machinery_failure('deep recursion stage: %s' % repr(r)[:600])
        V.count('deep_recursion_schedules')
        if 'dead' in r or [tuple(x) for x in r['res']] != want:
            V.violation({'kind': 'schedule', 'stage': 'deep-recursion', 'scenario': 'a template calling itself 104 levels deep, two threads',
                         'policy': ['segs', [[0, r['k']], [1, 10 ** 9]]], 'results': r.get('res', r.get('dead')), 'solo': want,
                         'cls': 'wrong-result'})
        else:
            V.count('schedules_conform')


def main(tier):
    V = common.Verdicts(PID, tier)
    rng = random.Random(common.seed())
    quick = tier == 'quick'
    stats = {'states': 0, 'transitions': 0}
    summary = {}
    traces_for_tlc = []
    import time as _time
    marks = [('start', _time.time())]
    a_jobs, a_meta = [], []
    cases = []
    for name in SCENARIOS:
        Setup(name, 1, True)          # warm the class-level command table (lazy imports happen once per process)
    ulines = {}
    for name in SCENARIOS:
        watch0, _ = prepass(name, 2)
        # shared state changed by a line without any hooked access: in-place updates of module- / class-level containers
        ul = set()
        for cooked in (True, False):
            changes, _hs = fingerprint_prepass(name, watch0, cooked)
            ul |= {(c[2][0], c[2][1]) for c in changes if c and c[1] == 'line'}
        ulines[name] = sorted(ul)
        summary.setdefault(name, {})['lines_updating_shared_containers'] = ['%s:%d' % u for u in ulines[name]]
        for n in (2, 3):
            solo = solo_results(name, n)
            watch, progs = prepass(name, n, ulines[name])
            summary.setdefault(name, {})['cells_written_after_publication'] = sorted('%s.%s' % w for w in watch)
            summary[name]['access_program_lengths'] = [len(p) for p in progs]
            if SCENARIOS[name].get('sub'):
                continue          # two templates: only stage B
            for cooked in (False, True):
                cases.append({'meta': (name, n, cooked, sorted(watch), solo),
                              'case': {'n': n, 'cooked': cooked, 'prog': progs, 'maxsw': (2 if quick else 3) if n == 2 else (1 if quick else 2)}})
    marks.append(('prepass', _time.time()))
    # --- TLC on DTConc: all interleavings
    cfg = ('SPECIFICATION Spec\nINVARIANT Published\nINVARIANT LockDiscipline\nINVARIANT Export\nCONSTRAINT PreemptionBound\n')
    # the interleavings are streamed: all counterexamples of the machine (up to 2000 per case) and a uniform sample of the
    # others (reservoir per case) are kept -- never the whole export, which runs to millions of schedules in the thorough tier
    cap = 1500 if quick else 8000
    keep_cex, keep_rest, seen_rest = {}, {}, {}
    model_cex = 0

    def on_export(e):
        nonlocal model_cex
        tid = e['tid']
        if e['crash'] or e['foreign']:
            model_cex += 1
            lst = keep_cex.setdefault(tid, [])
            if len(lst) < 2000:
                lst.append(e['hist'])
            return
        k = seen_rest.get(tid, 0)
        seen_rest[tid] = k + 1
        lst = keep_rest.setdefault(tid, [])
        if len(lst) < cap:
            lst.append(e['hist'])
        else:
            j = rng.randrange(k + 1)
            if j < cap:
                lst[j] = e['hist']
    res = tlc.run('DTConc', cfg, files={'cases.json': json.dumps([c['case'] for c in cases])}, on_print=on_export,
                  keep_prints=False, timeout=3000, coverage=not quick)
    if res.violated:
        raise tlc.TLCFailure('DTConc violates %s\n%s' % (res.violated, (res.error_trace or '')[:2000]))
    stats['states'] += res.distinct
    stats['transitions'] += res.generated
    for tid in sorted(set(keep_cex) | set(keep_rest)):
        name, n, cooked, watch, solo = cases[tid - 1]['meta']
        for is_cex, hists in ((True, keep_cex.get(tid, [])), (False, keep_rest.get(tid, []))):
            for h in hists:
                a_jobs.append((name, n, cooked, h, [tuple(w) for w in watch], solo, ulines[name]))
                a_meta.append((tid, is_cex))
    keep_cex.clear()
    keep_rest.clear()
    marks.append(('tlc_dtconc', _time.time()))
    drift_a = 0
    drift_samples, rejected_samples = [], []
    for meta, ajob, r in zip(a_meta, a_jobs, common.pool_map(_replay_access, a_jobs, chunk=40, per_case=120)):
        if '_crash' in r:
            common.machinery_failure('harness crash: %s' % repr(r)[:1500])
        if '_timeout' in r:
            common.machinery_failure('scheduler stuck: %s' % repr(r)[:600])
        V.count('schedules_replayed_access')
        if r.get('drift') or r.get('left'):
            drift_a += 1
            if len(drift_samples) < 6:
                drift_samples.append({'scenario': ajob[0], 'threads': ajob[1], 'cooked': ajob[2], 'drift': r.get('drift'),
                                      'unconsumed_schedule_steps': r.get('left'), 'schedule': ajob[3]})
        if r['bad']:
            name, n, cooked, watch, solo = cases[meta[0] - 1]['meta']
            V.violation({'kind': 'schedule', 'stage': 'access', 'scenario': name, 'threads': n, 'cooked': cooked,
                         'schedule': ajob[3], 'wrong_threads': r['bad'],
                         'results': r.get('res'), 'solo': solo, 'machine_predicted': meta[1],
                         'cls': 'deadlock' if r['bad'] == 'deadlock' else 'wrong-result'})
        else:
            V.count('schedules_conform')
    marks.append(('access_replay', _time.time()))
    # --- stage B: line granularity
    b_jobs = []
    for name in SCENARIOS:
        n = 2
        solo = solo_results(name, n)
        watch = [tuple(w.split('.')) for w in summary[name]['cells_written_after_publication']]
        for cooked in (True, False):
            counts = line_counts(name, n, cooked, watch)
            summary[name]['line_steps_%s' % ('cooked' if cooked else 'compiling')] = [c[0] for c in counts]
            for f in range(n):
                total, acc = counts[f]
                ks = set(range(1, total + 1))
                if not cooked or quick:
                    # compiling templates spend most lines inside parse under the lock: sample, but always take the
                    # lines around every shared access
                    budget = 110 if quick else 100000
                    if len(ks) > budget:
                        near = {k + d for k in acc for d in (-2, -1, 0, 1, 2, 3) if 1 <= k + d <= total}
                        ks = near | set(rng.sample(sorted(ks), budget))
                other = [j for j in range(n) if j != f]
                for k in sorted(ks):
                    b_jobs.append((name, n, cooked, 'segs', [(f, k)] + [(j, 10 ** 9) for j in other], watch, solo))
            # two preemptions and random priorities
            for _ in range(30 if quick else 1500):
                f = rng.randrange(n)
                g = 1 - f
                k1 = rng.randint(1, counts[f][0])
                k2 = rng.randint(1, counts[g][0])
                b_jobs.append((name, n, cooked, 'segs', [(f, k1), (g, k2), (f, 10 ** 9)], watch, solo))
            for _ in range(20 if quick else 1500):
                b_jobs.append((name, n, cooked, 'pct', (rng.randrange(10 ** 9), rng.randint(1, 4), sum(c[0] for c in counts)), watch, solo))
        # three threads, random priorities
        solo3 = solo_results(name, 3)
        for _ in range(20 if quick else 800):
            b_jobs.append((name, 3, rng.random() < 0.5, 'pct', (rng.randrange(10 ** 9), rng.randint(1, 5), 3000), watch, solo3))
    marks.append(('line_prepare', _time.time()))
    for job, r in zip(b_jobs, common.pool_map(_line_run, b_jobs, chunk=8, per_case=180)):
        if '_crash' in r:
            common.machinery_failure('harness crash: %s' % repr(r)[:1500])
        if '_timeout' in r:
            common.machinery_failure('scheduler stuck: %s' % repr(r)[:600])
        V.count('schedules_line_granularity')
        if r['bad']:
            V.violation({'kind': 'schedule', 'stage': 'line', 'scenario': job[0], 'threads': job[1], 'cooked': job[2],
                         'policy': [job[3], job[4]], 'wrong_threads': r['bad'], 'results': r.get('res'), 'solo': job[6],
                         'preempted_at': r.get('where'), 'cls': 'deadlock' if r['bad'] == 'deadlock' else 'wrong-result'})
        else:
            V.count('schedules_conform')
            if not SCENARIOS[job[0]].get('sub') and len(traces_for_tlc) < (1500 if quick else 20000):
                traces_for_tlc.append((job, r['trace']))
    # --- stage C: recorded access traces validated by TLC against DTConc
    prog_cache = {}
    tcases = []
    for job, tr in traces_for_tlc:
        key = (job[0], job[1])
        if key not in prog_cache:
            prog_cache[key] = prepass(job[0], job[1])[1]
        tcases.append({'n': job[1], 'cooked': job[2], 'prog': prog_cache[key], 'maxsw': -1, 'trace': tr})
    # binding self-test: corrupted copies of recorded traces must be rejected by the specification
    n_real = len(tcases)
    corrupted = []
    for c in [c for c in tcases if any(e[1] == 'wb' for e in c['trace'])][:60]:
        tr = c['trace']
        idx = [i for i, e in enumerate(tr) if e[1] in ('acq', 'wb')]
        if idx:
            k = idx[0]
            corrupted.append(dict(c, trace=tr[:k] + tr[k + 1:], orig=tr))       # one event dropped
        wcs = [i for i, e in enumerate(tr) if e[1] == 'wc']
        wbs = [i for i, e in enumerate(tr) if e[1] == 'wb']
        if wcs and wbs:
            t2 = list(tr)
            t2[wbs[0]], t2[wcs[0]] = t2[wcs[0]], t2[wbs[0]]                     # publication order swapped
            corrupted.append(dict(c, trace=t2, orig=tr))
    tcases = tcases + corrupted
    accepted = rejected = 0
    selftest_rejected = 0
    selftest_accepted = []
    if tcases:
        verdicts = {}

        def on_v(v):
            cur = verdicts.get(v['tid'])
            if cur is None or v['matched'] > cur['matched']:
                verdicts[v['tid']] = v
        cfg2 = 'SPECIFICATION OSpec\nINVARIANT Published\nINVARIANT LockDiscipline\nINVARIANT NoPartialTemplate\nINVARIANT Verdict\nCHECK_DEADLOCK FALSE\n'
        res2 = tlc.run('ObsConc', cfg2, files={'cases.json': json.dumps(tcases)}, on_print=on_v, keep_prints=False, timeout=3000)
        stats['states'] += res2.distinct
        stats['transitions'] += res2.generated
        if res2.violated:
            # a recorded real execution drives the specification into a state that violates an invariant
            V.violation({'kind': 'trace', 'invariant': res2.violated, 'detail': (res2.error_trace or '')[:1500], 'cls': 'trace-invariant'})
        selftest_rejected = 0
        for i, tc in enumerate(tcases, 1):
            v = verdicts.get(i)
            if i > n_real:
                if v is not None and v['matched'] == v['len'] and not v['crash']:
                    selftest_accepted.append({'corrupted': tc['trace'][:14], 'from': tc.get('orig', [])[:14]})
                else:
                    selftest_rejected += 1
                continue
            if v is not None and v['matched'] == v['len']:
                accepted += 1
            else:
                rejected += 1
                if len(rejected_samples) < 4:
                    rejected_samples.append({'scenario': traces_for_tlc[i - 1][0][0], 'cooked': tc['cooked'], 'matched': v and v['matched'],
                                             'trace': tc['trace']})
    if selftest_accepted and not V.violations:
        common.machinery_failure('binding self-test: corrupted access traces were accepted by ObsConc: %s' % selftest_accepted[:2])
    # --- proviso: shared writes seen by fingerprinting vs by the hooks
    unseen = {}
    for name in SCENARIOS:
        watch = [tuple(w.split('.')) for w in summary[name]['cells_written_after_publication']]
        changes, hooks_saw = fingerprint_prepass(name, watch)
        summary[name]['lines_changing_shared_state'] = sorted({'%s:%s' % c[2] for c in changes if c and c[1] == 'line'})
        summary[name]['shared_state_changes_seen_by_fingerprint'] = len(changes)
        summary[name]['writes_seen_by_hooks'] = len(hooks_saw)
        if len(changes) > len(hooks_saw):
            unseen[name] = len(changes) - len(hooks_saw)
    deep_stage(V, tier)
    marks.append(('line_runs_and_validation', _time.time()))
    cov = {'states': stats['states'], 'transitions': stats['transitions'],
           'stage_wall_s': {marks[i][0]: round(marks[i][1] - marks[i - 1][1], 1) for i in range(1, len(marks))},
           'traces_validated_against_impl': V.counters.get('schedules_conform', 0) + accepted,
           'schedules_from_TLC_replayed': V.counters.get('schedules_replayed_access', 0),
           'machine_counterexamples_replayed': model_cex, 'replays_with_drift': drift_a,
           'line_granularity_schedules': V.counters.get('schedules_line_granularity', 0),
           'recorded_traces_accepted_by_TLC': accepted, 'binding_selftest_corrupted_traces_rejected': selftest_rejected, 'binding_selftest_accepted': selftest_accepted[:3], 'recorded_traces_rejected_by_TLC': rejected,
           'scenarios': summary, 'exhaustive': False, 'shared_changes_not_seen_by_hooks': unseen, 'drift_samples': drift_samples, 'rejected_trace_samples': rejected_samples,
           'rule': '6 templates (in with sort_expr/reverse_expr, every block tag, batches, shared sub-template, restricted '
                   'expressions, %()s syntax) x compiled / compiling x 2-3 threads with per-thread namespaces; TLC: all access-level '
                   'interleavings (3 threads: bounded preemptions); line level: single preemptions (all lines of compiled templates, '
                   'sample + every line around a shared access when compiling), two preemptions, PCT-random, 3 threads random',
           'samples': [{'scenario': j[0], 'threads': j[1], 'cooked': j[2], 'policy': [j[3], j[4]]} for j in b_jobs[:2] + b_jobs[-2:]]}
    return V.finish(cov, assumptions=['CPython threads switch only between bytecodes; the scheduler serialises threads at source-line '
                                      'granularity inside the package (the property\'s own granularity)',
                                      'access-level schedules are complete only if every shared access is hooked; the fingerprint '
                                      'pre-pass and the line-level stage test that proviso'])


def replay_file(path):
    data = json.load(open(path))
    for v in data['violations']:
        print(json.dumps(v, default=repr)[:1500])
    return 1 if data['violations'] else 0
