"""C04 -- tainted (untrusted) values are always HTML-escaped when inserted, once.

Machine: spec/DTVar.tla (taint flag carried through fmt=, C-format, every modifier, size/etc; final
quoting; fast path untaint).  Invariants NoRawLT, OnceNotTwice.  Sweeps: all 4096 modifier subsets;
formats x single modifiers x sizes x etc x null/missing; both syntaxes, name / expression / entity.
"""
from checks import var_common as vc
from checks.var_common import text, sweep

PID = 'C04'

FMTS = ['', 'html-quote', 'url-quote', 'url-quote-plus', 'url-unquote', 'url-unquote-plus', 'sql-quote',
        'multi-line', 'comma-numeric', 'collection-length', 'upper', 'lower', 'capitalize', 'strip', 'pct']


def sweeps(tier):
    first, mid, last = text('<Q1234 x', True), text('ab <Q%3Cq_y\n12345', True), text('it\'s 1234 &<', True)
    ctl = text('a<Q b')          # an untainted control value
    vals = [first, mid, last]
    singles = [[]] + [[m] for m in vc.ALLMODS]
    out = [
        # every subset of the 12 modifiers, '<' first / middle / last
        sweep(vals if tier == 'thorough' else [mid, first], 'SUBSET Modifiers', forms=('name',)),
        sweep([mid], 'SUBSET Modifiers', forms=('expr', 'entity')) if tier == 'thorough'
        else sweep([last], [m for m in _subsets(3)], forms=('expr', 'entity')),
        # formats x C-format x single modifiers x sizes x etc x null/missing
        sweep(vals + [ctl], singles, fmts=FMTS, cfmts=('s', '6s'), sizes=(-1, 0, 1, 4, 9, 40),
              etcs=('default', 'tilde'), nulls=(False, True), missings=(False,), forms=('name', 'expr')),
    ]
    # untrusted text as it arrives from forms: CR LF line ends, NUL, Ctrl-Z, quotes, percent escapes of the special characters
    wild = [text('a\r\n<Q b\x00c\x1a', True), text("%3Cq%3E '<Q' +%2B\r", True), text('<', True), text('\n<\n', True)]
    out.append(sweep(wild, singles + [['sql_quote', 'html_quote'], ['url_unquote', 'newline_to_br'], ['url_unquote_plus', 'sql_quote'],
                                      ['newline_to_br', 'sql_quote', 'upper']],
                     fmts=('', 'sql-quote', 'url-unquote', 'multi-line', 'strip'), sizes=(-1, 3), forms=('name', 'expr')))
    # the money formats refuse text: nothing of an untrusted value comes out
    out.append(sweep(vals + wild[:2], singles, fmts=('whole-dollars', 'dollars-and-cents', 'dollars-with-commas',
                                                     'dollars-and-cents-with-commas'), sizes=(-1, 4), forms=('name', 'expr')))
    if tier == 'thorough':
        out.append(sweep(vals, [m for m in _subsets(2)], fmts=FMTS, cfmts=('s', '6s'), sizes=(-1, 3, 12),
                         forms=('name',)))
    return out


def _subsets(k):
    import itertools
    for n in range(k + 1):
        for c in itertools.combinations(vc.ALLMODS, n):
            yield list(c)


def classify(b, r):
    if not b['v']['tnt']:
        return None
    exp = r['expected']
    for x in r['bad']:
        got = x['got']
        # the property: no raw '<' stemming from the value (the machine's output has none, so any '<Q'/'<q'
        # /'<1' or a '<' that the expected text shows escaped is the value's), and no double escaping
        if ('<' in got and got.count('<') > exp.count('<')) or '&amp;lt;' in got and '&amp;lt;' not in exp:
            return {'clause': 'raw-lt' if '<' in got and got.count('<') > exp.count('<') else 'double-escape',
                    'site': sorted(b['mods']) + ([b['fmt']] if b['fmt'] else [])}
    return None


def post(V):
    """the machine reproduces finding F20 (its invariant excludes that class); re-observe it on the code"""
    from AccessControl.tainted import TaintedString
    from DocumentTemplate.DT_HTML import HTML
    for src in ('<dtml-var x fmt=multi-line url_unquote>', '<dtml-var x fmt=multi-line url_unquote_plus>'):
        got = HTML(src)(x=TaintedString('a<Q%3Cq'))
        if '<q' in got:
            V.violation({'kind': 'departure', 'clause': 'raw-lt', 'cls': 'multi-line-then-unquote',
                         'source': src, 'value': 'a<Q%3Cq (tainted)', 'got': got})


def post_markup(V):
    """the markup formats (structured / restructured text) are not modelled: whatever they do with an untrusted value -- render
    it or refuse it -- its '<' must not come out raw (the marker <Q never occurs in the templates)"""
    from AccessControl.tainted import TaintedString
    from DocumentTemplate.DT_HTML import HTML
    from DocumentTemplate.DT_String import String
    vals = ['<Q>alert(1)</Q> hi', 'para one\n\n<Qb>bold</Qb> *x*', 'a <Q b', '- item <Q\n- two']
    for fmt in ('structured-text', 'restructured-text'):
        for tail in ('', ' html_quote', ' upper', ' size=200', ' null=n', ' newline_to_br'):
            for cls, src in ((HTML, '<dtml-var x fmt=%s%s>' % (fmt, tail)), (HTML, '<dtml-var expr="x" fmt=%s%s>' % (fmt, tail)),
                             (String, '%%(x fmt=%s%s)s' % (fmt, tail))):
                for v in vals:
                    V.count('renderings')
                    try:
                        got = cls(src)(x=TaintedString(v))
                    except Exception:  # noqa  refusing the value emits nothing
                        continue
                    if '<Q' in str(got) or '<q' in str(got):
                        V.violation({'kind': 'departure', 'clause': 'raw-lt', 'cls': 'markup-format', 'source': src,
                                     'value': v + ' (tainted)', 'got': str(got)[:200]})


def post_cformats(V):
    """C-style fmt= strings the untrusted value does not fit (a number format, several or no conversions): the tag may refuse
    the value or format it -- its '<' must not come out raw"""
    from AccessControl.tainted import TaintedString
    from DocumentTemplate.DT_HTML import HTML
    from DocumentTemplate.DT_String import String
    for fmt in ('%d', '%05d', '%.2f', '%x', '%s %s', 'no conversion', '%(a)s', '%c', '%5.1s', '%r', '%%', '%10s|'):
        for tail in ('', ' html_quote', ' upper', ' size=200', ' null=n', ' url_unquote', ' thousands_commas'):
            for cls, src in ((HTML, '<dtml-var x fmt="%s"%s>' % (fmt, tail)), (HTML, '<dtml-var expr="x" fmt="%s"%s>' % (fmt, tail)),
                             (String, '%%(x fmt="%s"%s)s' % (fmt, tail))):
                for v in ('<Q>alert(1)</Q>', '12<Q', '<'):
                    V.count('renderings')
                    try:
                        got = str(cls(src)(x=TaintedString(v)))
                    except Exception:  # noqa  refusing the value emits nothing
                        continue
                    if '<' in got.replace('&lt;', ''):
                        V.violation({'kind': 'departure', 'clause': 'raw-lt', 'cls': 'c-format-misfit', 'source': src,
                                     'value': v + ' (tainted)', 'got': got[:200]})


def post_epfs_conversions(V):
    """the conversion character of the %(name)fmt syntax with an untrusted value it does not fit (%(x)d, %(x)5.1f, %(x)X, %(x)c):
    refused or formatted, never raw"""
    from AccessControl.tainted import TaintedString
    from DocumentTemplate.DT_String import String
    for conv in ('d', '5d', '.2f', '5.1f', 'X', 'x', 'c', 'e', 'G', 'o', 'i', 'r', 'a', '10s', '.3s', '-8s'):
        for opts in ('', ' upper', ' html_quote', ' size=50', ' null=n', ' thousands_commas', ' url_unquote'):
            for v in ('<Q>alert(1)</Q>', '12<Q', '<'):
                src = 'n: %%(x%s)%s' % (opts, conv)
                V.count('renderings')
                try:
                    got = str(String(src)(x=TaintedString(v)))
                except Exception:  # noqa
                    continue
                if '<' in got.replace('&lt;', ''):
                    V.violation({'kind': 'departure', 'clause': 'raw-lt', 'cls': 'epfs-conversion-misfit', 'source': src,
                                 'value': v + ' (tainted)', 'got': got[:200]})


def post_wrappers(V):
    """results of the string helper wrappers (DT_Util.StringModuleWrapper) computed from an untrusted argument are untrusted
    too: inserted as the direct result of an expression they are escaped"""
    from AccessControl.tainted import TaintedString
    from DocumentTemplate.DT_HTML import HTML
    from DocumentTemplate.DT_String import String
    from DocumentTemplate.DT_Util import StringModuleWrapper
    S = StringModuleWrapper()
    for call in ('S.capwords(x)', 'S.capwords(s=x)', "S.capwords('a b', x)", 'S.capwords(x, None)'):
        for tail in ('', ' upper', ' size=40', ' html_quote', ' url_unquote spacify', ' fmt="[%s]" null=n'):
            for cls, src in ((HTML, '<dtml-var expr="%s"%s>' % (call, tail)), (String, '%%(var expr="%s"%s)s' % (call, tail)),
                             (HTML, '<dtml-let y="%s"><dtml-var y%s></dtml-let>' % (call, tail))):
                for v in ('<Q>alert(1)</Q> hi there', 'two <Q words'):
                    V.count('renderings')
                    try:
                        got = str(cls(src)(x=TaintedString(v), S=S))
                    except Exception:  # noqa
                        continue
                    if '<Q' in got or '<q' in got:
                        V.violation({'kind': 'departure', 'clause': 'raw-lt', 'cls': 'string-wrapper', 'source': src,
                                     'value': v + ' (tainted)', 'got': got[:200]})


def main(tier):
    def both(V):
        post(V)
        post_markup(V)
        post_cformats(V)
        post_epfs_conversions(V)
        post_wrappers(V)
    return vc.run(PID, tier, sweeps(tier), classify, post=both,
                  invs=['NoRawLT', 'OnceNotTwice', 'NoRawSpecial', 'TruncBound'],
                  assumptions=['a tainted value is a TaintedString containing "<" (the property\'s definition)',
                               'fmt= covers the special formats, the method formats upper/lower/capitalize/strip and '
                               'a %-format; restructured/structured text formats are not modelled: their output is only searched for the raw marker'],
                  rule='tainted texts with "<" first/middle/last x all 4096 modifier subsets; formats x C-format x '
                       'single modifiers x sizes x etc x null; name / expression / entity; HTML, SSI and EPFS spellings, '
                       'several written orders')


replay = vc.replay_file
