"""Common driver of the checks that are decided on the DTRender machine (C02 C08 C09 C10 C14)."""
import json

from harness import common, render, render_check, tlc


def run(pid, tier, cases, fields, assumptions, rule, batch=4000, extra_cov=None, extra_stage=None):
    """cases: generator-AST cases.  fields: the observables this property talks about."""
    V = common.Verdicts(pid, tier)
    states = trans = nexp = 0
    samples = []
    actions = {}
    for off in range(0, len(cases), batch):
        part = cases[off:off + batch]
        res, exported = render_check.explore(part)
        states += res.distinct
        trans += res.generated
        nexp += len(exported)
        out = render_check.replay_all(part, exported, fields)
        for o in out:
            if '_timeout' in o or '_crash' in o:
                V.violation({'kind': 'no-result', 'detail': repr(o)[:1500]})
                continue
            if o['ok']:
                V.count('behaviours_conform')
                continue
            bad = [f for f in o['bad'] if f in fields]
            leak = o['leak'] if ('evs' in fields or 'depth' in fields) else []
            if bad or leak:
                V.violation({'kind': 'departure', 'fields': bad, 'leak': leak, 'source': o['src'],
                             'plan': o['plan'], 'case': part[o['tid'] - 1],
                             'expected': o['expected'], 'observed': o['observed']})
            else:
                V.count('drift')
        if exported and len(samples) < 3:
            m = exported[len(exported) // 2]
            samples.append({'source': render.pr(part[m['tid'] - 1]['prog']), 'plan': m['plan'],
                            'result': render.expected(m)['result'], 'calls': m['calls']})
    cov = {'states': states, 'transitions': trans, 'traces_validated_against_impl': V.counters.get('behaviours_conform', 0),
           'cases': len(cases), 'behaviours_exported': nexp, 'observables': fields, 'rule': rule,
           'exhaustive': True, 'samples': samples}
    cov.update(extra_cov or {})
    if extra_stage is not None:
        more = extra_stage(V, tier)
        cov['states'] += more.pop('tree_states', 0)
        cov.update(more)
        cov['traces_validated_against_impl'] = V.counters.get('behaviours_conform', 0)
    return V.finish(cov, assumptions=assumptions)


def replay(path):
    data = json.load(open(path))
    n = 0
    for v in data['violations']:
        if v.get('kind') != 'departure':
            print(json.dumps(v)[:800])
            n += 1
            continue
        case = v['case']
        obs = render.run_case(case, v['plan'], sty=case.get('sty', 'dtml'))
        print('source: %s\nplan: %s\nexpected: %s\nobserved now: %s\n' % (
            v['source'], v['plan'], json.dumps(v['expected'])[:500],
            json.dumps({f: obs.get(f) for f in v['fields']})[:500]))
        n += 1
    return 1 if n else 0
