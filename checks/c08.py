"""C08 -- namespace stack and recursion level are restored on every exit path.

Machine: spec/DTRender.tla.  Model-level: StackDiscipline, ExitRestores (action property),
CallBalanced, EvsBalanced are checked by TLC over every program x fault plan.  TLC chooses the
fault plan: no fault; one fault (exception or dtml-return) at the k-th invocation of a namespace
callable for every k; for programs with handlers, pairs of faults.
P1: each behaviour is replayed into the real renderer with every TemplateDict push and pop logged
(class-level wrappers); the complete push/pop log, the final depth and the final level must be
the machine's.  Probes after each block resolve names through the (possibly corrupted) stack.
"""
import json
import random

from harness import common
from harness.render import *  # noqa
from checks import c08_tree, render_common

PID = 'C08'

F = lambda i: fn('F%d' % i, plain('R%d' % i))          # noqa  truthy callable
FO = fn('FO', obj('O', a=fn('FA', plain('RA'))))       # callable returning an object (for with)
FL = fn('FL', lst('L', [obj('I1', x=plain('x1')), obj('I2', x=plain('x2'))]))
FM = fn('FM', lst('LM', [mp('M1', x=plain('m1'))]))
SUB = tmpl('sub', [T('S'), V('f3'), V('d')], {'d': plain('D')})
SUBR = tmpl('subr', [T('S'), Return(N('f3')), T('no')], {'d': plain('D2')})

# (an empty mapping among the elements: a frame like any other -- pushed, and popped)
FM0 = fn('FM0', lst('LM0', [mp('M1', x=plain('m1')), mp('M0'), mp('M3', x=plain('m3'))]))
FMN = fn('FMN', lst('LMN', [mp('M1', x=plain('m1')), none(), mp('M3', x=plain('m3'))]))
NS = {'fmn': FMN, 'fm0': FM0, 'nn': none(), 'f1': F(1), 'f2': F(2), 'f3': F(3), 'fo': FO, 'fl': FL, 'fm': FM, 'sub': SUB, 'subr': SUBR,
      'x': plain('outer-x'), 'a': plain('outer-a'), 'd': plain('outer-d'), 'y': plain('outer-y'),
      'error_type': plain('outer-et')}


def leaves():
    return [[V('f1')], [T('t')], [V('sub')], [V('subr')], [Return(N('f2'))], [Call(N('f2'))], []]


def wrap(body, alt):
    """every block kind around `body` (alt: a second body for handlers/else/finally)"""
    return [
        If([(N('f1'), body)], alt),
        If([(N('nope'), [T('n')]), (C('f2'), body)]),
        Unless(N('nope'), body),
        Let([('y', N('f2')), ('z', C('f3'))], body),
        With(N('fo'), [V('a')] + body),
        # with ... only: the body is rendered on a namespace of its own; what it pushes and pops there is not the caller's
        # business, but the caller's namespace must be exactly as before when the block is left, whichever way
        With(N('fo'), [V('a')] + body, only=True),
        In(N('fl'), [V('x')] + body, alt),
        In(N('fm'), body + [V('x')], mapping=True),
        # None handed to a tag that pushes a mapping: the frame is pushed (and popped) like any other
        With(X('nn'), body, mapping=True),
        With(X('nn'), [T('w')], mapping=True),
        In(N('fmn'), [T('i')] + body, mapping=True),
        In(N('fm0'), [T('j')] + body + [V('x')], mapping=True),
        In(N('fm0'), body, mapping=True, start=2, size=2),
        In(N('fl'), body, nopush=True, pre=True),
        Try(body, [(['ValueError'], alt + [V('error_type')])], None),
        Try(body, [(['KeyError'], [T('hk')]), ([], alt)], [V('f3')]),
        TryF(body, alt),
        Raise('KeyError', body),
    ]


PROBES = [V('x'), V('a'), V('d'), V('y'), V('error_type')]


def count_inv(prog):
    s = json.dumps(prog)
    return s.count('"n": "f') + s.count('"sub') * 2 + 6


def programs(tier, rng):
    out = []
    d1 = []
    for leaf in leaves():
        for alt in ([V('f3')], [T('alt')]):
            d1 += wrap(leaf, alt)
    out += d1
    # depth 2: every block kind inside every block kind (a representative inner body)
    d2 = []
    for inner in wrap([V('f1')], [V('f3')]) + wrap([Return(N('f2'))], [T('alt')]) + wrap([V('sub')], [V('f2')]):
        d2 += wrap([inner], [V('f3')])
        d2 += wrap([T('p'), inner, V('f2')], [inner])
    if tier == 'quick':
        rng.shuffle(d2)
        d2 = d2[:260]
    out += d2
    if tier == 'thorough':
        d3 = []
        base = wrap([V('f1')], [V('f3')])
        for _ in range(1500):
            a = rng.choice(base)
            b = rng.choice(wrap([a], [rng.choice(base)]))
            c = rng.choice(wrap([b, V('f2')], [rng.choice(base)]))
            d3.append(c)
        out += d3
    return out


def cases_for(tier, rng):
    cases = []
    for i, blk in enumerate(programs(tier, rng)):
        prog = [V('x'), blk] + PROBES
        has_handler = '"try' in json.dumps(blk)
        # caught variant: the whole block inside a try whose handler probes the namespace
        variants = [prog]
        if i % 3 == 0:
            variants.append([Try([blk], [([], [T('caught')] + PROBES)], None)] + PROBES)
        for p in variants:
            K = min(count_inv(p), 14)
            pairs = 1 if (has_handler and (tier == 'thorough' or i % 9 == 0)) else 0
            cases.append(dict(prog=p, src=sources(cm={'d': plain('cm-d')}, kw=dict(NS)), no_evs='"only": true' in json.dumps(p),
                              K=K if not pairs else min(K, 8),
                              fk=['ValueError', 'KeyError', 'dtreturn'] if not pairs else ['ValueError', 'dtreturn'],
                              pairs=pairs, svn=svn_table()))
    return cases


def main(tier):
    rng = random.Random(common.seed())
    cases = cases_for(tier, rng)
    return render_common.run(
        PID, tier, cases, ['evs', 'depth', 'level', 'result'], batch=400, extra_stage=c08_tree.stages,
        assumptions=['faults are raised by namespace callables at their k-th invocation (ValueError, KeyError, '
                     'DTReturn); dtml-tree (all modes, nested, faults in branches / id / url / body) is validated against the projection spec ObsStack',
                     'inside with ... only the pushes and pops happen on a namespace of its own and are not compared; final depth, level, result and the probes after the block are'],
        rule='block programs (every block kind around every leaf, every block kind nested in every block kind, '
             'random depth 3 in the thorough tier) x fault plans chosen by TLC: none, one fault at every '
             'invocation ordinal k x {ValueError, KeyError, dtml-return}, pairs for programs with handlers')


replay = render_common.replay
