"""C20 -- tree state survives its cookie encoding and tracks expand/collapse clicks.

Machine: spec/DTTree.tla (exp = set of expanded nodes; Click toggles, collapsing forgets descendants,
ExpandAll, CollapseAll, Reload; Rows, Links; Closed, RowsAreChildrenOfExpanded, OneLinkEach,
ToggleOnly; codec length arithmetic CodecRoundTrip / CodecValid).
P1 (lock-step product exploration): TLC exports every transition of every tree of the tier; the
harness drives the real dtml-tree along each one -- request with the cookie written by the code in
the source state and the link parameter the code itself generated -- and compares rows, links
(one per node with children, what each toggles) and the set decoded from the new cookie.
P2: random larger trees (long and non-ASCII ids) with random histories are recorded and validated
by TLC (ObsTree).  Codec: real encode_seq/decode_seq round trips over states whose compressed
sizes sweep the 57/76 chunk thresholds.
"""
import json
import random

from harness import common, tlc, tree

PID = 'C20'


def trees(maxn, maxdepth):
    """parent vectors (1-based parents, root has 0) of all ordered rooted trees in DFS order"""
    out = []

    def rec(parent, path):
        if len(parent) >= 2:
            out.append(list(parent))
        if len(parent) == maxn:
            return
        # the next node in DFS order hangs under any node of the current rightmost path
        for d in range(len(path)):
            p = path[d]
            if d + 1 > maxdepth:
                break
            rec(parent + [p], path[:d + 1] + [len(parent) + 1])
    rec([0], [1])
    return out


CFG = ('SPECIFICATION Spec\nINVARIANT Closed\nINVARIANT RowsAreChildrenOfExpanded\nINVARIANT RowsOnce\nINVARIANT OneLinkEach\n'
       'INVARIANT CodecRoundTrip\nINVARIANT CodecValid\nINVARIANT Export\nPROPERTY ToggleOnly\nCHECK_DEADLOCK FALSE\n')

_TREES = None

# option records of the tag (DTTree.Opt); 'sorted' tells the harness to write sort=rank
OPTS = [
    dict(),
    dict(ac=True),
    dict(leaves=True),
    dict(ac=True, leaves=True),
    dict(hf=True),
    dict(sorted=True, rev=True),
    dict(single=True),
    dict(ac=True, hf=True, rev=True),
    dict(single=True, ac=True),
    dict(leaves=True, hf=True, sorted=True),
    dict(rev=True),
]


def id_scheme(parent, k):
    """ids need to be unique among siblings only.  k % 3 = 0: all different; 1: the position among the siblings ('c0', 'c1',
    ...: every path repeats ids, a child is named like the root); 2: a first child is named like its parent"""
    n = len(parent)
    if k % 7 == 3:
        # database keys counted from 0: some node's id is 0 -- falsy, and a perfectly good id (the root's when k is odd,
        # else its first child's)
        return list(range(n)) if k % 2 else [n] + list(range(n - 1))
    if k % 7 == 5:
        return (['', 'k1'] if k % 2 else ['k0', '']) [:n] + ['k%d' % i for i in range(2, n)]      # ... or the empty string
    if k % 3 == 0:
        return None
    ids, seen = [], {}
    for i, p in enumerate(parent, 1):
        j = seen.get(p, 0)
        seen[p] = j + 1
        if k % 3 == 1:
            ids.append('c%d' % j)
        else:
            ids.append(ids[p - 1] if (p >= 1 and j == 0) else 'n%d' % i)
    return ids


def mkopt(o, n, rng):
    opt = dict(tree.DEFAULT_OPT)
    opt.update(o)
    rank = list(range(1, n + 1))
    if opt['sorted']:
        rng.shuffle(rank)
    opt['rank'] = rank
    return opt


def apply_rank(nodes, opt):
    for nd, r in zip(nodes, opt['rank']):
        nd.rank = r


def lockstep(item):
    tid, recs = item
    parent, opt = _TREES[tid - 1]
    nodes = tree.build(parent, id_scheme(parent, tid), variant=tid)
    apply_rank(nodes, opt)
    src = tree.source(opt, variant=tid)
    num = {n.uid: i + 1 for i, n in enumerate(nodes)}
    real = {}          # frozenset(exp) -> (cookie, links)
    todo = list(recs)
    bad = []
    done = 0
    progress = True
    while todo and progress:
        progress = False
        rest = []
        for r in todo:
            src_ = frozenset(r['from'])
            if r['op'] != 'init' and src_ not in real:
                rest.append(r)
                continue
            progress = True
            try:
                if r['op'] == 'init':
                    o = tree.request(nodes, src=src)
                elif r['op'] == 'click':
                    cookie, links = real[src_]
                    nid = nodes[r['x'] - 1].uid
                    if nid not in links:
                        bad.append({'step': r, 'why': 'node %s carries no link in the source state' % nid})
                        continue
                    o = tree.request(nodes, cookie, links[nid], src=src)
                elif r['op'] == 'click_other':
                    cookie, links = real[src_]
                    nid = nodes[r['x'] - 1].uid
                    if nid not in links:
                        bad.append({'step': r, 'why': 'node %s carries no link in the source state' % nid})
                        continue
                    from TreeDisplay.TreeTag import encode_seq
                    o = tree.request(nodes, encode_seq([['the-root-of-another-tree', [['zz', [['y']]]]]]), links[nid], src=src)
                elif r['op'] == 'reload':
                    o = tree.request(nodes, real[src_][0], src=src)
                else:
                    o = tree.request(nodes, real[src_][0], special=r['op'], src=src)
            except Exception as e:  # noqa
                bad.append({'step': r, 'why': 'exception %s: %s' % (type(e).__name__, str(e)[:100])})
                continue
            done += 1
            rows = [[k, num.get(x, -1)] for k, x in o['items']]
            links = sorted([num.get(k, -1), 'c' if v[0] == 'tree-c' else 'e'] for k, v in o['links'].items())
            state = sorted(num.get(x, -1) for x in o['state'] if x != nodes[0].uid)
            why = []
            if rows != r['rows']:
                why.append('rows %s expected %s' % (rows, r['rows']))
            if links != sorted(r['links']):
                why.append('links %s expected %s' % (links, sorted(r['links'])))
            if not opt['single'] and state != sorted(r['exp']):
                why.append('cookie state %s expected %s' % (state, sorted(r['exp'])))
            if o['dup']:
                why.append('more than one link for %s' % o['dup'])
            if why:
                bad.append({'step': r, 'why': '; '.join(why)})
            dst = frozenset(r['exp'])
            if dst not in real and not why:
                real[dst] = (o['cookie'], o['links'])
        todo = rest
    return {'tid': tid, 'parent': parent, 'opt': opt, 'source': src, 'done': done, 'bad': bad[:5], 'unreached': len(todo)}


IDS = ['id', 'a-long-identifier-with-many-characters-%d', 'é%d', 'Ωμέγα-%d', '日本語%d', 'x%d y', "q%d'<&>", 'n%d']


def random_history(seed):
    rng = random.Random(seed)
    big = seed % 8 == 0          # large trees with long ids: expansion states of several kilobytes
    n = rng.randint(70, 160) if big else rng.randint(5, 40)
    parent = [0]
    for i in range(2, n + 1):
        parent.append(rng.randint(max(1, i - 4), i - 1))
    # renumber in DFS order
    kids = {}
    for i, p in enumerate(parent, 1):
        kids.setdefault(p, []).append(i)
    order = []

    def dfs(x):
        order.append(x)
        for c in kids.get(x, []):
            dfs(c)
    dfs(1)
    ren = {old: new for new, old in enumerate(order, 1)}
    par2 = [0] * n
    for old in order:
        par2[ren[old] - 1] = ren.get(parent[old - 1], 0) if old != 1 else 0
    style = rng.choice(IDS)
    if big:
        style = rng.choice(['a-rather-long-identifier-as-found-in-real-sites-with-many-characters-%d', 'Ωμέγα-' * 8 + '%d'])
    ids = [(style % i) if '%d' in style else style + str(i) for i in range(1, n + 1)]
    if seed % 4 == 1:
        ids = id_scheme(par2, 1 + seed % 2)
    nodes = tree.build(par2, ids, variant=seed)
    num = {nd.uid: i + 1 for i, nd in enumerate(nodes)}
    steps = []
    opt = mkopt(rng.choice(OPTS), n, rng)
    apply_rank(nodes, opt)
    src = tree.source(opt, variant=seed)
    o = tree.request(nodes, src=src)

    def rec(op, x, o):
        steps.append({'op': op, 'x': x, 'rows': [[k, num[r]] for k, r in o['items']],
                      'state': sorted(num.get(s, -1) for s in o['state'] if s != nodes[0].uid),
                      'links': sorted([num[k], 'c' if v[0] == 'tree-c' else 'e'] for k, v in o['links'].items())})
    rec('init', 0, o)
    err = None
    for step in range(rng.randint(5, 40)):
        c = rng.random()
        if big and step == 0:
            c = 0.0
        try:
            if c < 0.06:
                o = tree.request(nodes, o['cookie'], special='expand_all', src=src)
                rec('expand_all', 0, o)
            elif c < 0.1:
                o = tree.request(nodes, o['cookie'], special='collapse_all', src=src)
                rec('collapse_all', 0, o)
            elif c < 0.15 or not o['links']:
                o = tree.request(nodes, o['cookie'], src=src)
                rec('reload', 0, o)
            else:
                nid = rng.choice(sorted(o['links']))
                o = tree.request(nodes, o['cookie'], o['links'][nid], src=src)
                rec('click', num[nid], o)
        except Exception as e:  # noqa
            err = '%s: %s' % (type(e).__name__, str(e)[:100])
            break
    return {'n': n, 'parent': par2, 'opt': opt, 'source': src, 'steps': steps, 'err': err, 'ids': style, 'seed': seed}


class _Poisoned(tree.Node):
    """a node whose row cannot be rendered for this reader: reading what the row shows raises Unauthorized"""

    @property
    def uid(self):
        from zExceptions import Unauthorized
        raise Unauthorized('uid')

    @uid.setter
    def uid(self, v):
        self.__dict__['_uid'] = v


def su_history(seed):
    """dtml-tree with skip_unauthorized under a template class that supplies guards, some leaves' rows not renderable: a request
    is either refused as a whole (nothing to check), or what it shows -- rows, links, the cookie, what the links then do -- is
    what the machine says for the tree without those leaves"""
    from DocumentTemplate.DT_HTML import HTML
    rng = random.Random(seed)
    n = rng.randint(5, 12)
    parent = [0] + [rng.randint(max(1, i - 3), i - 1) for i in range(2, n + 1)]
    kids = {}
    for i, p in enumerate(parent, 1):
        kids.setdefault(p, []).append(i)
    order = []

    def dfs(x):
        order.append(x)
        for c in kids.get(x, []):
            dfs(c)
    dfs(1)
    ren = {old: new for new, old in enumerate(order, 1)}
    par2 = [0] * n
    for old in order:
        par2[ren[old] - 1] = ren.get(parent[old - 1], 0) if old != 1 else 0
    haskids = {p for p in par2 if p}
    leaves = [i for i in range(2, n + 1) if i not in haskids]
    poisoned = set()
    for lf in leaves:
        sib_ok = [j for j in range(2, n + 1) if par2[j - 1] == par2[lf - 1] and j != lf and j not in poisoned]
        if sib_ok and rng.random() < 0.5:
            poisoned.add(lf)
    if not poisoned:
        return None
    nodes = tree.build(par2, None, variant=0)
    for i in poisoned:
        u = nodes[i - 1].__dict__.pop('uid')
        nodes[i - 1].__class__ = _Poisoned
        nodes[i - 1].__dict__['_uid'] = u
    # the machine's tree: without the poisoned leaves, numbered in the same (depth-first) order
    keep = [i for i in range(1, n + 1) if i not in poisoned]
    newnum = {old: k + 1 for k, old in enumerate(keep)}
    mpar = [newnum.get(par2[old - 1], 0) for old in keep]
    num = {nodes[old - 1].__dict__.get('uid', nodes[old - 1].__dict__.get('_uid')): newnum[old] for old in keep}
    G = _SU.get('cls')
    if G is None:
        G = _SU['cls'] = type('GuardedTreeHTML', (HTML,), {'guarded_getattr': staticmethod(lambda ob, name: getattr(ob, name)),
                                                          'guarded_getitem': staticmethod(lambda ob, i: ob[i])})
    opt = mkopt({}, len(keep), rng)
    src = tree.source(opt, variant=0).replace('<dtml-tree root', '<dtml-tree root skip_unauthorized=1')
    steps = []

    def rec(op, x, o):
        steps.append({'op': op, 'x': x, 'rows': [[k, num[r]] for k, r in o['items']],
                      'state': sorted(num.get(s_, -1) for s_ in o['state'] if s_ != nodes[0].uid),
                      'links': sorted([num[k], 'c' if v[0] == 'tree-c' else 'e'] for k, v in o['links'].items())})
    refused = False
    try:
        o = tree.request(nodes, src=src, cls=G)
        rec('init', 0, o)
        for step in range(rng.randint(4, 14)):
            c = rng.random()
            if c < 0.12:
                o = tree.request(nodes, o['cookie'], special='expand_all', src=src, cls=G)
                rec('expand_all', 0, o)
            elif c < 0.2 or not o['links']:
                o = tree.request(nodes, o['cookie'], src=src, cls=G)
                rec('reload', 0, o)
            else:
                nid = rng.choice(sorted(o['links']))
                o = tree.request(nodes, o['cookie'], o['links'][nid], src=src, cls=G)
                rec('click', num[nid], o)
    except Exception as e:  # noqa
        if type(e).__name__ == 'Unauthorized':
            refused = True
        else:
            return {'n': len(keep), 'parent': mpar, 'opt': opt, 'source': src, 'steps': steps, 'err': '%s: %s' % (type(e).__name__, str(e)[:100]),
                    'ids': 'su', 'seed': seed}
    if refused and not steps:
        return {'refused': True}
    return {'n': len(keep), 'parent': mpar, 'opt': opt, 'source': src, 'steps': steps, 'err': None, 'ids': 'su', 'seed': seed}


_SU = {}


def codec_case(seed):
    from TreeDisplay import TreeTag
    rng = random.Random(seed)
    k = rng.randint(0, 60)
    alphabet = 'abcdefghijklmnopqrstuvwxyz0123456789é日'
    maxid = 9
    if seed % 10 == 0:           # any state size: up to a few hundred kilobytes of JSON
        k = rng.choice((100, 300, 1000, 3000))
        maxid = rng.choice((9, 40, 80))
    state = [[''.join(rng.choice(alphabet) for _ in range(rng.randint(1, maxid))), []] for _ in range(k)]
    if seed % 20 == 0:           # and nested
        state = [[e[0], state[:3]] for e in state[:50]]
    state = [['root', state]]
    n = len(TreeTag.compress(json.dumps(state)))
    try:
        enc = TreeTag.encode_seq(state)
        dec = TreeTag.decode_seq(enc)
        ok = dec == state
        err = None if ok else 'decoded state differs'
    except Exception as e:  # noqa
        ok, err, enc = False, '%s: %s' % (type(e).__name__, str(e)[:80]), ''
    return {'n': n, 'ok': ok, 'err': err, 'enclen': len(enc), 'seed': seed}


def main(tier):
    global _TREES
    V = common.Verdicts(PID, tier)
    rng = random.Random(common.seed())
    shapes = trees(6 if tier == 'quick' else 7, 4)
    _TREES = []
    for i, p in enumerate(shapes):
        # every option record on the small trees, three of them (rotating) on the larger ones
        os_ = OPTS if len(p) <= (5 if tier == 'quick' else 6) else [OPTS[0]] + [OPTS[1 + (i + j) % (len(OPTS) - 1)] for j in range(3)]
        for o in os_:
            _TREES.append((p, mkopt(o, len(p), rng)))
    cases = [{'n': len(p), 'parent': p, 'opt': {k: v for k, v in o.items() if k != 'sorted'}} for p, o in _TREES]
    out = []
    res = tlc.run('DTTree', CFG, files={'cases.json': json.dumps(cases)}, on_print=out.append, keep_prints=False,
                  timeout=3000, extra_java=['-Xss256m'])
    if res.violated:
        raise tlc.TLCFailure('DTTree machine violates %s\n%s' % (res.violated, (res.error_trace or '')[:1500]))
    states, trans = res.distinct, res.generated
    by = {}
    for r in out:
        by.setdefault(r['tid'], []).append(r)
    ntrans = 0
    for r in common.pool_map(lockstep, sorted(by.items()), chunk=4, per_case=25 if tier == 'quick' else 300):
        if '_crash' in r:
            raise tlc.TLCFailure('harness crash: %s' % repr(r)[:1500])
        if '_timeout' in r:
            V.violation({'kind': 'no-result', 'detail': repr(r)[:600]})
            continue
        ntrans += r['done']
        V.count('transitions_replayed', r['done'])
        if r['unreached']:
            V.count('transitions_unreached', r['unreached'])
        for b in r['bad']:
            V.violation({'kind': 'transition', 'tree_parent': r['parent'], 'options': {k: v for k, v in r['opt'].items() if v and k != 'rank'}, 'source': r['source'], 'op': b['step']['op'], 'node': b['step']['x'],
                         'from': b['step']['from'], 'why': b['why']})
    # random larger trees / histories, validated by TLC
    hs = common.pool_map(random_history, [common.seed() * 100003 + i for i in range(150 if tier == 'quick' else 1500)],
                         chunk=10, per_case=40 if tier == 'quick' else 120)
    for h in common.pool_map(su_history, [common.seed() * 31337 + i for i in range(60 if tier == 'quick' else 600)], chunk=10, per_case=60):
        if h is None:
            continue
        if isinstance(h, dict) and h.get('refused'):
            V.count('guarded_tree_requests_refused_as_a_whole')
            continue
        hs.append(h)
    traces = []
    for h in hs:
        if '_crash' in h or '_timeout' in h:
            V.violation({'kind': 'no-result', 'detail': repr(h)[:600]})
            continue
        if h['err']:
            V.violation({'kind': 'history', 'seed': h['seed'], 'ids': h['ids'], 'parent': h['parent'], 'why': h['err'],
                         'steps_before': [(s['op'], s['x']) for s in h['steps']]})
        traces.append(h)
    ocfg = 'INIT OInit\nNEXT ONext\nINVARIANT Verdict\nCHECK_DEADLOCK FALSE\n'
    r2 = tlc.run('ObsTree', ocfg, files={'cases.json': json.dumps(
        [{'n': h['n'], 'parent': h['parent'], 'opt': {k: v for k, v in h['opt'].items() if k != 'sorted'}, 'steps': h['steps']} for h in traces])}, workers=8, timeout=3000,
                 extra_java=['-Xss256m'])      # Rows is recursive over trees of up to 160 nodes
    states += r2.distinct
    trans += r2.generated
    verd = {v['tid'] - 1: v for v in r2.prints if 'accepted' in v}
    for i, h in enumerate(traces):
        v = verd.get(i)
        if v is None:
            raise tlc.TLCFailure('no verdict for history %d' % i)
        if v['accepted']:
            V.count('histories_accepted')
        else:
            st = h['steps'][min(v['at'], len(h['steps'])) - 1]
            V.violation({'kind': 'history', 'seed': h['seed'], 'ids': h['ids'], 'parent': h['parent'], 'source': h['source'], 'rejected_at': v['at'],
                         'bad': v['bad'], 'step': st, 'clicks': [(s['op'], s['x']) for s in h['steps'][:v['at']]]})
    # codec
    covered = set()
    for c in common.pool_map(codec_case, [common.seed() * 7919 + i for i in range(3000 if tier == 'quick' else 40000)],
                             chunk=500, per_case=30):
        if '_crash' in c or '_timeout' in c:
            V.violation({'kind': 'no-result', 'detail': repr(c)[:600]})
            continue
        covered.add(c['n'])
        V.count('codec_roundtrips')
        if not c['ok']:
            V.violation({'kind': 'codec', 'compressed_len': c['n'], 'why': c['err'], 'seed': c['seed']})
    cov = {'states': states, 'transitions': trans,
           'traces_validated_against_impl': ntrans + V.counters.get('histories_accepted', 0),
           'trees': len(shapes), 'tree_option_cases': len(_TREES), 'model_transitions_exported': len(out), 'exhaustive': True,
           'compressed_lengths_covered': [min(covered), max(covered), len(covered)] if covered else [],
           'rule': 'all ordered rooted trees up to the tier size (5 quick / 7 thorough nodes, depth <= 4): every transition '
                   'of the reachable state graph (click on every link, expand_all, collapse_all, reload) driven through '
                   'the real tag by cookie and generated link; random trees up to 40 nodes with long / non-ASCII ids and '
                   'random histories up to 40 validated by TLC; codec round trips over random states',
           'samples': [out[len(out) // 2], {'tree': _TREES[-1][0], 'source': tree.source(_TREES[-1][1])}],
           'option_records': OPTS}
    return V.finish(cov, assumptions=['zlib, base64 and json are trusted primitives; ids are strings unique among siblings (a third of the trees repeat ids along paths)',
                                      'options covered: assume_children, leaves, header, footer, single, sort, reverse (modelled), branches / branches_expr / id / nowrap / prefix / urlparam (spellings the model does not distinguish)'])


def replay_file(path):
    data = json.load(open(path))
    for v in data['violations']:
        print(json.dumps(v)[:1500])
    return 1 if data['violations'] else 0
