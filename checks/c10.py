"""C10 -- dtml-in visits each element once, in order, with correct sequence variables.

Machine: spec/DTRender.tla -- RbIn (emptiness -> else body without pushes; cache frame for a named
sequence; the sequence-variables frame), InItem (2-tuple split, push rule: no_push_item / mapping /
strings not pushed / InstanceDict), InRet, and the defining operators SvValue/SvLookup for every
documented variable (item, key, index, number, letter, Letter, roman, Roman, even, odd, start, end,
length, first-x, last-x, sequence-var-x, prefix aliases).
"""
import itertools
import random

from harness import common
from harness.render import *  # noqa
from checks import render_common

PID = 'C10'
FIXED = ['index', 'number', 'letter', 'Letter', 'roman', 'Roman', 'even', 'odd', 'start', 'end', 'length']


def elem(kind, i, xv):
    r = 1 if xv == 'x1' else 2
    x = plain(xv, o=r)
    if kind == 'obj':
        return obj('E%d' % i, x=x)
    if kind == 'map':
        return mp('E%d' % i, x=x)
    if kind == 'pair':
        return pair(plain('key%d%s' % (3 - r, i), o=(3 - r) * 10 + i), obj('E%d' % i, x=x))
    if kind == 'pairs':          # (key, string)
        return pair(plain('key%d%s' % (3 - r, i), o=(3 - r) * 10 + i), plain('s%d%s' % (i, xv)))
    if kind == 'str':
        return plain('s%d%s' % (r, i), o=r * 10 + i)
    if kind == 'num':
        return num(10 * i + (1 if xv == 'x1' else 2))
    raise ValueError(kind)


def body(kind, pre, nopush, P='p'):
    b = [T('[')]
    for s in FIXED:
        b += [V('sequence-' + s), T(',')]
    if pre:
        for s in FIXED:
            b += [V(P + '_' + s), T(',')]
    if kind in ('str', 'num', 'pairs'):
        b += [T('item='), V('sequence-item')] + ([T('/'), V(P + '_item')] if pre else [])
    if kind in ('pair', 'pairs'):
        b += [T('key='), V('sequence-key')] + ([T('/'), V(P + '_key')] if pre else [])
    if kind in ('obj', 'map', 'pair'):
        b += [T('var='), V('sequence-var-x'), T(' first='), V('first-x'), T(' last='), V('last-x')]
    # visibility of the element's attributes / keys (falls back to the outer x when not pushed)
    b += [T(' x='), V('x'), T(']')]
    return b


def cases_for(tier, rng):
    cases = []
    maxn = 4 if tier == 'quick' else 6
    containers = ['list', 'tuple', 'gen', 'iter', 'lazy']
    for kind in ('obj', 'map', 'pair', 'pairs', 'str', 'num'):
        for n in range(0, maxn + 1):
            for xs in itertools.product(('x1', 'x2'), repeat=n):
                if n >= 4 and rng.random() < (0.5 if tier == 'quick' else 0.3):
                    continue
                items = [elem(kind, i, xv) for i, xv in enumerate(xs)]
                for ck in containers:
                    opts = list(itertools.product((False, True), repeat=3))
                    if n >= 3:
                        opts = rng.sample(opts, 3)
                    for nopush, pre, rev in opts:
                        mapping = kind == 'map'
                        P = ('p', 'my_seq', 'row2')[(n + len(cases)) % 3]
                        sorts = [None]
                        if n >= 2:
                            sorts.append('x' if kind in ('obj', 'map', 'pair') else '')
                        for srt in sorts:
                            for ref in ((N('seq'), X('seq')) if (n <= 2 and ck == 'list') else (N('seq'),)):
                                blk = In(ref, body(kind, pre, nopush, P), [T('EMPTY'), V('x')], mapping=mapping,
                                         nopush=nopush, reverse=rev, pre=pre, sort=srt, prefix=P)
                                prog = [T('<'), blk, T('>'), V('x'),
                                        If([(N('sequence-index'), [T('LEAK')])], [T('clean')]),
                                        If([(N(P + '_index'), [T('LEAK')])], [T('clean')])]
                                cases.append(dict(prog=prog, src=sources(kw={'seq': lst('S', items, ck), 'x': plain('outer-x')}),
                                                  K=0, fk=[], svn=svn_table(prefix=P)))
    # the same sequence object traversed more than once in one rendering (side by side and nested): what one tag shows
    # (reversed, sorted) does not change what the next one sees
    short = [T('('), V('sequence-index'), T('='), V('sequence-item'), If([(N('sequence-start'), [T('S')])]),
             If([(N('sequence-end'), [T('E')])]), T(')')]
    shortx = [T('('), V('sequence-index'), T('='), V('sequence-var-x'), If([(N('sequence-start'), [T('S')])]),
              If([(N('sequence-end'), [T('E')])]), T(')')]
    for kind in ('str', 'num', 'obj', 'pair'):
        for n in (2, 3, 4):
            items = [elem(kind, i, ('x2', 'x1')[i % 2]) for i in range(n)]
            bd = short if kind in ('str', 'num') else shortx
            skey = 'x' if kind in ('obj', 'pair') else ''
            for ck in ('list', 'tuple', 'lazy'):
                for o1 in (dict(reverse=True), dict(sort=skey), dict(sort=skey, reverse=True)):
                    for o2 in (dict(), dict(reverse=True), dict(sort=skey)):
                        for r1, r2 in ((N('seq'), N('seq')), (X('seq'), N('seq')), (N('seq'), X('seq'))):
                            side = [In(r1, bd, **o1), T('|'), In(r2, bd, **o2), T('|'), In(r1, bd, **o1)]
                            nested = [In(r1, [T('{'), V('sequence-index')] + [In(r2, bd, **o2)] + [T('}')], **o1)]
                            for prog in (side, nested):
                                cases.append(dict(prog=prog, src=sources(kw={'seq': lst('S', items, ck), 'x': plain('outer-x')}),
                                                  K=0, fk=[], svn=svn_table()))
    # first-/last- over two attributes in one body, in every order: each variable looks at its own attribute of the neighbours
    for n in (2, 3, 4):
        for xs in itertools.product(('x1', 'x2'), repeat=n):
            for ys in itertools.product(('y1', 'y2'), repeat=n):
                if n == 4 and rng.random() < 0.6:
                    continue
                for mk, mapping in ((obj, False), (mp, True)):
                    items = [mk('E%d' % i, x=plain(xv), y=plain(yv)) for i, (xv, yv) in enumerate(zip(xs, ys))]
                    for order in (('last-x', 'first-y'), ('first-y', 'last-x'), ('last-y', 'first-x', 'last-x', 'first-y'),
                                  ('sequence-var-y', 'last-x', 'first-y', 'sequence-var-x')):
                        bd = [T('[')] + [z for v in order for z in (V(v), T(','))] + [T(']')]
                        cases.append(dict(prog=[In(N('seq'), bd, mapping=mapping)],
                                          src=sources(kw={'seq': lst('S', items)}), K=0, fk=[], svn=svn_table(attrs=('x', 'y'))))
    # attributes named like the fixed sequence variables (item, key, index, length): sequence-var-item is the element's attribute
    # `item`, first-key / last-key follow the runs of the attribute `key` -- also for pairs, mappings, with a prefix
    for a1, a2 in (('item', 'key'), ('index', 'length'), ('start', 'number')):
        for n in (2, 3):
            for xs in itertools.product(('x1', 'x2'), repeat=n):
                for mk, mapping in ((obj, False), (mp, True)):
                    items = [mk('E%d' % i, **{a1: plain(xv), a2: plain('y%d' % (i // 2))}) for i, xv in enumerate(xs)]
                    pitems = [pair(plain('key%d' % i, o=i), it) for i, it in enumerate(items)]
                    order = ('sequence-var-' + a1, 'first-' + a1, 'last-' + a1, 'sequence-var-' + a2, 'first-' + a2, 'sequence-index')
                    bd = [T('[')] + [z for v in order for z in (V(v), T(','))] + [T(']')]
                    for its, pre in ((items, False), (items, True), (pitems, False)):
                        if its is pitems and mapping:
                            continue
                        cases.append(dict(prog=[In(N('seq'), bd, mapping=mapping, pre=pre)],
                                          src=sources(kw={'seq': lst('S', its)}), K=0, fk=[], svn=svn_table(attrs=(a1, a2))))
    # batched: the body is rendered for the displayed window only; index / number / letter / roman / even / odd keep counting
    # in the whole sequence, sequence-start / -end mark the first / last displayed element
    for kind in ('obj', 'str', 'pair'):
        for n in range(1, 6):
            items = [elem(kind, i, ('x1', 'x2')[(i // 2) % 2]) for i in range(n)]
            for st in range(1, n + 2):
                for sz in (1, 2, 3):
                    for ck in ('list', 'tuple', 'gen', 'lazy'):
                        for pre, rev, be in ((False, False, False), (True, False, False), (False, True, False), (True, False, True),
                                             (False, False, True)):
                            blk = In(N('seq'), body(kind, pre, False), [T('EMPTY')], pre=pre, reverse=rev, start=st, size=sz, byend=be)
                            cases.append(dict(prog=[T('<'), blk, T('>'), V('x')],
                                              src=sources(kw={'seq': lst('S', items, ck), 'x': plain('outer-x')}), K=0, fk=[],
                                              svn=svn_table()))
    # mixed sequences: every element is pushed (or not) by its own kind -- objects, strings, numbers, pairs, None in one loop
    kinds = ('obj', 'str', 'num', 'pair', 'pairs')
    for n in (2, 3, 4):
        for ks in itertools.product(kinds, repeat=n):
            if len(set(ks)) < 2 or (n == 4 and rng.random() < 0.85):
                continue
            items = [elem(k, i, ('x1', 'x2')[i % 2]) for i, k in enumerate(ks)]
            bd = [T('['), V('sequence-index'), T(':'), V('x'), T(']')]
            for ck in ('list', 'gen'):
                for opts in (dict(), dict(start=1, size=n), dict(reverse=True)):
                    cases.append(dict(prog=[T('<'), In(N('seq'), bd, **opts), T('>'), V('x')],
                                      src=sources(kw={'seq': lst('S', items, ck), 'x': plain('outer-x')}), K=0, fk=[], svn=svn_table()))
    # the preparation of the loop fails (a sort_expr / reverse_expr / batch parameter naming an undefined variable) after the
    # sequence was evaluated: handled by an enclosing try, nothing of the tag stays behind -- the name is looked up afresh
    fs = fn('FS2', lst('S', [elem('obj', 0, 'x1'), elem('obj', 1, 'x2')]))
    fe = fn('FE', lst('E', []))
    for pf in ('sort_expr', 'reverse_expr', 'size'):
        for ref, nsx in ((N('fs'), {'fs': fs}), (N('fe'), {'fe': fe}), (X('ls'), {'ls': lst('S', [elem('obj', 0, 'x1')])})):
            bad = In(ref, [T('never')], [T('EMPTY')], prepfail=pf)
            again = In(ref, [V('sequence-index'), V('x')], [T('EMPTY2')])
            for wrap in (lambda b: b, lambda b: [Let([('y', X('x'))], b)], lambda b: [With(X('o'), b)]):
                prog = wrap([Try([bad], [([], [T('E:'), V('error_type')])], None), T('|'), again]) + [T('|'), V('x')]
                cases.append(dict(prog=prog, src=sources(kw=dict(nsx, x=plain('outer-x'), o=obj('O', q=plain('Q')))), K=0, fk=[],
                                  svn=svn_table()))
    # the body raises while an element is pushed (at the first, a middle, the last element), an enclosing try handles it: nothing
    # the tag bound -- the element, the loop variables, the cached sequence, prefixed aliases -- is visible afterwards
    def bomb_elem(kind, i, armed):
        extra = {'bomb': plain('B')} if armed else {}
        if kind == 'obj':
            return obj('E%d' % i, x=plain('x1', o=1), **extra)
        if kind == 'map':
            return mp('E%d' % i, x=plain('x1', o=1), **extra)
        return pair(plain('key%d' % i, o=i), obj('E%d' % i, x=plain('x1', o=1), **extra))
    for kind in ('obj', 'map', 'pair'):
        for n in (1, 3):
            for at in sorted({0, n // 2, n - 1}):
                items = [bomb_elem(kind, i, i == at) for i in range(n)]
                for opts in (dict(), dict(pre=True), dict(start=1, size=n), dict(reverse=True)):
                    if kind == 'map':
                        opts = dict(opts, mapping=True)
                    boom = [T('('), V('sequence-index'), If([(N('bomb'), [Raise('KeyError', [T('boom')])])]), T(')')]
                    after = [T('|x='), V('x'), T('|'), Vx(HasKey('sequence-item')), Vx(HasKey('sequence-index')),
                             Vx(HasKey('p_number')), Vx(HasKey('bomb'))]
                    for ref, nsx in ((N('seq'), {'seq': lst('S', items)}), (X('seq'), {'seq': lst('S', items)}),
                                     (N('fs'), {'fs': fn('FSB', lst('S', items))})):
                        prog = [Try([In(ref, boom, **opts), T('not-reached')], [([], [T('caught:'), V('error_type')] + after)], None)] + after
                        cases.append(dict(prog=prog, src=sources(kw=dict(nsx, x=plain('outer-x'))), K=0, fk=[], svn=svn_table()))
    # None is an element like any other (every pattern of None / string elements, every container)
    for n in range(1, 5):
        for pat in itertools.product((False, True), repeat=n):
            if not any(pat):
                continue
            items = [none() if isn else plain('s%d' % i) for i, isn in enumerate(pat)]
            for ck in containers:
                for nopush, pre in ((False, False), (True, True)):
                    blk = In(N('seq'), body('str', pre, nopush), [T('EMPTY'), V('x')], nopush=nopush, pre=pre)
                    cases.append(dict(prog=[T('<'), blk, T('>'), V('x')],
                                      src=sources(kw={'seq': lst('S', items, ck), 'x': plain('outer-x')}), K=0, fk=[], svn=svn_table()))
    # a callable that returns the sequence is called once, by name
    f = fn('FS', lst('S', [elem('obj', 0, 'x1'), elem('obj', 1, 'x1'), elem('obj', 2, 'x2')]))
    cases.append(dict(prog=[In(N('fs'), body('obj', True, False)), V('x')],
                      src=sources(kw={'fs': f, 'x': plain('outer-x')}), K=0, fk=[], svn=svn_table()))
    # nested loops: the inner one's variables shadow the outer one's until its end tag
    inner = In(N('in2'), [T('('), V('sequence-number'), V('sequence-item'), T(')')])
    cases.append(dict(prog=[In(N('seq'), [V('sequence-number'), inner, V('sequence-number'), V('sequence-var-x'), T(';')]), V('x')],
                      src=sources(kw={'seq': lst('S', [elem('obj', 0, 'x1'), elem('obj', 1, 'x2')]),
                                      'in2': lst('S2', [plain('a'), plain('b'), plain('c')]), 'x': plain('outer-x')}),
                      K=0, fk=[], svn=svn_table()))
    return cases


def main(tier):
    rng = random.Random(common.seed())
    cases = cases_for(tier, rng)
    return render_common.run(
        PID, tier, cases, ['result', 'calls', 'evs', 'depth'], batch=3000,
        assumptions=['sequence-key is only printed for 2-tuples and first-x/last-x/sequence-var-x only where every '
                     'element has x (the statement leaves the other cases open, DESIGN C10)',
                     'sort, batching and statistics are decided by C13, C11/C12 and C16'],
        rule='sequences of length 0..N over {objects, mappings, (key, object), (key, string), strings, numbers} '
             'with x in {x1, x2} (all value patterns) x container {list, tuple, generator, iterator, lazy '
             '__getitem__ sequence} x {no_push_item, prefix, reverse} x by name / by expression; the body prints '
             'every documented variable, with prefix aliases, and the visibility of x; probes after the end tag; the same sequence '
             'object traversed by several tags (side by side, nested) with reverse / sort on some of them')


replay = render_common.replay
