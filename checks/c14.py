"""C14 -- try/except/else/finally, raise and return follow Python-like control flow.

Machine: spec/DTRender.tla (RbTry/TryRet/TryExc: first matching handler by class name, bare
except, or any base class; error_type/error_value bound in the handler only; else only when the
body raised nothing; exceptions from handler/else propagate; RbTryF/TryFRet/TryFExc: finally
always once, pending exception or return continues; Raise*: class + rendered body as message;
RbReturn/CallExc: dtml-return ends the call from any depth and is never caught by handlers).
Cases: handler lists over a class hierarchy of depth 3, raising position body/handler/else/finally,
nested try blocks, return/raise inside every block kind.  Observables: result (text, returned
value, or propagated class + message) and the log of invoked callables.
"""
import itertools
import random

from harness import common
from harness.render import *  # noqa
from checks import render_common

PID = 'C14'

# hierarchy: Exception > LookupError > KeyError ; LookupError > IndexError ; Exception > ValueError
HNAMES = ['KeyError', 'LookupError', 'Exception', 'ValueError', 'IndexError', '']
RAISED = ['KeyError', 'IndexError', 'LookupError', 'ValueError', 'ZeroDivisionError']

NS = {'f1': fn('F1', plain('R1')), 'f2': fn('F2', plain('R2')), 'v': plain('V'),
      'error_type': plain('outer-et'), 'error_value': plain('outer-ev'),
      'seq': lst('s', [plain('i1'), plain('i2')]), 'o': obj('O', a=plain('A')),
      'rv': plain('RETURNED'), 'rz': plain('z', False), 'rn': num(7),
      # dtml-return hands back the value itself, whatever its type: bytes stay bytes, containers keep their identity
      'rb': byt('caf\u00e9 \u20ac'), 'rl': lst('RL', [plain('e1'), plain('e2')]), 'rm': mp('RM', k=plain('v')), 'ro': obj('RO', a=plain('A'))}


def raiser(cls, tag):
    return Raise(cls, [T('msg-' + tag)])


def handler_lists(maxlen, rng, cap):
    out = []
    for n in range(0, maxlen + 1):
        for names in itertools.permutations(HNAMES, n):
            if list(names).count('') > 1:
                continue
            out.append(list(names))
    # multi-name handlers
    out += [[('KeyError', 'ValueError')], [('IndexError', 'ValueError'), 'LookupError'], ['', ],
            # a class named by more than one clause: the first clause naming it (or a base of the raised class) is the handler
            ['KeyError', ('LookupError', 'KeyError')], ['KeyError', 'KeyError'], [('ValueError', 'KeyError'), 'KeyError', ''],
            ['LookupError', ('IndexError', 'LookupError'), 'Exception'], ['ValueError', 'IndexError', ('ValueError', 'IndexError')]]
    if len(out) > cap:
        rng.shuffle(out)
        out = out[:cap]
    return out


def mk_try(body, names, he, hraise=None, eraise=None):
    hs = []
    for i, n in enumerate(names):
        nn = list(n) if isinstance(n, tuple) else ([n] if n else [])
        hb = [T('H%d[' % i), V('error_type'), T(':'), V('error_value'), T(']')]
        if hraise and i == hraise[0]:
            hb.append(raiser(hraise[1], 'h'))
        hs.append((nn, hb))
    e = None
    if he:
        e = [T('ELSE')] + ([raiser(eraise, 'e')] if eraise else [])
    return Try(body, hs, e)


def cases_for(tier, rng):
    cases = []
    src = lambda: sources(kw=dict(NS))  # noqa
    tail = [T('|after:'), V('error_type'), V('error_value')]
    hl = handler_lists(3, rng, 160 if tier == 'quick' else 400)
    # 1. handler selection: every handler list x every raised class (or none) x else
    for names in hl:
        for cls in RAISED + [None]:
            for he in (False, True):
                body = [T('b1'), V('f1')] + ([raiser(cls, 'b')] if cls else []) + [T('b2')]
                cases.append(dict(prog=[mk_try(body, names, he)] + tail, src=src(), K=0, fk=[]))
    # 2. raising in handler / else; nested: the outer try sees what escapes the inner one
    for names in hl[::3]:
        for cls in RAISED[:3]:
            for hc in RAISED[1:4]:
                for pos in range(max(1, len(names))):
                    inner = mk_try([raiser(cls, 'b')], names, True, hraise=(pos, hc))
                    cases.append(dict(prog=[Try([inner], [(['LookupError'], [T('OL'), V('error_type')]),
                                                          (['ValueError'], [T('OV'), V('error_value')])], [T('OE')])] + tail,
                                      src=src(), K=0, fk=[]))
            inner = mk_try([T('fine')], names, True, eraise=cls)
            cases.append(dict(prog=[Try([inner], [([], [T('O['), V('error_type'), T(']')])], None)] + tail,
                              src=src(), K=0, fk=[]))
    # 3. finally: body normal / raises / returns; finally itself raises / returns; nested in try
    for cls in RAISED[:3] + [None, 'ret']:
        for fcls in [None, 'ValueError', 'ret']:
            b = [T('b'), V('f1')] + ([raiser(cls, 'b')] if cls and cls != 'ret' else [Return(N('rv'))] if cls == 'ret' else [])
            f = [T('F'), V('f2')] + ([raiser(fcls, 'f')] if fcls and fcls != 'ret' else [Return(N('rn'))] if fcls == 'ret' else [])
            tf = TryF(b, f)
            cases.append(dict(prog=[tf] + tail, src=src(), K=2, fk=['ValueError', 'dtreturn']))
            cases.append(dict(prog=[Try([tf, T('x')], [(['LookupError'], [T('L'), V('error_type')]), ([], [T('any'), V('error_value')])], [T('E')])] + tail,
                              src=src(), K=2, fk=['KeyError', 'dtreturn']))
            cases.append(dict(prog=[TryF([tf], [T('F2'), V('f1')])] + tail, src=src(), K=3, fk=['IndexError']))
    # 4. return / raise from inside every block kind, at depth 1..3, inside a try with a bare except
    def blocks(inner):
        return [If([(N('v'), inner)]), Unless(N('nope'), inner), In(N('seq'), inner), With(N('o'), inner),
                Let([('q', N('v'))], inner), Try(inner, [(['ZeroDivisionError'], [T('z')])], None),
                Try([raiser('KeyError', 'x')], [(['KeyError'], inner)], None),
                Try([T('ok')], [([], [T('h')])], inner), TryF(inner, [T('fin')]), TryF([T('tb')], inner),
                Raise('ValueError', inner), Comment('c')]
    for ret in (Return(N('rv')), Return(N('rz')), Return(N('rn')), Return(C('f2')), Return(N('rb')), Return(X('rb')), Return(N('rl')),
                Return(X('rm')), Return(N('ro')), raiser('KeyError', 'deep'),
                raiser('ValueError', 'deep')):
        lv1 = blocks([T('in'), ret, T('unreached')])
        for b1 in lv1:
            cases.append(dict(prog=[T('pre'), Try([b1, T('post')], [([], [T('CAUGHT:'), V('error_type'), V('error_value')])], None)] + tail,
                              src=src(), K=0, fk=[]))
            cases.append(dict(prog=[T('pre'), b1, T('post')], src=src(), K=0, fk=[]))
        lv2 = [b2 for b1 in lv1[:10] for b2 in blocks([b1])]
        if tier == 'quick':
            rng.shuffle(lv2)
            lv2 = lv2[:150]
        for b2 in lv2:
            cases.append(dict(prog=[Try([b2], [(['Exception'], [T('C:'), V('error_type')])], [T('E')])] + tail,
                              src=src(), K=0, fk=[]))
            if tier == 'thorough':
                for b3 in blocks([b2])[:6]:
                    cases.append(dict(prog=[b3] + tail, src=src(), K=0, fk=[]))
    # 6. exception classes with several direct bases (raised by namespace callables): every base is a match
    mnames = ['ValueError', 'LookupError', 'OSError', 'KeyError', 'MultiError', '']
    for cls in ('MultiError', 'DeepMultiError', 'UnsupportedOperation'):
        ns6 = dict(NS, fx=fn('FX', plain('never'), beh=cls))
        for n in (1, 2):
            for names in itertools.permutations(mnames, n):
                body = [T('b1'), V('fx'), T('b2')]
                cases.append(dict(prog=[Try([mk_try(body, list(names), False)], [([], [T('OUT:'), V('error_type')])], None)] + tail,
                                  src=sources(kw=ns6), K=0, fk=[]))
    # 7. dtml-raise with an expression: the class is what the expression evaluates to, also when the text happens to be the
    #    name of a well-known class; a text that cannot be evaluated falls back to that class
    ns7 = dict(NS, AppErr=exccls('AppError'), LookupError=exccls('AppError'), KeyError=exccls('MultiError'))
    for nm in ('AppErr', 'LookupError', 'KeyError', 'ValueError', 'nosuch'):
        for names in (['AppError'], ['LookupError', 'AppError'], ['ValueError', ''], ['MultiError', 'KeyError'], ['Exception']):
            body = [T('b1'), Raise(nm, [T('m-'), V('v')], x=True), T('b2')]
            cases.append(dict(prog=[Try([mk_try(body, names, True)], [([], [T('OUT:'), V('error_type'), T('/'), V('error_value')])], None)] + tail,
                              src=sources(kw=ns7), K=0, fk=[]))
    # 8. an exception outside the Exception branch (a cancelled request, KeyboardInterrupt, SystemExit) raised by a namespace
    #    callable: no handler naming another class catches it, every finally body on its way out is rendered exactly once
    ns8 = dict(NS, fx=fn('FX', plain('never'), beh='Cancelled'))
    tf8 = TryF([T('b'), V('f1'), V('fx'), T('b2')], [T('F'), V('f2')])
    progs8 = [[tf8], [TryF([tf8], [T('F2'), V('f1')])],
              [Try([tf8], [(['Exception'], [T('H'), V('error_type')]), (['KeyError', 'ValueError'], [T('K')])], [T('E')])],
              [TryF([Try([V('fx')], [(['LookupError'], [T('L')]), (['Exception'], [T('X')])], [T('E')])], [T('F'), V('f2')])],
              [TryF([Raise('ValueError', [T('m'), V('fx')])], [T('F'), V('f2')])],
              [TryF([T('b'), V('fx')], [T('F'), V('f2'), Return(N('rv'))])],
              [TryF([T('b'), V('fx')], [T('F'), raiser('KeyError', 'f')])]]
    progs8 += [[b1] for b1 in blocks([T('in'), tf8, T('unreached')])]
    for pg in progs8:
        cases.append(dict(prog=[T('pre')] + pg + tail, src=sources(kw=ns8), K=0, fk=[]))
        cases.append(dict(prog=[T('pre')] + pg + tail, src=sources(kw=dict(NS, fx=fn('FX', plain('fine')))), K=2, fk=['Cancelled']))
    # 9. a template that calls itself (a recursive method) from a finally body / handler while its own dtml-return is pending:
    #    every call returns its own value
    def rec(body):
        return tmpl('rec', body, {})
    again = [If([(N('d1'), [Let([('d1', N('zero')), ('rv', N('other'))], [T('{'), V('rec'), T('}')])])])]
    bodies9 = [
        [TryF([T('b'), Return(N('rv')), T('no')], [T('F')] + again)],
        [TryF([TryF([Return(N('rv'))], [T('F1')] + again)], [T('F2'), V('f1')])],
        [Try([raiser('KeyError', 'k')], [(['KeyError'], [TryF([Return(N('rv'))], again)])], None)],
        [TryF([T('b')] + again + [Return(N('rv'))], [T('F'), V('f2')])],
        [In(N('seq'), [TryF([Return(N('rv'))], again)])],
    ]
    for bd in bodies9:
        ns9 = dict(NS, rec=rec(bd), d1=plain('yes'), zero=plain('z', False), rv=plain('OUTER'), other=plain('INNER'))
        cases.append(dict(prog=[T('<'), V('rec'), T('>')] + tail, src=sources(kw=ns9), K=0, fk=[]))
        cases.append(dict(prog=[T('<'), Try([V('rec')], [([], [T('H')])], [T('E')]), T('>')] + tail, src=sources(kw=ns9), K=2, fk=['ValueError']))
    # 10. the message of dtml-raise is the rendered body as it is -- leading / trailing blanks and line ends included -- whatever
    #     class is raised (builtins, the application server's HTTP exceptions)
    for cls in ('KeyError', 'ValueError', 'Redirect', 'NotFound', 'RuntimeError'):
        for bd in ([T(' http://h/next ')], [T('  http://h/a?b=c\n')], [T('u'), V('v'), T('\t')], [T('  '), V('v')], [T('plain')]):
            for names in (['Exception'], [cls], ['HTTPException', ''], ['LookupError', 'ValueError']):
                cases.append(dict(prog=[Try([Raise(cls, bd)], [([n_] if n_ else [], [T('['), V('error_type'), T('|'), V('error_value'), T(']')])
                                                               for n_ in names], None)] + tail, src=src(), K=0, fk=[]))
            cases.append(dict(prog=[T('a'), Raise(cls, bd)], src=src(), K=0, fk=[]))
    # 11. two classes that bear the same name but have different bases, raised one after the other inside the same try tag (a loop,
    #     a second rendering): each time the handler is chosen for the class that was raised
    for order in (('ErrorA', 'ErrorB'), ('ErrorB', 'ErrorA'), ('ErrorA', 'ErrorB', 'ErrorA'), ('ErrorB', 'ErrorB', 'ErrorA')):
        items = lst('EL', [obj('E%d' % i_, boom=fn('BOOM%d' % i_, plain('never'), beh=c_)) for i_, c_ in enumerate(order)])
        for names in (['OSError'], ['OSError', 'Error'], ['ValueError', 'OSError'], ['Error'], ['LookupError']):
            inner = mk_try([T('b'), V('boom'), T('never')], names, True)
            prog = [In(N('el'), [T('('), Try([inner], [([], [T('out:'), V('error_type')])], None), T(')')])] + tail
            cases.append(dict(prog=prog, src=sources(kw=dict(NS, el=items)), K=0, fk=[]))
    # 5. sub-template: return ends only the sub-template's call
    sub = tmpl('sub', [T('S1'), Try([Return(N('rv'))], [([], [T('never')])], None), T('S2')])
    ns = dict(NS, sub=sub)
    cases.append(dict(prog=[T('a'), V('sub'), T('b')], src=sources(kw=ns), K=0, fk=[]))
    cases.append(dict(prog=[Try([V('sub'), raiser('KeyError', 'k')], [(['KeyError'], [V('sub'), V('error_value')])], None)],
                      src=sources(kw=ns), K=0, fk=[]))
    return cases


def main(tier):
    rng = random.Random(common.seed())
    cases = cases_for(tier, rng)
    return render_common.run(
        PID, tier, cases, ['result', 'calls'], batch=2500,
        assumptions=['exception classes are builtins (Exception > LookupError > KeyError, IndexError; ValueError; '
                     'ZeroDivisionError) raised by dtml-raise or by namespace callables; classes with two direct bases (a custom '
                     'LookupError+ValueError class, its subclass, io.UnsupportedOperation) raised by namespace callables',
                     'messages are compared as the first argument of the exception'],
        rule='handler lists (permutations of <= 3 of 5 class names and the bare handler, multi-name handlers) x '
             'raised class x else; raises in handler/else inside an outer try; finally x {normal, raise, return} '
             'x faults; return/raise inside every block kind nested to depth 2 (3 thorough); sub-template return')


replay = render_common.replay
