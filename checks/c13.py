"""C13 -- sorting yields a stable, correctly ordered permutation and never mutates input.

Machine: spec/DTSort.tla (Decorate / Insert / Reverse; comparators of the function and the plain
path; clauses Permutation, Ordered, Stable over (input, spec, order); InvReverse, InvInputKept).
P1: every exported behaviour is replayed into dtml-in for every key type that can realise it
(str, int, float, bool, date, Decimal, callable attribute), as objects and as mappings, with sort=
and sort_expr=, batched and unbatched; the displayed order is compared with the machine's.
P2: every departure (and a sample) is validated by TLC (ObsSort) against the clauses; only a
failing clause, an exception, or a modified caller's list is a violation.
"""
import collections
import datetime
import decimal
import itertools
import json
import random

from harness import common, tlc
from harness.tlaval import Raw, mc_module, tla

PID = 'C13'

# o: rank under cmp, f: rank under case folding, u: rank under the user's comparison function (namespace name cf)
ATOMS = [{'p': 'val', 'o': 2, 'f': 1, 'u': 3}, {'p': 'val', 'o': 1, 'f': 2, 'u': 2}, {'p': 'val', 'o': 3, 'f': 2, 'u': 1}]
NONE, MISSING = {'p': 'none', 'o': 0, 'f': 0, 'u': 0}, {'p': 'missing', 'o': 0, 'f': 0, 'u': 0}
URANK = {2: 3, 1: 2, 3: 1}          # o -> u


def user_cmp(typ):
    """the comparison function the namespace supplies under the name cf: orders the concrete keys by their u rank"""
    inv = {keyval(a, typ): a['u'] for a in ATOMS}

    def cf(a, b):
        ra, rb = inv[a], inv[b]
        return (ra > rb) - (ra < rb)
    return cf
KEYS = [NONE, MISSING] + ATOMS
STR = {(2, 1): 'a', (1, 2): 'B', (3, 2): 'b'}


def lists(nkeys, maxlen, rng, cap):
    out = []
    dom = KEYS if nkeys == 1 else [(a, b) for a in KEYS for b in KEYS]
    for n in range(0, maxlen + 1):
        combos = list(itertools.product(dom, repeat=n))
        if len(combos) > cap:
            combos = rng.sample(combos, cap)
        for c in combos:
            els = []
            for i, k in enumerate(c):
                ks = [k] if nkeys == 1 else list(k)
                # the element itself (sort="") is ranked like its first key when present, else by position
                it = ks[0] if ks[0]['p'] == 'val' else ATOMS[i % 3]
                els.append({'id': i + 1, 'k': ks, 'it': it})
            out.append(els)
    return out


def specs1():
    f = lambda a, fn, d: {'a': a, 'fn': fn, 'dir': d}  # noqa
    return [[f(1, '', 1)], [f(1, 'cmp', 1)], [f(1, 'cmp', -1)], [f(1, 'nocase', 1)], [f(1, 'nocase', -1)],
            [f(0, '', 1)], [], [f(1, 'user', 1)], [f(1, 'user', -1)], [f(1, 'locale', 1)], [f(1, 'locale_nocase', -1)]]


def specs2():
    f = lambda a, fn, d: {'a': a, 'fn': fn, 'dir': d}  # noqa
    out = [[f(1, '', 1), f(2, '', 1)], [f(2, '', 1), f(1, '', 1)]]
    for fn1, d1, fn2, d2 in itertools.product(('cmp', 'nocase'), (1, -1), ('cmp', 'nocase', ''), (1, -1)):
        if fn2 == '' and d2 == -1:
            continue
        out.append([f(1, fn1, d1), f(2, fn2, d2)])
    out += [[f(1, 'user', 1), f(2, 'cmp', -1)], [f(1, 'cmp', 1), f(2, 'user', 1)], [f(1, 'user', -1), f(2, 'user', 1)],
            [f(1, 'locale', -1), f(2, 'nocase', 1)], [f(2, 'locale_nocase', 1), f(1, 'user', 1)],
            # the same field twice: case-insensitively first, case-sensitively (either direction) to break the ties
            [f(1, 'nocase', 1), f(1, 'cmp', 1)], [f(1, 'nocase', 1), f(1, 'cmp', -1)], [f(1, 'nocase', -1), f(1, '', 1)],
            [f(2, 'nocase', 1), f(2, 'cmp', -1), f(1, '', 1)]]
    return out


def run_model(lsts, specs):
    defs = {'cLists': Raw('{' + ', '.join(tla(l) for l in lsts) + '}'),
            'cSpecs': Raw('{' + ', '.join(tla(s) for s in specs) + '}'),
            'cRev': Raw('BOOLEAN')}
    cfg = ('CONSTANTS\n Lists <- cLists\n Specs <- cSpecs\n Reverses <- cRev\nSPECIFICATION Spec\n'
           'INVARIANT InvPermutation\nINVARIANT InvOrdered\nINVARIANT InvStable\nINVARIANT InvReverse\n'
           'INVARIANT InvInputKept\nINVARIANT Export\nCHECK_DEADLOCK FALSE\n')
    out = []
    res = tlc.run('MC_DTSort', cfg, files={'MC_DTSort.tla': mc_module('MC_DTSort', 'DTSort', defs)},
                  on_print=out.append, keep_prints=False, timeout=3000)
    if res.violated:
        raise tlc.TLCFailure('DTSort machine violates %s:\n%s' % (res.violated, (res.error_trace or '')[:2000]))
    return res, out


# ---------------------------------------------------------------------------------------------

class El:
    pass


def keyval(k, typ):
    o = k['o']
    if typ == 'str':
        return STR[(k['o'], k['f'])]
    if typ == 'int':
        return o * 10
    if typ == 'float':
        return o + 0.5
    if typ == 'bool':
        return o >= 2
    if typ == 'date':
        return datetime.date(2020, 1, o)
    if typ == 'decimal':
        return decimal.Decimal(o)
    if typ in ('callable', 'callnone'):
        return lambda o=o: o * 7
    raise ValueError(typ)


def types_for(b):
    fns = {s['fn'] for s in b['spec']}
    if 'user' in fns and any(k['p'] != 'val' for e in b['l'] for k in e['k']):
        return []          # a function from the namespace is not expected to cope with the placeholder of a missing key
    if fns & {'nocase', 'locale', 'locale_nocase'}:
        return ['str']
    if 'user' in fns:
        return ['str', 'int']
    ts = ['str', 'int', 'float', 'date', 'decimal', 'callable']
    if any(k['p'] == 'none' for e in b['l'] for k in e['k']):
        ts.append('callnone')
    used = {k['o'] for e in b['l'] for k in e['k'] if k['p'] == 'val'}
    if used <= {1, 2} and len(used) == 2 or used <= {2, 3} and False:
        ts.append('bool')
    return ts


def build(b, typ, mapping, isort_pairs):
    seq = []
    isort = any(s['a'] == 0 for s in b['spec'])
    for e in b['l']:
        if isort:
            # sort by the element: plain values, or (key, object) pairs sorted by their key
            v = keyval(e['it'], 'int' if typ in ('callable', 'callnone', 'bool') else typ)
            if isort_pairs:
                o = El()
                o.id = e['id']
                seq.append((v, o))
            else:
                seq.append(v)
            continue
        d = {'id': e['id']}
        for j, k in enumerate(e['k'], 1):
            if k['p'] == 'none':
                # (callnone: the attribute is a method like everybody else's, and what it returns is None)
                d['k%d' % j] = (lambda: None) if typ == 'callnone' else None
            elif k['p'] == 'val':
                d['k%d' % j] = keyval(k, typ)
        if mapping == 'dd':
            # a mapping with a __missing__ hook: looking a key up must not create it or invent a value
            dd = collections.defaultdict(lambda typ=typ: keyval(ATOMS[0], 'int' if typ in ('callable', 'callnone') else typ))
            dd.update(d)
            seq.append(dd)
        elif mapping:
            seq.append(d)
        else:
            o = El()
            o.__dict__.update(d)
            seq.append(o)
    return seq


def sort_attr(spec):
    if any(s['a'] == 0 for s in spec):
        return ''
    parts = []
    for s in spec:
        p = 'k%d' % s['a']
        if s['fn'] or s['dir'] == -1:
            p += '/' + ({'user': 'cf'}.get(s['fn'], s['fn']) or 'cmp')
            if s['dir'] == -1:
                p += '/desc'
        parts.append(p)
    return ','.join(parts)


_tc = {}


def tmpl(src):
    from DocumentTemplate.DT_HTML import HTML
    t = _tc.get(src)
    if t is None:
        t = _tc[src] = HTML(src)
    return t


def variant_shape(b, typ, mapping, variant):
    return (len(b['l']) * 3 + variant + len(typ) + (2 if mapping else 0)) % 5


def observe(b, typ, mapping, variant):
    isort = any(s['a'] == 0 for s in b['spec'])
    pairs = isort and variant % 2 == 1
    seq = build(b, typ, mapping, pairs)
    snapshot = list(seq)
    deep = [dict(x) if isinstance(x, dict) else None for x in seq]
    sa = sort_attr(b['spec'])
    opts = ''
    if b['spec']:
        if variant in (2, 3) and sa:
            opts += ' sort_expr="sk"'
        else:
            opts += ' sort="%s"' % sa if sa else ' sort=sequence-item' if variant % 2 else ' sort'
    if b['rev']:
        opts += ' reverse' if variant != 3 else ' reverse_expr="1"'
    if mapping:
        opts += ' mapping'
    if variant == 1:
        opts += ' size=100'
    if isort and not pairs:
        body = '<dtml-var sequence-item>,'
        conv = lambda x: x  # noqa
    else:
        body = '<dtml-var id>,'
    src = '<dtml-in seq%s>%s</dtml-in>' % (opts, body)
    # the sequence as the caller hands it over: a list, a tuple, or something that can only be iterated (a generator, an
    # iterator, a dict's values): sorting shows a permutation of all its elements whatever it is
    shape = variant_shape(b, typ, mapping, variant)
    given = {0: seq, 1: tuple(seq), 2: (x for x in seq), 3: iter(seq), 4: {i: x for i, x in enumerate(seq)}.values()}[shape]
    try:
        out = tmpl(src)(seq=given, sk=sa, cf=user_cmp(typ))
    except Exception as e:  # noqa
        return {'ok': 0, 'order': [], 'err': '%s: %s' % (type(e).__name__, str(e)[:80]), 'src': src, 'typ': typ}
    toks = [x for x in out.split(',') if x]
    if isort and not pairs:
        # map values back to ids: equal values are interchangeable, take ids in original order per value
        pools = {}
        for e, v in zip(b['l'], seq):
            pools.setdefault(str(v), []).append(e['id'])
        if b['rev']:
            for p in pools.values():
                p.reverse()
        order = [pools[t].pop(0) for t in toks]
    else:
        order = [int(t) for t in toks]
    ok = 1
    err = None
    if len(seq) != len(snapshot) or any(a is not c for a, c in zip(seq, snapshot)):
        ok = 0
        err = 'caller sequence modified'
    elif any(isinstance(x, dict) and dict(x) != c for x, c in zip(seq, deep)):
        ok = 0
        err = 'caller element modified'
    return {'ok': ok, 'order': order, 'err': err, 'src': src, 'typ': typ}


def replay(item):
    i, b = item
    res = []
    for typ in types_for(b):
        for mapping in ((False, True, 'dd') if not any(s['a'] == 0 for s in b['spec']) else (False,)):
            variant = (i + len(res)) % 4
            o = observe(b, typ, mapping, variant)
            o['mapping'] = mapping
            o['conform'] = o['ok'] == 1 and o['order'] == b['order']
            res.append(o)
    return {'b': b, 'obs': res}


def adjudicate(cases, V):
    if not cases:
        return 0, 0, 0
    n = st = tr = 0
    CH = 5000
    for off in range(0, len(cases), CH):
        part = cases[off:off + CH]
        payload = json.dumps([{'l': c['b']['l'], 'spec': c['b']['spec'], 'rev': 1 if c['b']['rev'] else 0,
                               'order': c['o']['order'], 'ok': c['o']['ok']} for c in part])
        cfg = ('CONSTANTS\n Lists = {}\n Specs = {}\n Reverses = {}\nINIT Init\nNEXT Next\n'
               'INVARIANT Verdicts\nCHECK_DEADLOCK FALSE\n')
        res = tlc.run('ObsSort', cfg, files={'cases.json': payload}, workers=1)
        st += max(res.distinct, 1)
        tr += max(res.generated, 1)
        vs = {v['tid'] - 1: v for v in res.prints if 'tid' in v}
        if len(vs) != len(part):
            raise tlc.TLCFailure('ObsSort returned %d verdicts for %d cases' % (len(vs), len(part)))
        for j, c in enumerate(part):
            n += 1
            f = vs[j]['failed']
            if f:
                o = c['o']
                V.violation({'kind': 'clause', 'clauses': sorted(f), 'source': o['src'], 'keytype': o['typ'],
                             'mapping': o['mapping'], 'error': (o['err'] or '').split(':')[0],
                             'input': c['b']['l'], 'spec': c['b']['spec'], 'reverse': c['b']['rev'],
                             'observed_order': o['order'], 'machine_order': c['b']['order'],
                             'cls': classify(c['b'], o)})
            elif not c['o']['conform']:
                V.count('drift_unspecified_order')
            else:
                V.count('validated_conform')
    return n, st, tr


def classify(b, o):
    if o['typ'] in ('date', 'bool', 'decimal') and len(b['spec']) == 1:
        return 'single-key-nonbasic-type'
    if any(s['fn'] == 'nocase' for s in b['spec']) and (o['err'] or '').startswith('AttributeError'):
        return 'nocase-none'
    return 'other'


def main(tier):
    V = common.Verdicts(PID, tier)
    rng = random.Random(common.seed())
    q = tier == 'quick'
    runs = [(lists(1, 4 if q else 5, rng, 400 if q else 2500), specs1()),
            (lists(2, 2 if q else 3, rng, 300 if q else 2000), specs2())]
    states = trans = 0
    exported = []
    for lsts, specs in runs:
        res, out = run_model(lsts, specs)
        states += res.distinct
        trans += res.generated
        exported += out
    todo = []
    nobs = 0
    for r in common.pool_map(replay, list(enumerate(exported)), chunk=300, per_case=30):
        if '_crash' in r:
            raise tlc.TLCFailure('harness crash: %s' % repr(r)[:1500])
        if '_timeout' in r:
            V.violation({'kind': 'no-result', 'detail': repr(r)[:1000]})
            continue
        for k, o in enumerate(r['obs']):
            nobs += 1
            if o['conform']:
                V.count('p1_conform')
                if nobs % 97 == 0:
                    todo.append({'b': r['b'], 'o': o})
            else:
                todo.append({'b': r['b'], 'o': o})
    n, st, tr = adjudicate(todo, V)
    cov = {'states': states + st, 'transitions': trans + tr,
           'traces_validated_against_impl': V.counters.get('p1_conform', 0) + n,
           'behaviours_exported': len(exported), 'renderings': nobs, 'exhaustive': True,
           'rule': 'all lists up to the tier length over keys {None, missing, a, B, b} (single key) and pairs of such keys '
                   '(double key) x specs {plain, cmp, nocase, locale, locale_nocase, a comparison function from the namespace} x {asc, desc} x reverse; concretised as str / int / float / '
                   'bool / date / Decimal / callable keys, objects and mappings, sort= and sort_expr=, batched',
           'samples': [{'list': exported[0]['l'], 'spec': exported[0]['spec'], 'order': exported[0]['order']},
                       {'list': exported[-1]['l'], 'spec': exported[-1]['spec'], 'rev': exported[-1]['rev'],
                        'order': exported[-1]['order']}]}
    return V.finish(cov, assumptions=['keys of one sort field have one type; mutual order of elements whose deciding key is '
                                      'None/missing on both sides is unspecified (DESIGN C13)',
                                      'under /desc missing keys come last (the inverted order)',
                                      'locale functions are exercised in the C locale (strcoll = code point order)'])


def replay_file(path):
    data = json.load(open(path))
    for v in data['violations']:
        print(json.dumps(v, default=repr)[:1500])
    return 1 if data['violations'] else 0



