"""C02, second binding (code -> specification): name resolution recorded from arbitrary executions of the real code and
validated by TLC against the projection specification spec/ObsLookup.tla.

Executions traced: (a) every case of the C02 check itself and the block programs of the C08 generator under fault plans
(all block kinds, handlers, sub-templates), run in a subprocess under harness/lookup_rec.py; (b) the repository's own 237
tests under the same recorder as a pytest plugin.  Each TemplateDict gives one trace; every search in it is checked: the
frame whose value was used is the highest frame defining the name, KeyError exactly when none does."""
import copy
import json
import os
import random
import subprocess
import sys
import tempfile

from harness import common, tlc

CFG = 'SPECIFICATION Spec\nINVARIANT Verdict\nCHECK_DEADLOCK FALSE\n'
DRIFT_CLAUSES = ('recorder:',)


def _scratch(suffix):
    fd, path = tempfile.mkstemp(prefix='verif-lk-', suffix=suffix, dir=os.environ.get('VERIF_SCRATCH', '/tmp'))
    os.close(fd)
    return path


def validate(V, traces, label, witness):
    """run ObsLookup over `traces`; witness(trace, verdict) -> dict for a violation record"""
    traces = [t for t in traces if not t.get('truncated')]
    if not traces:
        return 0, 0
    # binding self-test material: corrupted copies that the specification must reject
    corrupted = []
    for t in traces:
        if len(corrupted) >= 30:
            break
        for i, e in enumerate(t['ev']):
            if e['e'] == 'get' and e['how'] == 'val' and e['got'] > 1 and 'y' in e['defs'][:e['got'] - 1]:
                c = copy.deepcopy(t)
                c['ev'][i]['got'] = e['defs'].index('y') + 1            # pretend a lower defining frame answered
                c['corrupted'] = 'got'
                corrupted.append(c)
                break
            if e['e'] == 'get' and e['how'] == 'keyerror' and len(corrupted) % 3 == 0:
                c = copy.deepcopy(t)
                c['ev'][i]['how'] = 'val'                                # pretend an undefined name resolved
                c['corrupted'] = 'how'
                corrupted.append(c)
                break
    allt = traces + corrupted
    out = {}
    res = tlc.run('ObsLookup', CFG,
                  files={'traces.json': json.dumps([{'ev': [{k: v for k, v in e.items() if k != 'key'} for e in t['ev']],
                                                     'initial': t['initial']} for t in allt])},
                  on_print=lambda v: out.__setitem__(v['tid'], v), keep_prints=False, timeout=1800)
    if res.violated:
        raise tlc.TLCFailure('ObsLookup: %s' % res.violated)
    gets = 0
    for i, t in enumerate(allt, 1):
        v = out.get(i)
        if v is None:
            raise tlc.TLCFailure('no verdict for lookup trace %d' % i)
        if t.get('corrupted'):
            if not v['bad']:
                common.machinery_failure('binding self-test: a lookup trace with a corrupted %s field was accepted by ObsLookup' % t['corrupted'])
            V.count('binding_selftest_corrupted_traces_rejected')
            continue
        gets += v['gets']
        V.count(label + '_traces_validated')
        if v['bad'] and not v['bad'].startswith(DRIFT_CLAUSES):
            bad_ev = None
            depth = t['initial']
            for e in t['ev']:
                if e['e'] == 'push':
                    depth += 1
                elif e['e'] == 'pop':
                    depth = max(0, depth - e['n'])
                else:
                    hi = max([j + 1 for j, d in enumerate(e['defs']) if d != 'n'] or [0])
                    want = 'keyerror' if hi == 0 else ('exc' if e['defs'][hi - 1] == 'x' else 'val')
                    if len(e['defs']) == depth and (e['how'] != want or (want == 'val' and e['got'] not in (0, hi))):
                        bad_ev = e
                        break
            rec = {'kind': 'lookup', 'clause': v['bad'], 'cls': label + '-' + v['bad'], 'search': bad_ev}
            rec.update(witness(t, v))
            V.violation(rec)
        else:
            V.count('behaviours_conform')
            if v['bad'] or v['drift']:
                V.count('drift')
    return gets, res.distinct


def case_jobs(tier, rng):
    from checks import c02, c08
    jobs = []
    for c in c02.precedence_cases(tier, rng) + c02.scoping_cases(tier, rng) + c02.sibling_cases(tier, rng):
        jobs.append((c, []))
    progs = c08.cases_for('quick', rng)
    if tier == 'quick':
        progs = progs[::3]
    for c in progs:
        jobs.append((c, []))
        K = max(1, min(c.get('K', 1), 10))
        for k in sorted(set([1, 2, 1 + K // 2, K])):
            jobs.append((c, [[k, rng.choice(['ValueError', 'KeyError', 'dtreturn'])]]))
    return jobs


def cases_stage(V, tier):
    rng = random.Random(common.seed() + 202)
    jobs = case_jobs(tier, rng)
    jp, op = _scratch('.jobs.json'), _scratch('.traces.json')
    try:
        from harness import render
        with open(jp, 'w') as fh:
            json.dump(jobs, fh)
        env = dict(os.environ, PYTHONPATH=common.VERIF + os.pathsep + common.SRC)
        p = subprocess.run([sys.executable, '-m', 'harness.lookup_rec', jp, op], cwd=common.VERIF, env=env,
                           capture_output=True, text=True, timeout=1800)
        try:
            traces = json.load(open(op))
        except Exception:
            raise tlc.TLCFailure('the lookup recorder wrote no traces: %s' % ((p.stderr or '')[-600:]))
    finally:
        for f in (jp, op):
            try:
                os.remove(f)
            except OSError:
                pass

    def witness(t, v):
        if t['test'].startswith('dynamic-'):
            from harness import lookup_rec
            return {'source': lookup_rec.DYNAMIC[int(t['test'].split('-')[1].split()[0])][0], 'client': 'acquires n while rendering'}
        i = int(t['test'].split('-')[1].split()[0])
        case, plan = jobs[i]
        return {'source': render.pr(case['prog']), 'plan': plan, 'case': case}
    gets, states = validate(V, traces, 'case', witness)
    return {'lookup_case_executions': len(jobs), 'lookup_case_namespaces_traced': len(traces), 'lookup_case_searches': gets,
            'tree_states': states}


def repo_tests_stage(V, tier):
    from checks.c08_tree import repo_test_files
    path = _scratch('.json')
    try:
        env = dict(os.environ, VERIF_TRACE_OUT=path, PYTHONPATH=common.VERIF + os.pathsep + common.SRC)
        p = subprocess.run([sys.executable, '-m', 'pytest', '-q', '-p', 'no:cacheprovider', '-p', 'harness.lookup_rec'] + repo_test_files(),
                           cwd=common.REPO, env=env, capture_output=True, text=True, timeout=1200)
        tail = (p.stdout or '').strip().splitlines()[-1:] if p.stdout else []
        try:
            traces = json.load(open(path))
        except Exception:
            raise tlc.TLCFailure('the lookup recorder plugin wrote no traces: %s %s' % (tail, (p.stderr or '')[-400:]))
    finally:
        try:
            os.remove(path)
        except OSError:
            pass
    gets, states = validate(V, traces, 'repo_test', lambda t, v: {'test': t['test']})
    return {'lookup_repo_tests_run': ' '.join(tail), 'lookup_repo_test_namespaces_traced': len(traces),
            'lookup_repo_test_searches': gets, 'tree_states': states}


def stages(V, tier):
    a = cases_stage(V, tier)
    b = repo_tests_stage(V, tier)
    b['tree_states'] += a.pop('tree_states', 0)
    a.update(b)
    return a
