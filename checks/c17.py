"""C17 -- rendering is repeatable and side-effect free; templates survive persistence.

Machine: spec/DTLife.tla (src, defs, cooked, blocksOf, disk; Render cooks on demand; Pickle/DeepCopy
drop the compiled state; Munge/MungeDefs/Cook recompile; EditFile for file templates; NoStaleBlocks,
FreshEqual).  TLC enumerates every history of the tier length (and simulates longer ones) and
exports it with the key <<source, defaults, namespace>> every Render must produce.
P1 (lock-step): the history is executed on one real template object and persistent caller data;
after every Render the output must equal that of a freshly constructed template for the key, and
after every operation the caller's mappings and sequences and the template's defaults must be
unchanged.  File templates: the pickle holds the file name, not the content.
"""
import copy
import json
import os
import pickle
import random
import tempfile

from harness import common, tlc

PID = 'C17'

SOURCES = [
    '<dtml-in seq sort_expr="sk" reverse_expr="rv"><dtml-var sequence-item>,</dtml-in>|'
    '<dtml-in dl reverse><dtml-var sequence-item></dtml-in>|<dtml-in seq reverse><dtml-var sequence-item></dtml-in>',
    '',
    # (with CR LF line ends: every way of giving the template its text keeps them the same way)
    'Dear <dtml-var _u missing=nobody>\r\n<dtml-if a>\r\n A \r\n</dtml-if>\r\n<dtml-in seq start=st size=2><dtml-var sequence-item>;</dtml-in><dtml-let x="1+1"><dtml-var x></dtml-let>'
    '<dtml-var sub><dtml-if a>A<dtml-var a><dtml-else>B</dtml-if><dtml-try><dtml-var nope><dtml-except>E</dtml-try>'
    # faults inside block tags that are handled inside the template: nothing of the failed block may stay behind
    '<dtml-try><dtml-let p="1" q=nope2>never</dtml-let><dtml-except>L</dtml-try><dtml-try><dtml-with o><dtml-in seq><dtml-var nope3></dtml-in>'
    '</dtml-with><dtml-except>W</dtml-try><dtml-try><dtml-in seq sort_expr="nope4">x</dtml-in><dtml-except>S</dtml-try>',
    # (tags with options of every kind: what a tag prepares for its options at compile time serves every later rendering)
    '<dtml-var a upper spacify>|<dtml-var a url_quote newline_to_br size=20 etc="~">|&dtml.url_quote_plus.lower-a;|<dtml-var a fmt="[%s]" null="-">|'
    '<dtml-if _u>u<dtml-else>no-u</dtml-if><dtml-in m mapping><dtml-if j>J<dtml-elif k>K</dtml-if><dtml-unless k>no</dtml-unless></dtml-in>'
    '<dtml-if seq>s</dtml-if><dtml-unless sx>x</dtml-unless><dtml-in m mapping sort=k reverse><dtml-var k></dtml-in><dtml-with o><dtml-var y></dtml-with>&dtml-a;'
    '<dtml-in m mapping reverse_expr="rv"><dtml-var k missing=-></dtml-in>'
    # what a sort specification resolves in the namespace of the render (a comparison function by name, the value of
    # sort_expr with options) belongs to that render only
    '|<dtml-in m mapping sort="k/cf"><dtml-var k></dtml-in>|<dtml-in m mapping sort_expr="sx"><dtml-var k></dtml-in>'
    '|<dtml-in m mapping sort="j/cf,k/cmp/desc"><dtml-var k></dtml-in>',
    # a text that does not parse: every rendering raises ParseError, however the object came to hold it
    'never shown <dtml-if a>x<dtml-var a>',
]
BAD = len(SOURCES)


def cf_asc(a, b):
    return (a > b) - (a < b)


def cf_desc(a, b):
    return (a < b) - (a > b)


def cf_parity(a, b):
    return cf_asc((a % 2, -a), (b % 2, -b))


class O:
    def __init__(self, **kw):
        self.__dict__.update(kw)

    def __eq__(self, other):
        return type(other) is O and self.__dict__ == other.__dict__


def defaults(name):
    """what the template's defaults must be (construction keywords laid over the construction mapping)"""
    if name == 'd0':
        return {'dl': [1, 2, 3], 'a': 'dflt<', '_u': 'U0'}
    if name == 'd1':
        return {'dl': [7, 8], 'a': 'd1', 'st': 2, '_u': 'U1'}
    return {}


def given_as(name):
    """how they are handed over: a mapping plus keywords (a keyword may carry any name, also one starting with an underscore)"""
    d = defaults(name)
    kw = {k: d.pop(k) for k in ('a', '_u') if k in d}
    return d, kw


def namespaces():
    from DocumentTemplate.DT_HTML import HTML
    sub = HTML('[sub <dtml-var a> <dtml-in seq><dtml-var sequence-item></dtml-in>]')
    return [
        {'seq': [3, 1, 2], 'sk': '', 'rv': 0, 'st': 1, 'a': 'x', 'm': [{'k': 2, 'j': 1}, {'k': 1, 'j': 1}, {'k': 3, 'j': 0}], 'o': O(y='Y1'), 'sub': sub,
         'cf': cf_desc, 'sx': 'k/cmp/desc'},
        {'seq': [5, 4, 6, 7], 'sk': '', 'rv': 1, 'st': 3, 'a': '', 'm': [{'k': 9, 'j': 2}, {'k': 8, 'j': 3}, {'k': 7, 'j': 3}], 'o': O(y='Y2'), 'sub': sub,
         'cf': cf_asc, 'sx': 'k'},
        {'seq': [], 'sk': '', 'rv': 1, 'st': 1, 'm': [{'k': 4, 'j': 0}, {'k': 6, 'j': 0}, {'k': 5, 'j': 1}], 'o': O(y='Y3'), 'sub': sub, 'cf': cf_parity, 'sx': 'j/cmp/asc,k/cmp/desc'},
    ]


def plain(ns):
    return {k: (copy.deepcopy(v) if k != 'sub' else None) for k, v in ns.items()}


def outcome(t, ns):
    """the namespace is handed over as keyword arguments and then once more as the call's mapping (the caller's own dict: it
    must come back as it went in -- the snapshots of run_history see to that); both ways give the same text"""
    try:
        r = t(**ns)
    except Exception as e:  # noqa
        r = 'EXC:' + type(e).__name__
    try:
        r2 = t(None, ns)
    except Exception as e:  # noqa
        r2 = 'EXC:' + type(e).__name__
    return r if r2 == r else ['keywords', r, 'mapping', r2]


_fresh = {}


_NS = {}


def caller_namespace(ns):
    """a caller's own namespace (a TemplateDict) a template is rendered into as a sub-template"""
    from DocumentTemplate._DocumentTemplate import TemplateDict
    # (callers' namespaces are often instances of a subclass: the restricted namespace of an application server)
    cls = _NS.get('c')
    if cls is None:
        cls = _NS['c'] = type('CallerNamespace', (TemplateDict,), {})
    _NS['k'] = _NS.get('k', 0) + 1
    md = (cls if _NS['k'] % 3 else TemplateDict)()
    md.guarded_getattr = md.guarded_getitem = None
    md._push({'y': 'caller-y', 'a': 'caller-a'})
    md._push(dict(ns))
    return md


def sub_outcome(t, md, k):
    """render `t` the way a calling template does -- t(client, caller's namespace) -- with no client, one client or a
    tuple of clients"""
    clients = [O(y='c1-y'), O(y='c2-y', a='c2-a'), O(q=1)]
    client = (None, clients[0], (clients[0], clients[1]), tuple(clients), ())[k % 5]
    try:
        return t(client, md)
    except Exception as e:  # noqa
        return 'EXC:' + type(e).__name__


def fresh_sub(b, d, i, k):
    from DocumentTemplate.DT_HTML import HTML
    key = ('sub', b, d, i, k % 5)
    if key not in _fresh:
        _fresh[key] = sub_outcome(HTML(SOURCES[b - 1], given_as(d)[0], **given_as(d)[1]), caller_namespace(namespaces()[i - 1]), k)
    return _fresh[key]


def fresh(b, d, i, text_mode=False):
    """text_mode: the source as a file opened in text mode delivers it (universal newlines: CR LF read as LF)"""
    from DocumentTemplate.DT_HTML import HTML
    key = (b, d, i, text_mode)
    if key not in _fresh:
        src = SOURCES[b - 1].replace('\r\n', '\n') if text_mode else SOURCES[b - 1]
        _fresh[key] = outcome(HTML(src, given_as(d)[0], **given_as(d)[1]), namespaces()[i - 1])
    return _fresh[key]


def quiet(f):
    """an editing operation on a text that does not parse raises ParseError to its caller; the object stays usable"""
    from DocumentTemplate.DT_Util import ParseError
    try:
        f()
    except ParseError:
        pass


def run_history(h):
    """returns None or a dict describing the first departure"""
    from DocumentTemplate.DT_HTML import HTML
    hist, outs = h['hist'], h['outs']
    nss = namespaces()
    pristine = [plain(n) for n in nss]
    given, gkw = given_as('d0')
    # another template of the process has variables of its own (set through var()): nobody else's business
    other = HTML('<dtml-var a>')
    _NS['h'] = _NS.get('h', 0) + 1          # (other values in every history: what a fresh template gave before still holds)
    other.var(a='OTHER-A-%d' % _NS['h'], y='OTHER-Y-%d' % _NS['h'], seq=[99, _NS['h']], _u='OTHER-U')
    t = HTML(SOURCES[hist[0][1] - 1], given, **gkw)
    cur_defaults = 'd0'
    k = 0
    mds = [caller_namespace(n) for n in nss]          # the callers' namespaces live as long as the history
    for step, (op, arg) in enumerate(hist[1:], 1):
        if op == 'render':
            got = outcome(t, nss[arg - 1])
            b, d, i = outs[k]
            k += 1
            exp = fresh(b, d, i)
            if got != exp:
                return {'step': step, 'op': [op, arg], 'why': 'render differs from a fresh template',
                        'key': [b, d, i], 'expected': exp, 'got': got}
            # the same template rendered as a sub-template into a caller's namespace: equal to a fresh template, and the
            # caller's namespace is left exactly as it was
            md = mds[arg - 1]
            before, lvl = [id(f) for f in md._data], md.level
            got = sub_outcome(t, md, step + k)
            if [id(f) for f in md._data] != before or md.level != lvl:
                return {'step': step, 'op': [op, arg, 'as sub-template, client shape %d' % ((step + k) % 5)],
                        'why': "the caller's namespace was modified by the rendering",
                        'frames_before': len(before), 'frames_after': len(md._data), 'level': [lvl, md.level]}
            exp = fresh_sub(b, d, i, step + k)
            if got != exp:
                return {'step': step, 'op': [op, arg, 'as sub-template, client shape %d' % ((step + k) % 5)],
                        'why': 'render differs from a fresh template', 'key': [b, d, i], 'expected': exp, 'got': got}
        elif op == 'pickle':
            t = pickle.loads(pickle.dumps(t))
        elif op == 'deepcopy':
            t = copy.deepcopy(t)
        elif op == 'munge':
            quiet(lambda: t.munge(SOURCES[arg - 1]))
        elif op == 'defaults':
            cur_defaults = 'd1' if arg else 'empty'
            quiet(lambda: t.munge(None, given_as(cur_defaults)[0], **given_as(cur_defaults)[1]))
        elif op == 'cook':
            quiet(t.cook)
        for j, n in enumerate(nss):
            if plain(n) != pristine[j]:
                return {'step': step, 'op': [op, arg], 'why': 'caller data of namespace %d modified' % (j + 1),
                        'before': repr(pristine[j])[:200], 'after': repr(plain(n))[:200]}
        if t.globals != defaults(cur_defaults):
            return {'step': step, 'op': [op, arg], 'why': 'template defaults modified',
                    'before': repr(defaults(cur_defaults)), 'after': repr(t.globals)[:200]}
        if given != given_as('d0')[0]:
            return {'step': step, 'op': [op, arg], 'why': 'construction mapping modified', 'after': repr(given)[:200]}
    return None


def run_file_history(h):
    from DocumentTemplate.DT_HTML import HTMLFile
    hist, outs = h['hist'], h['outs']
    d = tempfile.mkdtemp(prefix='verif-c17-')
    path = os.path.join(d, 'tmpl.dtml')
    disk = hist[0][1]
    marker = 'UNIQUE-CONTENT-%d'

    def write(v):
        with open(path, 'w') as fh:
            fh.write(SOURCES[v - 1] + (marker % v))
    try:
        write(disk)
        nss = namespaces()
        t = HTMLFile(path, given_as('d0')[0], **given_as('d0')[1])
        k = 0
        for step, (op, arg) in enumerate(hist[1:], 1):
            if op == 'render':
                got = outcome(t, nss[arg - 1])
                b, dd, i = outs[k]
                k += 1
                exp = fresh(b, dd, i, text_mode=True)
                exp = exp if exp.startswith('EXC:') else exp + (marker % b)
                if got != exp:
                    return {'step': step, 'op': [op, arg], 'why': 'file template render differs', 'key': [b, dd, i],
                            'expected': exp, 'got': got}
            elif op in ('pickle', 'deepcopy'):
                if op == 'pickle':
                    data = pickle.dumps(t)
                    if (marker % disk).encode() in data or b'dtml-in' in data:
                        return {'step': step, 'op': [op, arg], 'why': 'pickle of a file template holds the file content'}
                    if path.encode() not in data:
                        return {'step': step, 'op': [op, arg], 'why': 'pickle of a file template does not hold the file name'}
                    t = pickle.loads(data)
                else:
                    t = copy.deepcopy(t)
            elif op == 'cook':
                quiet(t.cook)
            elif op == 'editfile':
                disk = disk % len(SOURCES) + 1
                write(disk)
        return None
    finally:
        try:
            os.remove(path)
            os.rmdir(d)
        except OSError:
            pass


def replay(h):
    fn = run_file_history if h.get('file') else run_history
    bad = fn(h)
    return {'ok': bad is None, 'bad': bad, 'hist': h['hist'], 'file': h.get('file', False)}


def explore(maxlen, filebacked, simulate=None, seed=None):
    cfg = ('CONSTANTS\n NSources = %d\n NNamespaces = 3\n MaxLen = %d\n FileBacked = %s\n Bad = %d\nSPECIFICATION Spec\n'
           'INVARIANT NoStaleBlocks\nINVARIANT Export\nPROPERTY FreshEqual\nCHECK_DEADLOCK FALSE\n'
           % (len(SOURCES), maxlen, 'TRUE' if filebacked else 'FALSE', BAD))
    if simulate:
        cfg = cfg.replace('PROPERTY FreshEqual\n', '')
    out = []
    res = tlc.run('DTLife', cfg, on_print=out.append, keep_prints=False, timeout=3000,
                  simulate=simulate, depth=maxlen + 2 if simulate else None, seed=seed)
    if res.violated:
        raise tlc.TLCFailure('DTLife machine violates %s' % res.violated)
    for o in out:
        o['file'] = filebacked
    return res, out


def main(tier):
    V = common.Verdicts(PID, tier)
    q = tier == 'quick'
    runs = [explore(3 if q else 4, False), explore(3 if q else 4, True),
            explore(8, False, simulate='num=%d' % (3000 if q else 40000), seed=common.seed() + 1),
            explore(8, True, simulate='num=%d' % (500 if q else 5000), seed=common.seed() + 2)]
    states = sum(r.distinct for r, _ in runs)
    trans = sum(r.generated for r, _ in runs)
    hs = [h for _, out in runs for h in out]
    seen = set()
    uniq = []
    for h in hs:
        key = (h['file'], json.dumps(h['hist']))
        if key not in seen:
            seen.add(key)
            uniq.append(h)
    for r in common.pool_map(replay, uniq, chunk=100, per_case=60):
        if '_crash' in r:
            raise tlc.TLCFailure('harness crash: %s' % repr(r)[:1500])
        if '_timeout' in r:
            V.violation({'kind': 'no-result', 'detail': repr(r)[:600]})
            continue
        if r['ok']:
            V.count('histories_conform')
        else:
            V.violation({'kind': 'history', 'file_template': r['file'], 'history': r['hist'], 'departure': r['bad'],
                         'cls': r['bad']['why']})
    cov = {'states': max(states, 1), 'transitions': max(trans, 1),
           'traces_validated_against_impl': V.counters.get('histories_conform', 0), 'histories': len(uniq),
           'exhaustive': True,
           'rule': 'every history of the tier length (3 quick / 4 thorough) over {render ns 1..3, pickle round trip, deep copy, '
                   'munge to source 1..5 (one of them empty, one that does not parse), replace defaults (empty / other), cook} from each of 5 sources, '
                   'and simulated histories of length 8; the same for file-backed templates with edits of the file on disk',
           'samples': [uniq[0]['hist'], uniq[-1]['hist']]}
    return V.finish(cov, assumptions=['the result expected for a key <<source, defaults, namespace>> is what a freshly '
                                      'constructed template renders (the property\'s own definition)',
                                      'namespaces hold lists, dicts, an object and a shared sub-template'])


def replay_file(path):
    data = json.load(open(path))
    for v in data['violations']:
        print(json.dumps(v)[:1500])
    return 1 if data['violations'] else 0
