"""C05 -- security guards mediate every read of client data; '_' names stay private.

Machine: spec/DTGuard.tla -- replays the trace of one rendering (guard asked / guard answered / value
actually read) and computes which raw reads were mediated, released before, or unmediated; table Expect
says what each access channel must do with a public, an underscore-private and a guard-denied attribute;
ShownOnlyIfReleased: the probed secret is visible only if the guard released it.

Binding: every channel of the language x attribute class is rendered by the real classes with a
recording guard and logging client objects; the recorded trace is validated by TLC.  Because the property
is about data flow, an unmediated read is a violation only when a flow is confirmed: each case is rendered
twice with different values behind the refused attributes; output, exception text and element order must
be identical and no refused marker may appear (non-interference).
"""
import json

from harness import common, tlc

PID = 'C05'

# channels whose guard is AccessControl's own (DocumentTemplate.security installs its getattr / hasattr on the namespace and
# AccessControl patches _getitem_ into the globals of every restricted expression): the template's guard is not consulted,
# the expectation table is not applied, only the flow test is
ENV_MEDIATED = ('expritem', 'safeget', 'hasattr')

LOG = []


class Client:
    """client object; reads of its data attributes are logged as raw(o, a)"""

    def __init__(self, oid, **attrs):
        object.__setattr__(self, '_oid', oid)
        object.__setattr__(self, '_attrs', attrs)

    def __getattribute__(self, name):
        attrs = object.__getattribute__(self, '_attrs')
        if name in attrs:
            LOG.append({'e': 'raw', 'o': object.__getattribute__(self, '_oid'), 'a': name})
            v = attrs[name]
            if isinstance(v, Method):
                return v.bind(self)
            return v
        if name in ('__class__', '__dict__'):
            return object.__getattribute__(self, name)
        raise AttributeError(name)

    def __repr__(self):
        return '<Client %s>' % object.__getattribute__(self, '_oid')


class Method:
    def __init__(self, result):
        self.result = result

    def bind(self, ob):
        return lambda: self.result


class Seq:
    """sequence whose element reads are logged as raw(o, index)"""

    def __init__(self, oid, items):
        self._oid, self._items = oid, list(items)

    def __len__(self):
        return len(self._items)

    def __getitem__(self, i):
        if isinstance(i, slice):
            return self._items[i]
        v = self._items[i]         # IndexError first
        LOG.append({'e': 'raw', 'o': self._oid, 'a': str(i if i >= 0 else len(self._items) + i)})
        return v


def oid_of(ob):
    try:
        return object.__getattribute__(ob, '_oid')
    except AttributeError:
        return 'other'


class Policy:
    deny = frozenset()
    allow_underscore = False      # True: a permissive guard that has no underscore rule of its own
    # a guard whose verdict depends on the context the object is reached through (as access-control systems do: another
    # acquisition path, another executable on the stack): (o, a) -> number of requests it grants before it starts refusing
    grants = {}
    asked = {}
    # elements the guard refuses whatever container they are reached through (a guard validates the value it hands out)
    deny_values = frozenset()


def guarded_getattr(ob, name):
    from zExceptions import Unauthorized
    o = oid_of(ob)
    LOG.append({'e': 'genter', 'o': o, 'a': name})
    Policy.asked[(o, name)] = Policy.asked.get((o, name), 0) + 1
    revoked = (o, name) in Policy.grants and Policy.asked[(o, name)] > Policy.grants[(o, name)]
    if revoked or (o, name) in Policy.deny or (name[:1] == '_' and not Policy.allow_underscore):
        LOG.append({'e': 'gexit', 'o': o, 'a': name, 'r': 'deny'})
        raise Unauthorized(name)
    try:
        v = getattr(ob, name)
    except BaseException:
        LOG.append({'e': 'gexit', 'o': o, 'a': name, 'r': 'error'})
        raise
    LOG.append({'e': 'gexit', 'o': o, 'a': name, 'r': 'allow'})
    return v


def guarded_getitem(ob, index):
    from zExceptions import Unauthorized
    o = oid_of(ob)
    a = str(index)
    LOG.append({'e': 'genter', 'o': o, 'a': a})
    if (o, a) in Policy.deny:
        LOG.append({'e': 'gexit', 'o': o, 'a': a, 'r': 'deny'})
        raise Unauthorized(a)
    try:
        v = ob[index]
    except BaseException:
        LOG.append({'e': 'gexit', 'o': o, 'a': a, 'r': 'error'})
        raise
    if Policy.deny_values and oid_of(v) in Policy.deny_values:
        LOG.append({'e': 'gexit', 'o': o, 'a': a, 'r': 'deny'})
        raise Unauthorized(a)
    LOG.append({'e': 'gexit', 'o': o, 'a': a, 'r': 'allow'})
    return v


_CLS = {}


def gclass(syn='html'):
    if syn not in _CLS:
        from DocumentTemplate.DT_HTML import HTML
        from DocumentTemplate.DT_String import String
        base = String if syn == 'epfs' else HTML
        _CLS[syn] = type('Guarded' + base.__name__, (base,), {'guarded_getattr': staticmethod(guarded_getattr),
                                                              'guarded_getitem': staticmethod(guarded_getitem)})
    return _CLS[syn]


# ---------------------------------------------------------------------------------------------
# channels.  A = the probed attribute name (x, or _p for the private class).  Every channel builds its
# namespace from `sec` (the value behind the probed attribute in this run) and names the probed (o, a).

def _items(sec, A, n=3):
    """three elements; the probed one is element 1"""
    vals = sec if isinstance(sec, (list, tuple)) else [5, sec, 7]
    return [Client('e%d' % i, **{A: vals[i], 'pub': 'P%d' % i, 'k': i}) for i in range(n)]


CHANNELS = [
    # name, kind, source (with %(A)s), namespace builder -> (client, kwargs), probed (o, a)
    ('client-name', 'name', '<dtml-var %(A)s>', lambda s, A: (Client('c', **{A: s}), {}), ('c', None)),
    ('client-tuple', 'name', '<dtml-var %(A)s>', lambda s, A: ((Client('c0', other=1), Client('c', **{A: s})), {}), ('c', None)),
    ('if-name', 'ifname', '<dtml-if %(A)s>T<dtml-var %(A)s></dtml-if>', lambda s, A: (Client('c', **{A: s}), {}), ('c', None)),
    ('let-name', 'name', '<dtml-let v=%(A)s><dtml-var v></dtml-let>', lambda s, A: (Client('c', **{A: s}), {}), ('c', None)),
    ('expr-name', 'exprname', '<dtml-var "%(A)s">', lambda s, A: (Client('c', **{A: s}), {}), ('c', None)),
    ('with', 'with', '<dtml-with o><dtml-var %(A)s></dtml-with>', lambda s, A: (None, {'o': Client('c', **{A: s})}), ('c', None)),
    # a with-object handed over as a 1-tuple (the shape _.namespace() returns) is still a client object
    ('with-1tuple-expr', 'with', '<dtml-with "(o,)"><dtml-var %(A)s></dtml-with>', lambda s, A: (None, {'o': Client('c', **{A: s})}), ('c', None)),
    ('with-1tuple', 'with', '<dtml-with ot><dtml-var %(A)s></dtml-with>', lambda s, A: (None, {'ot': (Client('c', **{A: s}),)}), ('c', None)),
    ('with-only', 'with', '<dtml-with o only><dtml-var %(A)s></dtml-with>', lambda s, A: (None, {'o': Client('c', **{A: s})}), ('c', None)),
    ('expr-attr', 'exprattr', '<dtml-var "o.%(A)s">', lambda s, A: (None, {'o': Client('c', **{A: s})}), ('c', None)),
    ('expr-attr-if', 'exprattr', '<dtml-if "o.%(A)s">T</dtml-if>', lambda s, A: (None, {'o': Client('c', **{A: s})}), ('c', None)),
    ('expr-item', 'expritem', '<dtml-var "q[1]">', lambda s, A: (None, {'q': Seq('c', [0, s, 2])}), ('c', '1')),
    ('safe-getattr', 'safeget', '<dtml-var "_.getattr(o, \'%(A)s\')">', lambda s, A: (None, {'o': Client('c', **{A: s})}), ('c', None)),
    ('safe-hasattr', 'hasattr', '<dtml-var "_.hasattr(o, \'%(A)s\')">', lambda s, A: (None, {'o': Client('c', **{A: s})}), ('c', None)),
    ('in-item', 'initem', '<dtml-in q><dtml-var sequence-item>;</dtml-in>', lambda s, A: (None, {'q': Seq('c', ['i0', s, 'i2'])}), ('c', '1')),
    ('in-item-skip', 'initem-skip', '<dtml-in q skip_unauthorized><dtml-var sequence-item>;</dtml-in>',
     lambda s, A: (None, {'q': Seq('c', ['i0', s, 'i2'])}), ('c', '1')),
    ('in-item-batch', 'initem', '<dtml-in q size=9><dtml-var sequence-item>;</dtml-in>', lambda s, A: (None, {'q': Seq('c', ['i0', s, 'i2'])}), ('c', '1')),
    ('in-item-batch-skip', 'initem-skip', '<dtml-in q size=9 skip_unauthorized><dtml-var sequence-item>;</dtml-in>',
     lambda s, A: (None, {'q': Seq('c', ['i0', s, 'i2'])}), ('c', '1')),
    # the element is fetched through the guard whatever is then done with it: not pushed, pushed as a mapping, read through
    # the prefix alias
    ('in-item-nopush', 'initem', '<dtml-in q no_push_item><dtml-var sequence-item>;</dtml-in>', lambda s, A: (None, {'q': Seq('c', ['i0', s, 'i2'])}), ('c', '1')),
    ('in-item-nopush-skip', 'initem-skip', '<dtml-in q no_push_item skip_unauthorized><dtml-var sequence-item>;</dtml-in>',
     lambda s, A: (None, {'q': Seq('c', ['i0', s, 'i2'])}), ('c', '1')),
    ('in-item-nopush-batch', 'initem', '<dtml-in q size=9 no_push_item><dtml-var sequence-item>;</dtml-in>',
     lambda s, A: (None, {'q': Seq('c', ['i0', s, 'i2'])}), ('c', '1')),
    ('in-item-nopush-batch-skip', 'initem-skip', '<dtml-in q size=9 no_push_item skip_unauthorized><dtml-var sequence-item>;</dtml-in>',
     lambda s, A: (None, {'q': Seq('c', ['i0', s, 'i2'])}), ('c', '1')),
    ('in-item-prefix', 'initem', '<dtml-in q prefix=it><dtml-var it_item>;</dtml-in>', lambda s, A: (None, {'q': Seq('c', ['i0', s, 'i2'])}), ('c', '1')),
    ('in-item-prefix-nopush-skip', 'initem-skip', '<dtml-in q prefix=it no_push_item skip_unauthorized><dtml-var it_item>;</dtml-in>',
     lambda s, A: (None, {'q': Seq('c', ['i0', s, 'i2'])}), ('c', '1')),
    ('in-item-mapping', 'initem', '<dtml-in q mapping><dtml-var v>;</dtml-in>',
     lambda s, A: (None, {'q': Seq('c', [{'v': 'i0'}, {'v': s}, {'v': 'i2'}])}), ('c', '1')),
    ('in-item-mapping-skip', 'initem-skip', '<dtml-in q mapping skip_unauthorized><dtml-var v>;</dtml-in>',
     lambda s, A: (None, {'q': Seq('c', [{'v': 'i0'}, {'v': s}, {'v': 'i2'}])}), ('c', '1')),
    ('in-item-pair', 'initem', '<dtml-in q><dtml-var sequence-key>=<dtml-var sequence-item>;</dtml-in>',
     lambda s, A: (None, {'q': Seq('c', [('k0', 'i0'), ('k1', s), ('k2', 'i2')])}), ('c', '1')),
    ('in-item-attr', 'initem-attr', '<dtml-in q><dtml-var pub>:<dtml-if sequence-odd><dtml-var %(A)s></dtml-if>;</dtml-in>',
     lambda s, A: (None, {'q': _items(s, A)}), ('e1', None)),
    ('sequence-var', 'svvar', '<dtml-in q><dtml-var pub>:<dtml-if sequence-odd><dtml-var sequence-var-%(A)s></dtml-if>;</dtml-in>',
     lambda s, A: (None, {'q': _items(s, A)}), ('e1', None)),
    ('first-last', 'svvar', '<dtml-in q><dtml-var pub>:<dtml-var first-%(A)s>,<dtml-var last-%(A)s>;</dtml-in>',
     lambda s, A: (None, {'q': _items(s, A)}), ('e1', None)),
    ('next-start-var', 'svvar', '<dtml-in q size=1 orphan=0><dtml-var pub>:<dtml-var next-sequence-start-var-%(A)s>;</dtml-in>',
     lambda s, A: (None, {'q': _items(s, A)}), ('e1', None)),
    ('stat-total', 'stat', '<dtml-in q><dtml-if sequence-end><dtml-var total-%(A)s></dtml-if></dtml-in>',
     lambda s, A: (None, {'q': _items(s, A)}), ('e1', None)),
    ('stat-max', 'stat', '<dtml-in q><dtml-if sequence-end><dtml-var max-%(A)s>,<dtml-var median-%(A)s>,<dtml-var mean-%(A)s></dtml-if></dtml-in>',
     lambda s, A: (None, {'q': _items(s, A)}), ('e1', None)),
    ('sort-single', 'sort', '<dtml-in q sort=%(A)s><dtml-var pub>;</dtml-in>', lambda s, A: (None, {'q': _items(s, A)}), ('e1', None)),
    ('sort-multi', 'sort', '<dtml-in q sort=%(A)s,k><dtml-var pub>;</dtml-in>', lambda s, A: (None, {'q': _items(s, A)}), ('e1', None)),
    ('sort-func', 'sort', '<dtml-in q sort=%(A)s/cmp/desc><dtml-var pub>;</dtml-in>', lambda s, A: (None, {'q': _items(s, A)}), ('e1', None)),
    ('sort-expr', 'sort', '<dtml-in q sort_expr="\'%(A)s\'"><dtml-var pub>;</dtml-in>', lambda s, A: (None, {'q': _items(s, A)}), ('e1', None)),
    ('fmt-method', 'fmt', '<dtml-var o fmt=%(A)s>', lambda s, A: (None, {'o': Client('c', **{A: Method(s)})}), ('c', None)),
    ('url', 'url', '<dtml-var o url>', lambda s, A: (None, {'o': Client('c', absolute_url=Method(s))}), ('c', 'absolute_url')),
    ('subtemplate', 'subtemplate', '<dtml-var sub>', lambda s, A: (Client('c', **{A: s}), {'sub': gclass()('[<dtml-var %s>]' % A)}), ('c', None)),
    ('in-expr-seq', 'exprattr', '<dtml-in "o.%(A)s"><dtml-var sequence-item>;</dtml-in>',
     lambda s, A: (None, {'o': Client('c', **{A: [s, 'z']})}), ('c', None)),
]


CONTEXTS = {
    'plain': ('%s', None),
    'with-only': ('<dtml-with w only>%s</dtml-with>', 'w'),
    'with': ('<dtml-with w>%s</dtml-with>', 'w'),
    'let': ('<dtml-let zz=one>%s</dtml-let>', None),
    'in': ('<dtml-in outer>%s</dtml-in>', None),
    'try': ('<dtml-try>%s<dtml-except ZeroDivisionError>never</dtml-try>', None),
    'if-else': ('<dtml-if nothing>no<dtml-else>%s</dtml-if>', None),
    'with-only-let-in': ('<dtml-with w only><dtml-let zz=one><dtml-in outer>%s</dtml-in></dtml-let></dtml-with>', 'w'),
    'subtemplate': (None, None),
    # sub-templates of the plain (unguarded) class: rendered before the channel, and around it; the guards of the
    # namespace must stay those of the template that was called
    'after-plain-subtemplate': ('<dtml-var plainhdr>%s', None),
    'in-plain-subtemplate': (None, None),
    # histories of one template object: its first use happens in a namespace without guards, the observed rendering is
    # guarded (compiled expressions and other per-template caches must not remember the unguarded mode)
    'plain-subtemplate-used-unguarded-before': (None, None),
    'guarded-template-used-in-plain-before': (None, None),
    # ... or under another template class whose own guards allow everything (two applications sharing a library of templates)
    'plain-subtemplate-used-under-another-guard-before': (None, None),
}


def run_case(ch, cls, secret, syn='html', ctx='plain', deny=None, permissive=False):
    """one rendering.  Returns (trace record, output string)"""
    Policy.allow_underscore = permissive
    try:
        return _run_case(ch, cls, secret, syn, ctx, deny)
    finally:
        Policy.allow_underscore = False


def _run_case(ch, cls, secret, syn='html', ctx='plain', deny=None):
    from zExceptions import Unauthorized
    name, kind, src, build, probe = ch
    A = '_p' if cls == 'private' else 'x'
    po, pa = probe
    pa = pa if pa is not None else A
    if probe[1] is not None and cls == 'private':
        return None, None          # the probed datum is an element / a fixed method, not a nameable attribute
    client, kw = build(secret, A)
    if deny is not None:
        Policy.deny = frozenset(deny)
    else:
        Policy.deny = frozenset([(po, pa)]) if cls == 'denied' else frozenset()
    del LOG[:]
    text = src % {'A': A}
    kw = dict(kw)
    kw.update(one=1, outer=[7], nothing=0)
    wrap, via = CONTEXTS[ctx]
    from DocumentTemplate.DT_HTML import HTML as _PlainHTML
    kw['plainhdr'] = _PlainHTML('<dtml-if one></dtml-if>')          # renders nothing
    if ctx == 'subtemplate':
        kw['inner_tpl'] = gclass(syn)(text)
        text = '<dtml-var inner_tpl>'
    elif ctx == 'in-plain-subtemplate':
        kw['inner_tpl'] = _PlainHTML(text)
        text = '<dtml-var inner_tpl>'
    elif ctx == 'plain-subtemplate-used-unguarded-before':
        kw['inner_tpl'] = _PlainHTML(text)
        try:
            kw['inner_tpl'](client, **kw) if client is not None else kw['inner_tpl'](**kw)
        except BaseException:  # noqa
            pass
        text = '<dtml-var inner_tpl>'
    elif ctx == 'plain-subtemplate-used-under-another-guard-before':
        kw['inner_tpl'] = _PlainHTML(text)
        lenient = _CLS.get('lenient')
        if lenient is None:
            lenient = _CLS['lenient'] = type('LenientHTML', (_PlainHTML,), {
                'guarded_getattr': staticmethod(lambda ob, name: getattr(ob, name)),
                'guarded_getitem': staticmethod(lambda ob, index: ob[index])})
        try:
            o_ = lenient('<dtml-var inner_tpl>')
            o_(client, **kw) if client is not None else o_(**kw)
        except BaseException:  # noqa
            pass
        text = '<dtml-var inner_tpl>'
    elif ctx == 'guarded-template-used-in-plain-before':
        pass
    else:
        text = wrap % text
        if via:                                    # the names are reached through a with-object
            if client is not None:
                return None, None
            kw = {via: Client('w', **kw)}
    pre_t = None
    if ctx == 'guarded-template-used-in-plain-before':
        pre_t = gclass(syn)(text)
        try:
            outer = _PlainHTML('<dtml-var g_tpl>')
            outer(client, g_tpl=pre_t, **kw) if client is not None else outer(g_tpl=pre_t, **kw)
        except BaseException:  # noqa
            pass
    del LOG[:]
    try:
        t = pre_t if pre_t is not None else gclass(syn)(text)
        out = t(client, **kw) if client is not None else t(**kw)
        obs = 'value'
        out = str(out)
    except Unauthorized as e:
        out, obs = 'RAISED Unauthorized', 'unauthorized'
    except KeyError as e:
        out, obs = 'RAISED KeyError %s' % e, 'keyerror'
    except SyntaxError as e:
        out, obs = 'RAISED SyntaxError', 'syntaxerror'
    except BaseException as e:  # noqa
        out, obs = 'RAISED %s: %s' % (type(e).__name__, str(e)[:100]), 'other:' + type(e).__name__
    ev = list(LOG)
    marker = secret if isinstance(secret, str) else None
    shown = bool(marker and marker in out)
    if kind == 'hasattr' and obs == 'value':
        obs = 'true' if out.strip() in ('1', 'True') else 'false'
    if kind == 'initem-skip' and obs == 'value' and cls == 'denied':
        obs = 'skipped' if out == 'i0;i2;' else 'value'
    return {'ch': name, 'kind': kind, 'cls': cls, 'ev': ev, 'obs': obs, 'shown': shown, 'po': po, 'pa': pa, 'src': text}, out


class _Resp:
    def setCookie(self, *a, **k):
        pass


def run_tree(dset, skip):
    from zExceptions import Unauthorized
    kids = [Client('k%d' % i, tpId=Method('v%d' % i), tpURL=Method('u%d' % i), kids=Method([])) for i in range(4)]
    root = Client('root', tpId=Method('r'), tpURL=Method('ur'), kids=Method(Seq('c', kids)))
    src = '<dtml-tree root branches=kids%s>ROW:<dtml-var tpId>;</dtml-tree>' % (' skip_unauthorized=1' if skip else '')
    Policy.deny = frozenset(('c', str(i)) for i in dset)
    del LOG[:]
    errtext = ''
    try:
        out = str(gclass()(src)(URL='http://h/doc', RESPONSE=_Resp(), root=root))
        obs = 'items'
    except Unauthorized as e:
        # what the error says is shown too (an error page, <dtml-var error_value> in a handler): it is output like any other
        try:
            errtext = '%s %r %s' % (e, e.args, getattr(e, 'message', ''))
        except BaseException:  # noqa  (the exception's own text may fail to render)
            errtext = repr(e.args)
        out, obs = 'RAISED Unauthorized', 'unauthorized'
    except BaseException as e:  # noqa
        out, obs = 'RAISED %s: %s' % (type(e).__name__, str(e)[:100]), 'other:' + type(e).__name__
    import re
    shown = [int(x[1]) for x in re.findall(r'ROW:(v\d);', out)] + sorted({int(x[1]) for x in re.findall(r'(v\d)', errtext)})
    return {'ch': 'tree-branches', 'kind': 'initem-skip' if skip else 'initem', 'cls': 'denied', 'ev': list(LOG), 'obs': obs,
            'shown': False, 'po': 'c', 'pa': '0', 'src': src, 'dset': list(dset), 'out_items': shown, 'ctx': 'tree'}, out


class _CookieResp:
    cookie = None

    def setCookie(self, name, value, **k):
        if name == 'tree-s':
            self.cookie = value


TREE_CTX = ('plain', 'subtemplate', 'in-plain-subtemplate', 'plain-subtemplate-used-unguarded-before',
            'guarded-template-used-in-plain-before')


def run_tree_attr(secret, mode, ctx, variant):
    """the attribute that hands out a node's branches is refused for one node (k1): whatever the tag then does, nothing below that
    node may be shown -- on the first rendering, after expand_all, and after a click on the node's own expand link; also when
    the template object was used in a namespace without guards before"""
    import re
    from zExceptions import Unauthorized
    from DocumentTemplate.DT_HTML import HTML as _PlainHTML
    battr = ('kids', 'tpValues')[variant % 2]
    g = [Client('g%d' % i, tpId=Method('%s-%d' % (secret if i == 1 else 'open', i)), tpURL=Method('ug%d' % i),
                **{battr: Method([])}) for i in range(3)]
    kids = [Client('k%d' % i, tpId=Method('v%d' % i), tpURL=Method('u%d' % i), **{battr: Method(Seq('s%d' % i, [g[i]]))})
            for i in range(3)]
    root = Client('root', tpId=Method('r'), tpURL=Method('ur'), **{battr: Method(Seq('c', kids))})
    src = '<dtml-tree root%s%s>ROW:<dtml-var tpId>;</dtml-tree>' % (' branches=kids' if battr == 'kids' else '',
                                                                   ' skip_unauthorized=1' if variant % 3 == 1 else '')
    Policy.deny = frozenset([('k1', battr)])

    def once(extra):
        resp = _CookieResp()
        kw = dict(URL='http://h/doc', RESPONSE=resp, root=root)
        kw.update(extra)
        if ctx == 'plain':
            t = gclass()(src)
        elif ctx == 'subtemplate':
            kw['inner_tpl'] = gclass()(src)
            t = gclass()('<dtml-var inner_tpl>')
        elif ctx == 'in-plain-subtemplate':
            kw['inner_tpl'] = _PlainHTML(src)
            t = gclass()('<dtml-var inner_tpl>')
        elif ctx == 'plain-subtemplate-used-unguarded-before':
            kw['inner_tpl'] = _PlainHTML(src)
            try:
                kw['inner_tpl'](**dict(kw, RESPONSE=_CookieResp()))
            except BaseException:  # noqa
                pass
            t = gclass()('<dtml-var inner_tpl>')
        else:
            t = gclass()(src)
            try:
                _PlainHTML('<dtml-var g_tpl>')(g_tpl=t, **dict(kw, RESPONSE=_CookieResp()))
            except BaseException:  # noqa
                pass
        del LOG[:]
        try:
            return str(t(**kw)), 'value', resp.cookie
        except Unauthorized:
            return 'RAISED Unauthorized', 'unauthorized', resp.cookie
        except BaseException as e:  # noqa
            return 'RAISED %s: %s' % (type(e).__name__, str(e)[:100]), 'other:' + type(e).__name__, resp.cookie
    if mode == 'first':
        out, obs, _ = once({})
    elif mode == 'expand_all':
        out, obs, _ = once({'expand_all': 1})
    else:
        # click: the expand link the tag generated for k1 on a first rendering (made with nothing refused), followed under the guard
        Policy.deny = frozenset()
        first, _, cookie = once({})
        Policy.deny = frozenset([('k1', battr)])
        m = re.search(r'<a name="v1" href="[^"?]*\?(tree-[ec])=([^#"]*)#', first)
        if not m or cookie is None:
            return None, None
        out, obs, _ = once({m.group(1): m.group(2), 'tree-s': cookie})
    return {'ch': 'tree-branches-attr', 'kind': 'treeattr', 'cls': 'denied', 'ev': list(LOG), 'obs': obs,
            'shown': secret in out, 'po': 'k1', 'pa': battr, 'src': src, 'ctx': '%s/%s' % (ctx, mode)}, out


REVOKE_SRC = [
    ('with-with', '<dtml-with o>[<dtml-var x>]</dtml-with>|<dtml-with o>[<dtml-var x>]</dtml-with>'),
    ('with-in', '<dtml-with o>[<dtml-var x>]</dtml-with>|<dtml-in os>[<dtml-var x>]</dtml-in>'),
    ('in-in', '<dtml-in os>[<dtml-var x>]</dtml-in>|<dtml-in os>[<dtml-var x>]</dtml-in>'),
    ('in-with-nested', '<dtml-in os>[<dtml-var x>]<dtml-with o>[<dtml-var x>]</dtml-with></dtml-in>'),
    ('with-let-with', '<dtml-with o><dtml-let y=x>[<dtml-var y>]</dtml-let></dtml-with>|<dtml-with o>[<dtml-var x>]</dtml-with>'),
    ('with-if-with', '<dtml-with o><dtml-if x>[<dtml-var x>]</dtml-if></dtml-with>|<dtml-with o><dtml-if x>[<dtml-var x>]</dtml-if></dtml-with>'),
    ('client-with', '[<dtml-var x>]|<dtml-with o>[<dtml-var x>]</dtml-with>'),
    ('with-expr-with', '<dtml-with "o">[<dtml-var x>]</dtml-with>|<dtml-with expr="(o,)">[<dtml-var x>]</dtml-with>'),
    ('sub-with', '<dtml-var inner>|<dtml-with o>[<dtml-var x>]</dtml-with>'),
]


def run_revocation(name, src, secret, grants):
    """the same object is reached twice in one rendering (each dtml-with / dtml-in element / client wraps it afresh); the guard
    grants the attribute `grants` times and refuses it from then on.  Every wrapper asks for itself: the value is shown at most
    as often as the guard granted it"""
    from zExceptions import Unauthorized
    o = Client('o', x=secret, pub='P')
    kw = {'o': o, 'os': [o]}
    if name == 'sub-with':
        kw['inner'] = gclass()('<dtml-with o>[<dtml-var x>]</dtml-with>')
    Policy.deny = frozenset()
    Policy.grants = {('o', 'x'): grants}
    Policy.asked = {}
    del LOG[:]
    try:
        t = gclass()(src)
        out = str(t(o, **kw)) if name == 'client-with' else str(t(**kw))
        obs = 'value'
    except Unauthorized:
        out, obs = 'RAISED Unauthorized', 'unauthorized'
    except BaseException as e:  # noqa
        out, obs = 'RAISED %s: %s' % (type(e).__name__, str(e)[:100]), 'other:' + type(e).__name__
    finally:
        Policy.grants = {}
    return {'ch': 'revocation-' + name, 'kind': 'name', 'cls': 'denied' if grants < 2 else 'public', 'ev': list(LOG), 'obs': obs,
            'shown': secret in out, 'shown_n': out.count(secret), 'counted': True, 'po': 'o', 'pa': 'x', 'src': src,
            'ctx': 'granted %d time(s)' % grants}, out


def secrets(ch, which):
    """the value behind the probed attribute in run A / run B (same type, different content; for sort and
    statistics channels the two runs order / sum differently)"""
    kind = ch[1]
    if kind in ('sort', 'stat'):
        return [5, 1, 7] if which == 'A' else [5, 9, 7]
    if ch[0] in ('first-last',):
        return [5, 5, 7] if which == 'A' else [5, 6, 7]
    return 'SECRET-%s-VALUE' % which


def stock_stage(V):
    """the stock guards (security.RestrictedDTML, AccessControl's policy) instead of the recording guard: elements of
    containers that do not hand out their unprotected sub-objects are refused whatever their type; the two-run
    non-interference test decides (different values behind the refused elements, equal outputs, no marker shown)"""
    from AccessControl.SecurityManagement import getSecurityManager, noSecurityManager
    from zExceptions import Unauthorized
    from DocumentTemplate.DT_HTML import HTML
    from DocumentTemplate.security import RestrictedDTML

    class Stock(RestrictedDTML, HTML):
        def getOwner(self):
            return None

        def __call__(self, client=None, REQUEST={}, RESPONSE=None, **kw):
            sm = getSecurityManager()
            sm.addContext(self)
            try:
                return HTML.__call__(self, client, REQUEST, **kw)
            finally:
                sm.removeContext(self)

    class Vault:
        __allow_access_to_unprotected_subobjects__ = 0

        def __init__(self, items):
            self._items = items

        def __len__(self):
            return len(self._items)

        def __getitem__(self, i):
            return self._items[i]

    class Mixed(Vault):
        def __allow_access_to_unprotected_subobjects__(self, name, value):
            return 'SECRET' not in repr(value) and value not in (41, 42, 4.25, 4.5)

    class Thing:
        __allow_access_to_unprotected_subobjects__ = 1

        def __init__(self, v):
            self.v = v

        def __repr__(self):
            return 'Thing(%r)' % (self.v,)

    def secrets(kind, which):
        if kind == 'str':
            return 'SECRET-%s' % which
        if kind == 'int':
            return 41 if which == 'A' else 42
        if kind == 'float':
            return 4.25 if which == 'A' else 4.5
        if kind == 'bytes':
            return ('SECRET-%s' % which).encode()
        if kind == 'none':
            return None
        return Thing('SECRET-%s' % which)
    tags = ['<dtml-in q><dtml-var sequence-item>;</dtml-in>', '<dtml-in q skip_unauthorized><dtml-var sequence-item>;</dtml-in>',
            '<dtml-in q size=9><dtml-var sequence-item>;</dtml-in>', '<dtml-in q size=9 skip_unauthorized><dtml-var sequence-item>;</dtml-in>',
            '<dtml-in q no_push_item><dtml-var sequence-item>;</dtml-in>', '<dtml-in q prefix=it skip_unauthorized><dtml-var it_item>;</dtml-in>',
            '<dtml-var "q[1]">']
    # (not here: sort= copies the elements before they are fetched through the guard -- known finding F9; a slice q[1:2]
    #  in an expression is answered by AccessControl's own item guard, which hands slices out unchecked)
    for cont in (Vault, Mixed):
        for kind in ('str', 'int', 'float', 'bytes', 'obj'):
            for src in tags:
                outs = []
                for which in ('A', 'B'):
                    pub = {'str': 'pub', 'int': 7, 'float': 1.5, 'bytes': b'pub', 'obj': Thing('pub')}[kind]
                    q = cont([pub, secrets(kind, which), pub])
                    noSecurityManager()
                    try:
                        out = str(Stock(src)(q=q))
                    except Unauthorized:
                        out = 'RAISED Unauthorized'
                    except Exception as e:  # noqa
                        out = 'RAISED %s' % type(e).__name__
                    outs.append(out)
                V.count('stock_guard_cases')
                if outs[0] != outs[1] or 'SECRET' in outs[0] + outs[1]:
                    V.violation({'kind': 'flow', 'channel': 'stock-guard-in-item', 'channel_kind': 'initem', 'attribute_class': 'denied',
                                 'context': cont.__name__ + ' of ' + kind, 'source': src, 'output_run_A': outs[0][:200],
                                 'output_run_B': outs[1][:200], 'cls': 'stock-guard-element-shown'})
    noSecurityManager()


def main(tier):
    V = common.Verdicts(PID, tier)
    stock_stage(V)
    recs, meta = [], []
    for ch in CHANNELS:
        for cls in ('public', 'private', 'denied'):
            for ctx in CONTEXTS:
                if ch[0] == 'subtemplate' and ctx not in ('plain', 'after-plain-subtemplate', 'guarded-template-used-in-plain-before'):
                    continue
                ra, oa = run_case(ch, cls, secrets(ch, 'A'), 'html', ctx)
                if ra is None:
                    continue
                rb, ob = run_case(ch, cls, secrets(ch, 'B'), 'html', ctx)
                ra['ctx'] = ctx
                recs.append(ra)
                meta.append((ch, cls, ra, oa, rb, ob))
    # underscore names stay private independently of the guards: the same name channels under a permissive guard that would
    # let underscore names through if it were asked
    for ch in CHANNELS:
        if ch[1] not in ('name', 'ifname', 'with', 'initem-attr', 'subtemplate'):
            continue
        for ctx in CONTEXTS:
            if ch[0] == 'subtemplate' and ctx not in ('plain', 'after-plain-subtemplate', 'guarded-template-used-in-plain-before'):
                continue
            ra, oa = run_case(ch, 'private', secrets(ch, 'A'), 'html', ctx, permissive=True)
            if ra is None:
                continue
            rb, ob = run_case(ch, 'private', secrets(ch, 'B'), 'html', ctx, permissive=True)
            ra['ctx'] = ctx + ' (permissive guard)'
            recs.append(ra)
            meta.append((ch, 'private', ra, oa, rb, ob))
    # element channels: every subset of refused elements of a 4-element sequence
    import itertools
    for ch in CHANNELS:
        if ch[1] not in ('initem', 'initem-skip') or 'mapping' in ch[0] or 'pair' in ch[0]:
            continue
        for r in range(0, 5):
            for dset in itertools.combinations(range(4), r):
                for ctx in ('plain', 'with-only', 'in', 'after-plain-subtemplate'):
                    mk = lambda which: Seq('c', ['v%d%s' % (i, which if i in dset else '') for i in range(4)])
                    ch2 = (ch[0], ch[1], ch[2], (lambda s_, A, mk=mk: (None, {'q': s_})), ch[4])
                    deny = [('c', str(i)) for i in dset]
                    ra, oa = run_case(ch2, 'denied', mk('A'), 'html', ctx, deny)
                    rb, ob = run_case(ch2, 'denied', mk('B'), 'html', ctx, deny)
                    ra['ctx'] = ctx
                    ra['dset'] = list(dset)
                    shown = [int(x[1]) for x in oa.split(';') if x[:1] == 'v'] if not oa.startswith('RAISED') else []
                    ra['out_items'] = shown
                    if ra['obs'] in ('value', 'skipped'):
                        ra['obs'] = 'items'
                    recs.append(ra)
                    meta.append((ch2, 'denied', ra, oa, rb, ob))
    # loops shown in sorted order: the guard is asked about the elements themselves, whatever list the tag iterates over
    for opts in ('sort=k', 'sort=k,pub', 'sort_expr="\'k\'"', 'sort=k size=9', 'sort=k/cmp', 'sort=k prefix=it', 'sort=k no_push_item'):
        for skip in (True, False):
            for r in range(0, 5):
                for dset in itertools.combinations(range(4), r):
                    src = '<dtml-in q %s%s><dtml-var "_[\'sequence-item\'].pub">;</dtml-in>' % (opts, ' skip_unauthorized' if skip else '')
                    els = [Client('e%d' % i, k=i, pub='v%d' % i) for i in range(4)]
                    Policy.deny = frozenset()
                    Policy.deny_values = frozenset('e%d' % i for i in dset)
                    del LOG[:]
                    try:
                        oa = str(gclass()(src)(q=els))
                        obs = 'items'
                    except BaseException as e:  # noqa
                        oa, obs = 'RAISED %s' % type(e).__name__, ('unauthorized' if type(e).__name__ == 'Unauthorized' else 'other:' + type(e).__name__)
                    finally:
                        Policy.deny_values = frozenset()
                    ra = {'ch': 'in-item-sorted', 'kind': 'initem-skip' if skip else 'initem', 'cls': 'denied', 'ev': list(LOG), 'obs': obs,
                          'shown': False, 'po': 'c', 'pa': '0', 'src': src, 'dset': list(dset), 'ctx': 'sorted',
                          'out_items': [int(x[1]) for x in oa.split(';') if x[:1] == 'v'] if obs == 'items' else []}
                    recs.append(ra)
                    meta.append((('in-item-sorted', ra['kind'], src, None, ('c', '0')), 'denied', ra, oa, ra, oa))
    # dtml-tree branches: every subset of refused branches of a node with four branches
    for skip in (True, False):
        for r in range(0, 5):
            for dset in itertools.combinations(range(4), r):
                for which in ('A',):
                    ra, oa = run_tree(dset, skip)
                    recs.append(ra)
                    meta.append((('tree-branches', ra['kind'], ra['src'], None, ('c', '0')), 'denied', ra, oa, ra, oa))
    # dtml-tree: the branches attribute itself is refused for one node
    k = 0
    for ctx in TREE_CTX:
        for mode in ('first', 'expand_all', 'click'):
            for variant in range(6):
                k += 1
                ra, oa = run_tree_attr('SECRET-A-VALUE', mode, ctx, variant)
                rb, ob = run_tree_attr('SECRET-B-VALUE', mode, ctx, variant)
                if ra is None or rb is None:
                    common.machinery_failure('tree driver: no expand link for the probed node (%s, %s, %d)' % (ctx, mode, variant))
                recs.append(ra)
                meta.append((('tree-branches-attr', 'treeattr', ra['src'], None, ('k1', ra['pa'])), 'denied', ra, oa, rb, ob))
    # a guard that grants an attribute once (twice, never) and refuses it afterwards, the object being reached twice
    for name, src in REVOKE_SRC:
        for grants in (0, 1, 2):
            ra, oa = run_revocation(name, src, 'SECRET-A-VALUE', grants)
            rb, ob = run_revocation(name, src, 'SECRET-B-VALUE', grants)
            recs.append(ra)
            meta.append((('revocation-' + name, 'name', src, None, ('o', 'x')), ra['cls'], ra, oa.replace('SECRET-A', 'SECRET-*'), rb,
                         ob.replace('SECRET-B', 'SECRET-*')))
    # binding self-test: a trace whose guard call is removed must show an unmediated read
    n_real = len(recs)
    for r in list(recs[:200]):
        gi = [i for i, e in enumerate(r['ev']) if e['e'] == 'genter' and any(
            x['e'] == 'raw' and x['o'] == e['o'] and x['a'] == e['a'] for x in r['ev'][i:i + 3])]
        if gi and r['cls'] == 'public':
            i = gi[0]
            ev = [e for j, e in enumerate(r['ev']) if not (j >= i and e['e'] in ('genter', 'gexit') and e['o'] == r['ev'][i]['o'] and e['a'] == r['ev'][i]['a'])]
            recs.append(dict(r, ev=ev, corrupted=(r['ev'][i]['o'], r['ev'][i]['a'])))
    out = {}
    cfg = 'SPECIFICATION Spec\nINVARIANT NestedCalls\nINVARIANT Verdict\nCHECK_DEADLOCK FALSE\n'
    res = tlc.run('DTGuard', cfg, files={'traces.json': json.dumps([dict({k: r[k] for k in ('kind', 'cls', 'ev', 'obs', 'shown', 'po', 'pa')},
                                                                         dset=r.get('dset', []), out_items=r.get('out_items', []),
                                                                         multi='dset' in r, counted=bool(r.get('counted')), shown_n=r.get('shown_n', 0))
                                                                    for r in recs])},
                  on_print=lambda v: out.__setitem__(v['tid'], v), keep_prints=False, timeout=1200, coverage=(tier == 'thorough'))
    if res.violated:
        raise tlc.TLCFailure('DTGuard: %s\n%s' % (res.violated, (res.error_trace or '')[:1500]))
    drift = []
    for i in range(n_real + 1, len(recs) + 1):
        v = out.get(i)
        o, a = recs[i - 1]['corrupted']
        if v is None or [o, a] not in [list(u) for u in v['unmediated']]:
            common.machinery_failure('binding self-test: removing the guard call for (%s, %s) did not produce an unmediated read' % (o, a))
        V.count('binding_selftest_corrupted_traces_rejected')
    for i, (ch, cls, ra, oa, rb, ob) in enumerate(meta, 1):
        v = out.get(i)
        if v is None:
            raise tlc.TLCFailure('no verdict for trace %d' % i)
        V.count('traces_validated')
        refused = cls in ('private', 'denied')
        flows = refused and (oa != ob or ('SECRET' in oa) or ('SECRET' in ob))
        unmediated = [u for u in v['unmediated']]
        if not v['expect_ok'] and ch[1] not in ENV_MEDIATED:
            drift.append({'channel': ch[0], 'ctx': ra.get('ctx'), 'cls': cls, 'expected': v['expect'], 'observed': ra['obs'], 'output': oa[:80]})
        if ra.get('counted'):
            if not v['granted_ok']:
                V.violation({'kind': 'flow', 'channel': ch[0], 'channel_kind': 'revocation', 'context': ra.get('ctx'), 'source': ra['src'],
                             'output_run_A': oa[:200], 'times_shown': ra['shown_n'], 'times_granted': v['granted'],
                             'guard_log': [e for e in ra['ev'] if e['e'] != 'raw'][:10], 'cls': 'shown-more-often-than-granted'})
            else:
                V.count('cases_conform')
            continue
        if 'dset' in ra and not v['items_ok']:
            V.violation({'kind': 'flow', 'channel': ch[0], 'channel_kind': ch[1], 'attribute_class': cls, 'context': ra.get('ctx'),
                         'source': ra['src'], 'refused_elements': ra['dset'], 'elements_shown': ra['out_items'], 'output_run_A': oa[:200],
                         'cls': 'refused-element-shown'})
        elif refused and (flows or not v['shown_ok']):
            V.violation({'kind': 'flow', 'channel': ch[0], 'channel_kind': ch[1], 'attribute_class': cls, 'context': ra.get('ctx'),
                         'source': ra['src'], 'output_run_A': oa[:200], 'output_run_B': ob[:200], 'unmediated_reads': unmediated,
                         'guard_log': [e for e in ra['ev'] if e['e'] != 'raw'][:8], 'cls': 'flow-' + ch[1]})
        elif unmediated and refused:
            V.count('unmediated_reads_without_flow')
        else:
            V.count('cases_conform')
    cov = {'states': res.distinct, 'transitions': res.generated,
           'traces_validated_against_impl': V.counters.get('traces_validated', 0),
           'channels': len(CHANNELS), 'cases': len(meta), 'expectation_drift': drift, 'exhaustive': True,
           'rule': '%d access channels x {public, underscore-private, guard-denied} attribute, each rendered twice with different '
                   'values behind the refused attribute (non-interference), guard and raw reads logged' % len(CHANNELS),
           'samples': [{'channel': m[0][0], 'cls': m[1], 'source': m[2]['src'], 'trace': m[2]['ev'][:6]} for m in meta[:3]]}
    return V.finish(cov, assumptions=['the recording guard refuses underscore names like the real guards do; the name channels are also run under a permissive guard that would let them through',
                                      'key access on mappings (dtml-with mapping, dtml-in mapping) is not mediated by design'])


def replay_file(path):
    data = json.load(open(path))
    for v in data['violations']:
        print(json.dumps(v, default=repr)[:1500])
    return 1 if data['violations'] else 0
