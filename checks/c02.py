"""C02 -- names resolve by documented source precedence; block bindings are scoped.

Machine: spec/DTRender.tla -- Init/TopFrames (push order of String.__call__: defaults = construction
keywords over the construction mapping, call mapping, one InstanceDict per client in tuple order,
template variables, call keywords), FindFrom (top-down search), MdGet/MdRaw (auto-call rule:
callables called, templates rendered on the current namespace via CallEnter with their own
defaults on top, expressions get the value uncalled), and the frames pushed by if (cache), let,
with, in, try/except.
"""
import itertools
import json
import random

from harness import common
from harness.render import *  # noqa
from checks import render_common

PID = 'C02'
SOURCES = ['kw', 'tv', 'c2', 'c1', 'map', 'ck', 'cm']       # high -> low priority (c2 = last client)


def val(kind, tag):
    if kind == 'plain':
        return plain('from-' + tag)
    if kind == 'fn':
        return fn('F-' + tag, plain('from-' + tag))
    if kind == 'falsy':
        return plain('zero-' + tag, False)
    return tmpl('T-' + tag, [T('[tmpl-' + tag + ':'), V('own'), V('both'), V('m'), T(']')],
                {'own': plain('own-' + tag), 'both': plain('both-default-' + tag)})


def refs(kind):
    r = [[V('n')], [P('n')],
         [If([(N('n'), [T('yes:'), V('n')])], [T('no')])],
         [Let([('q', N('n'))], [V('q')])]]
    if kind != 'tmpl':
        # a let that binds a name to itself: the value is looked up (a callable is called) once, the result is what the name means
        # inside the block -- for tags and for expressions
        r.append([Let([('n', N('n'))], [V('n'), T('/'), P('n'), T('/'), V('n')]), T('|'), V('n')])
        r.append([If([(X('n'), [T('xyes')])], [T('xno')]), Let([('q', X('n'))], [P('q')])])
        # through the namespace object inside expressions: _['n'] and _.getitem('n', 1) call, _.getitem('n', 0) does not,
        # _.has_key('n') only searches, _.render(n) renders like a tag
        r.append([Vx(Item('n')), T(','), Vx(Get1('n')), T(','), Let([('q', Get0('n'))], [P('q')]), T(','), Vx(Render('n'))])
        r.append([If([(HasKey('n'), [T('has:'), Vx(Item('n'))])], [T('hasnot')]), If([(HasKey('nowhere'), [T('?')])], [T('no')]),
                  Let([('q', Item('n')), ('r', Render('n'))], [V('q'), V('r')])])
    else:
        r = r[:2]
    return r


def precedence_cases(tier, rng):
    cases = []
    for mask in range(1, 128):
        S = [s for i, s in enumerate(SOURCES) if mask >> i & 1]
        for kind in ('plain', 'fn', 'tmpl', 'falsy'):
            if tier == 'quick' and kind in ('tmpl', 'falsy') and mask % 2:
                continue
            d = {s: val(kind, s) for s in S}
            c1 = obj('C1', **({'n': d['c1']} if 'c1' in d else {}), m=plain('m-c1'))
            c2 = obj('C2', **({'n': d['c2']} if 'c2' in d else {}))
            shapes = []
            if 'c2' in S:
                shapes.append(([c1, c2], True))
            elif 'c1' in S:
                shapes += [([c1], False), ([c1], True), ([c1, c2], True)]
            else:
                shapes += [([], False), ([c1], False)]
            for clients, tup in shapes[:(2 if tier == 'quick' else 3)]:
                for r in refs(kind):
                    src = sources(cm=dict({'n': d['cm']} if 'cm' in d else {}, both=plain('both-caller'), _hid=plain('hidden')),
                                  ck={'n': d['ck']} if 'ck' in d else {},
                                  map={'n': d['map']} if 'map' in d else {},
                                  clients=clients,
                                  tv={'n': d['tv']} if 'tv' in d else {},
                                  kw={'n': d['kw']} if 'kw' in d else {})
                    cases.append(dict(prog=[T('<')] + r + [T('>'), V('both')], src=src, K=0, fk=[],
                                      client_tuple=tup, us=['_hid']))
    return cases


def binders(inner, tag):
    """each scoping block binding n (and a decoy) around `inner`"""
    o = obj('O' + tag, n=plain('with-' + tag), decoy=plain('dw-' + tag))
    items = lst('L' + tag, [obj('I' + tag, n=plain('in-' + tag))])
    mitems = lst('M' + tag, [mp('MI' + tag, n=plain('inmap-' + tag))])
    # a sequence of mixed elements: objects are pushed, plain strings and numbers are not -- element by element
    mixed = lst('X' + tag, [obj('XI' + tag, n=plain('in-' + tag)), plain('just-text-' + tag), obj('XJ' + tag, n=plain('in2-' + tag)),
                            plain('tail-' + tag)])
    f = fn('FC' + tag, plain('ifcache-' + tag))
    ns = {'o' + tag: o, 'l' + tag: items, 'ml' + tag: mitems, 'fc' + tag: f, 'src' + tag: plain('let-' + tag), 'mx' + tag: mixed,
          # mappings handed to dtml-with ... mapping: one that computes its values on demand (and has no length), an empty one
          'cm' + tag: cmap('CM' + tag, n=plain('cmap-' + tag), decoy=plain('dcm-' + tag)), 'em' + tag: mp('EM' + tag)}
    mid = [T('(' + tag + ':'), V('n')] + inner + [V('n'), T(')')]
    blocks = [
        With(N('o' + tag), mid),
        Let([('n', N('src' + tag)), ('decoy', X('src' + tag))], mid),
        In(N('l' + tag), mid),
        In(N('ml' + tag), mid, mapping=True),
        In(N('l' + tag), mid, nopush=True),
        In(N('mx' + tag), mid),
        In(N('mx' + tag), mid, start=1, size=3),
        Try([Raise('KeyError', [T('k')])], [(['KeyError'], [T('(h' + tag + ':'), V('error_type'), V('n')] + inner + [V('error_type'), T(')')])], None),
        # if caches the *called* value of its named condition for the body
        If([(N('fc' + tag), [T('(if' + tag + ':'), V('fc' + tag)] + inner + [V('fc' + tag), T(')')])]),
        With(N('o' + tag), mid, only=True),
        With(X('cm' + tag), mid, mapping=True),
        With(X('em' + tag), mid, mapping=True),
    ]
    return blocks, ns


def scoping_cases(tier, rng):
    cases = []
    base = {'n': plain('outer-n'), 'error_type': plain('outer-et'), 'decoy': plain('outer-decoy')}
    b1, ns1 = binders([], 'a')
    for x in b1:
        cases.append((x, dict(ns1)))
    for x in b1:
        b2, ns2 = binders([x], 'b')
        for y in b2:
            cases.append((y, dict(ns1, **ns2)))
            if tier == 'thorough' or rng.random() < 0.25:
                b3, ns3 = binders([y], 'c')
                for z in (b3 if tier == 'thorough' else rng.sample(b3, 2)):
                    cases.append((z, dict(ns1, **dict(ns2, **ns3))))
    # bindings also end when the block is left by an exception: raise inside every binder (depth 1 and 2),
    # catch outside, probe in the outer handler and after it
    boom = [Raise('ValueError', [T('x')])]
    e1, nse1 = binders(boom, 'a')
    for x in e1:
        cases.append((Try([x], [([], [T('{caught:'), V('n'), V('error_type'), V('decoy'), T('}')])], None), dict(nse1)))
        e2, nse2 = binders([x], 'b')
        for y in e2:
            cases.append((Try([y], [(['ValueError'], [T('{caught:'), V('n'), V('decoy'), T('}')])], None),
                          dict(nse1, **nse2)))
    out = []
    for blk, ns in cases:
        kw = dict(base, **ns)
        prog = [V('n'), T('|'), blk, T('|'), V('n'), V('error_type'), V('decoy')]
        only = '"only": true' in json.dumps(blk)
        out.append(dict(prog=prog, src=sources(kw=kw), K=0, fk=[], no_evs=only))
    return out


def sibling_cases(tier, rng):
    """a binding made by one conditional (its cache of called condition values) must be gone in the next conditional of
    the same block list: there the name is the callable again (expressions get it uncalled, tags call it again)"""
    kw = {'fs': fn('FS', plain('called-FS')), 'fg': fn('FG', plain('called-FG')), 't': plain('T'),
          'z': plain('zero', False), 'n': plain('outer-n'), 'o': obj('O', w=plain('W')),
          'l': lst('L', [obj('I', x=plain('x1'))])}
    first = [If([(N('fs'), [T('a')])]), If([(N('z'), [T('no')]), (N('fs'), [T('b'), V('fs')])]),
             Unless(N('fs'), [T('u')]), Call(N('fs')), If([(N('fs'), [])], [T('e')])]
    second = [If([(N('t'), [P('fs'), V('fs')])]), If([(X('t'), [P('fs')])], [T('e')]),
              Unless(N('z'), [P('fs'), V('fs')]), If([(N('fs'), [P('fs')])]), Let([('q', X('fs'))], [P('q')]),
              If([(N('fg'), [P('fs'), V('fg')])]), Call(C('fs'))]
    out = []
    for a in first:
        for b in second:
            pair = [a, T('|'), b]
            for w in ([T('<')] + pair + [T('>')],
                      [With(N('o'), pair)], [In(N('l'), pair)], [Let([('y', N('t'))], pair)],
                      [If([(N('t'), pair)])], [Try(pair, [([], [T('h')])], None)]):
                out.append(dict(prog=w + [P('fs')], src=sources(kw=dict(kw)), K=0, fk=[]))
    return out


def namespace_cases(tier, rng):
    """values bound with the keyword form of _.namespace(...) / _(...) and brought into scope by dtml-with: the bound name
    follows the rules of every other name (called by tags, uncalled in expressions, a template rendered on the current
    namespace), shadows the outer binding inside the block only"""
    out = []
    for kind in ('plain', 'fn', 'tmpl', 'falsy'):
        for u in (False, True):
            for r in refs(kind):
                kw = {'src': val(kind, 'src'), 'n': plain('outer-n'), 'm': plain('m-outer'), 'both': plain('both-outer')}
                for wrap in (lambda b: b, lambda b: [Let([('m', N('n'))], b)], lambda b: [In(N('l'), b)]):
                    prog = [V('n'), T('|')] + wrap([With(MkNs('src', 'n', u), [T('(')] + r + [T(')')]), V('n')]) + [T('|'), V('n')]
                    out.append(dict(prog=prog, src=sources(kw=dict(kw, l=lst('L', [obj('I', z=plain('z1'))]))), K=0, fk=[]))
    return out


def prefix_cases(tier, rng):
    """nested and sibling loops with prefixes of their own: a prefixed name is answered by the loop carrying that prefix (the
    enclosing one for an inner loop without it), by nobody after that loop's end tag -- where the outer sources answer again"""
    out = []
    rows = lst('ROWS', [obj('R%d' % i, x=plain('rx%d' % i)) for i in range(2)])
    cols = lst('COLS', [plain('c%d' % i) for i in range(2)])
    kw = {'rows': rows, 'cols': cols, 'row_item': plain('KW-row-item'), 'col_number': plain('KW-col-number'), 'x': plain('outer-x')}
    svn = dict(svn_table(prefix='row'))
    svn.update(svn_table(prefix='col'))
    inner_bodies = [[V('row_number'), T(':'), V('sequence-item'), T(':'), V('row_number'), T(' ')],
                    [V('row_index'), T('/'), V('col_number'), T('/'), V('row_number'), T(' ')],
                    [V('sequence-number'), V('row_letter'), V('col_number'), T(' ')]]
    for ib in inner_bodies:
        for inner_pre in (None, 'col'):
            inner = In(N('cols'), ib, pre=bool(inner_pre), prefix=inner_pre or 'p')
            nested = [In(N('rows'), [T('['), V('row_number')] + [inner] + [V('row_number'), T(']')], pre=True, prefix='row')]
            sibling = [In(N('rows'), [V('row_number'), T(',')], pre=True, prefix='row'), T('|'),
                       In(N('cols'), [V('row_item'), T('/'), V('col_number'), T(',')], pre=bool(inner_pre), prefix=inner_pre or 'p')]
            for prog in (nested, sibling, nested + [T('|')] + sibling, sibling + [T('|')] + nested):
                out.append(dict(prog=prog + [T('|'), V('row_item'), V('col_number')], src=sources(kw=dict(kw)), K=0, fk=[], svn=svn))
    return out


def _lookup_stages(V, tier):
    from checks import c02_lookup
    return c02_lookup.stages(V, tier)


def main(tier):
    rng = random.Random(common.seed())
    cases = precedence_cases(tier, rng) + scoping_cases(tier, rng) + sibling_cases(tier, rng) + namespace_cases(tier, rng) + prefix_cases(tier, rng)
    return render_common.run(
        PID, tier, cases, ['result', 'calls'], batch=3000, extra_stage=_lookup_stages,
        assumptions=['each source binds the probed name to a distinct marker (plain, logging callable, template '
                     'with own defaults, falsy value)',
                     'a client tuple is passed in path order, the last element is searched first',
                     'second binding: every search of every TemplateDict in the C02 / C08 cases and in the repository\'s own 237 '
                     'tests is recorded through frame proxies and validated by TLC against the projection spec ObsLookup'],
        rule='all 127 non-empty subsets of {call kw, template vars, last client, first client, call mapping, '
             'construction kw, construction mapping} x value kind x client shape x reference form (tag by name, '
             'expression probe, if-condition, let binding, expression condition); scoping: every binder '
             '(with, let, in, in mapping, in no_push_item, except handler, if cache, with only) nested to depth '
             '2 (3 sampled / thorough) with probes before, inside and after; sibling conditionals (if / unless / call followed by a '
             'second conditional, let or expression using the same callable) at top level and inside every block kind')


replay = render_common.replay
