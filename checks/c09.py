"""C09 -- if/elif/else/unless render the first true branch, lazily and evaluating once.

Machine: spec/DTRender.tla (RbIf, IfCond: cache frame pushed first, conditions in order, named
conditions cached, undefined names false, body rendered with the cache still on the stack).
Cases: every chain of 1..n condition atoms x else shape x body shape (re-references at nesting
depth 0..2, empty bodies), unless and call forms.  Observables: returned text and the ordered
log of invoked callables.
"""
import itertools
import random

from harness import common
from harness.render import *  # noqa
from checks import render_common

PID = 'C09'


def atom(kind, i, t):
    """returns (cond, name referenced by re-references, namespace additions)"""
    c, v = 'c%d' % i, 'v%d' % i
    val = plain('P%d' % i, t)
    f = fn('F%d' % i, plain('R%d' % i, t))
    if kind == 'nf':
        return N(c), c, {c: f}
    if kind == 'np':
        return N(v), v, {v: val}
    if kind == 'u':
        return N('undef%d' % i), 'undef%d' % i, {}
    if kind == 'uq':        # an undefined name that needs quoting in the tag (and would need escaping in HTML)
        nm = ('undef R&D', "undef owner's", 'undef a<b>')[i % 3]
        return N(nm), nm, {}
    if kind == 'nq':        # a defined one
        nm = ('R&D %d' % i, "it's %d" % i, 'a<b> %d' % i)[i % 3]
        return N(nm), nm, {nm: val}
    if kind == 'nt':        # a document template with defaults of its own, found by name: rendered, and what it gives is the value
        prog = ([T('R%d' % i), V('marker'), V('tf')] if t else [Call(N('tf'))])
        return N('t%d' % i), 't%d' % i, {'t%d' % i: tmpl('TT%d' % i, prog, {'marker': plain('M%d' % i)}), 'tf': fn('TF', plain('tf'))}
    if kind == 'xc':
        return C(c), c, {c: f}
    if kind == 'xv':
        return X(v), v, {v: val}
    if kind == 'xn':
        return Not(v), v, {v: plain('P%d' % i, not t)}
    if kind == 'same':      # the first chain name again
        return N('c1'), 'c1', {}
    raise ValueError(kind)


ATOMS = [('nt', True), ('nt', False), ('nf', True), ('nf', False), ('np', True), ('np', False), ('u', False), ('uq', False), ('nq', True), ('xc', True),
         ('xc', False), ('xv', True), ('xv', False), ('xn', True), ('xn', False)]


def body(shape, i, name, defined):
    m = T('B%d' % i)
    ref = [V(name)] if defined else []
    if shape == 0:
        return [m]
    if shape == 1:
        return [m] + ref
    if shape == 2:
        return []
    if shape == 5:      # an enclosed with ... only (a namespace of its own for its body), then the condition's name again
        return [m, With(N('oo'), [T('w'), V('w')], only=True)] + ref + [With(N('oo'), ref, only=False)]
    if shape == 3:
        return [m, Let([('q', X('zz'))], ref + [With(N('oo'), ref)])]
    if shape == 4:
        return [In(N('ss'), [m] + ref)]
    raise ValueError(shape)


def chain_case(atoms, else_shape, shape, computed=False):
    ns = {'zz': plain('ZZ'), 'oo': obj('oo', w=plain('W')), 'ss': lst('ss', [plain('s1'), plain('s2')]),
          'c1': fn('F1', plain('R1', atoms[0][1] if atoms[0][0] in ('nf', 'xc') else True))}
    cs = []
    names = []
    for i, (k, t) in enumerate(atoms, 1):
        if k == 'same' and i == 1:
            k = 'nf'
        c, name, add = atom(k, i, t)
        ns.update(add)
        defined = not name.startswith('undef')
        names.append((name, defined))
        cs.append((c, body(shape, i, name, defined)))
    e = None
    if else_shape == 1:
        e = []
    elif else_shape == 2:
        # the else body may re-reference every chain name (all of them were evaluated and were false)
        e = [T('E')] + [V(n) for n, d in names if d]
    node = If(cs, e)
    if e is not None and (len(atoms) + else_shape + shape) % 2:
        node['named_else'] = True
    prog = [T('<'), node, T('>')] + [V(n) for n, d in names[:1] if d]
    if computed:
        # the same chain with every name served by a mapping that computes its values on access: each condition reads it once
        return dict(prog=[With(X('cm'), prog, mapping=True)], src=sources(kw={'cm': cmap('CM', **ns)}), K=0, fk=[])
    return dict(prog=prog, src=sources(kw=ns), K=0, fk=[])


def cases_for(tier, rng):
    out = []
    maxlen = 3 if tier == 'quick' else 4
    pool = ATOMS + [('same', True), ('same', False)]
    for n in range(1, maxlen + 1):
        combos = itertools.product(pool, repeat=n)
        if n >= 4:
            combos = list(combos)
            rng.shuffle(combos)
            combos = combos[:6000]
        for atoms in combos:
            shapes = range(6) if n <= 2 else (0, 1, 2, 3 + (len(str(atoms)) % 3))
            for shape in shapes:
                for es in (0, 1, 2):
                    if n == 3 and tier == 'quick' and (es + shape + len(str(atoms))) % 3:
                        continue
                    out.append(chain_case(list(atoms), es, shape))
                    if n <= 2 and shape in (0, 1):
                        out.append(chain_case(list(atoms), es, shape, computed=True))
    if tier == 'thorough':
        for _ in range(4000):
            atoms = [rng.choice(pool) for _ in range(5)]
            out.append(chain_case(atoms, rng.randrange(3), rng.randrange(5)))
    # unless / call
    for k, t in ATOMS:
        c, name, add = atom(k, 1, t)
        ns = {'zz': plain('ZZ'), 'oo': obj('oo', w=plain('W')), 'ss': lst('ss', [plain('s1')])}
        ns.update(add)
        defined = not name.startswith('undef')
        for shape in range(6):
            out.append(dict(prog=[T('<'), Unless(c, body(shape, 1, name, defined)), T('>')],
                            src=sources(kw=ns), K=0, fk=[]))
        out.append(dict(prog=[T('<'), Call(c), T('|'), Call(c), T('>')], src=sources(kw=ns), K=0, fk=[]))
        out.append(dict(prog=[With(X('cm'), [T('<'), Call(c), T('|'), Unless(c, body(1, 1, name, defined)), T('>')], mapping=True)],
                        src=sources(kw={'cm': cmap('CM', **ns)}), K=0, fk=[]))
        # if and unless over the same condition are complementary
        out.append(dict(prog=[If([(c, [T('I')])]), Unless(c, [T('U')])], src=sources(kw=ns), K=0, fk=[]))
    # a client object that acquires attributes while the template is rendered (a method called by dtml-call computes and stores
    # them): a name that was undefined -- and counted as false -- earlier in the same rendering is defined from then on
    def job():
        return obj('JOB', other=plain('o'),
                   start=fn('START', plain('ignored'), sets=('result', plain('done'))),
                   arm=fn('ARM', plain('ignored'), sets=('finish', fn('FINISH', plain('fin-result')))))
    probes = [[], [If([(N('result'), [T('has')])], [T('none')]), T('|')], [Unless(N('result'), [T('u0')]), T('|')],
              [Call(N('result')), Call(N('finish')), T('|')], [If([(N('other'), [T('o')]), (N('result'), [T('r')])]), T('|')]]
    after = [If([(N('result'), [T('has:'), V('result')])], [T('none')]), T('|'), Unless(N('result'), [T('unless')]), T('|'),
             If([(N('nothing'), [T('x')]), (N('result'), [T('elif')])], [T('else')]), T('|'),
             If([(N('finish'), [T('f:'), V('finish')])], [T('nof')]), T('|'), Call(N('finish')), T('|'), Call(N('finish'))]
    for pb in probes:
        for setters in ([Call(N('start'))], [Call(N('start')), Call(N('arm'))], [Call(N('arm')), T('-'), Call(N('start'))],
                        [If([(N('start'), [T('s')])])], [Unless(N('arm'), [T('a')]), Call(N('start'))]):
            inner = pb + setters + [T('|')] + after
            out.append(dict(prog=[T('<')] + inner + [T('>')], src=sources(clients=[job()], kw={'zz': plain('ZZ')}), K=0, fk=[]))
            out.append(dict(prog=[T('<')] + inner + [T('>')], src=sources(clients=[obj('C0', w=plain('W')), job()], kw={'zz': plain('ZZ')}),
                            K=0, fk=[], client_tuple=True))
            out.append(dict(prog=[T('<'), With(N('job'), inner), T('>')], src=sources(kw={'job': job()}), K=0, fk=[]))
            out.append(dict(prog=[T('<'), In(N('jobs'), inner), T('>')], src=sources(kw={'jobs': lst('JL', [job()])}), K=0, fk=[]))
    return out


def main(tier):
    rng = random.Random(common.seed())
    cases = cases_for(tier, rng)
    return render_common.run(
        PID, tier, cases, ['result', 'calls'],
        assumptions=['conditions are names or the expression forms n(), n, not n over plain values and '
                     'logging callables; truth assignments are realised by the values'],
        rule='all chains of condition atoms (11 atoms + reuse of the first name) up to the tier length x '
             'else shape (none/empty/non-empty) x body shape (marker, re-reference, empty, nested '
             'let/with, nested in); unless and call over every atom')


replay = render_common.replay
