"""C03 -- html_quote / &dtml-name; output is exactly the HTML-escaped value.

Machine: spec/DTVar.tla (Esc, the fast path of render_blocks_ for the simple forms, the html_quote
modifier and fmt=html-quote in the full pipeline).  Invariants NoRawSpecial (every quoting form gives
exactly Esc(value), no value-origin & < > " ' survives), PlainUntouched.
"""
import itertools
import random

from harness import common
from checks import var_common as vc
from checks.var_common import text, sweep, strobj

PID = 'C03'
ALPHA = ['&', '<', '>', '"', "'", 'a', '\xe9', '\U0001F600', '\n']
# characters that line-oriented or white-space-oriented code treats specially, placed before / between / after the specials
SEPS = ['\n', '\r', '\r\n', '\x0b', '\x0c', '\x85', '\u2028', '\u2029', '\x00', '\t', ' ', '\x1c', '\xa0', 'a\n', '\n\n', '\ufeff', '\\']


def strings(maxlen, rng, cap):
    out = []
    for n in range(0, maxlen + 1):
        ss = [''.join(t) for t in itertools.product(ALPHA, repeat=n)]
        if len(ss) > cap:
            ss = rng.sample(ss, cap)
        out += ss
    return out


def sweeps(tier, rng):
    ss = strings(3 if tier == 'quick' else 4, rng, 400 if tier == 'quick' else 3000)
    vals = [text(s) for s in ss]
    # the four insertion forms (+ options that do not alter the text)
    out = [
        sweep(vals, [['html_quote']], forms=('entity', 'name', 'expr')),
        sweep(vals, [[]], fmts=('html-quote',), forms=('name', 'expr')),
        sweep(vals, [['html_quote']], sizes=(40,), nulls=(False, True), forms=('name',)),
        sweep(vals, [[]], forms=('name', 'expr')),                      # plain insertion: untouched
        # html_quote together with a format that keeps the text
        sweep(vals[::2], [['html_quote']], fmts=('pct', 'strip', 'url-unquote'), forms=('name',)),
    ]
    # a special character after / before / between separators (multi-line text, control characters)
    st = []
    for sep in SEPS:
        for sp in ('&', '<', '>', '"', "'", '<&'):
            st += [sep + sp, sp + sep, 'x' + sep + sp + sep + 'y', sep + sep + sp, 'line one' + sep + sp + 'b' + sp]
    out.append(sweep([text(x) for x in st], [['html_quote']], forms=('entity', 'name', 'expr')))
    out.append(sweep([text(x) for x in st[::2]], [[]], fmts=('html-quote', ''), forms=('name',)))
    out.append(sweep([text(x, enc='utf-8') for x in st[::3]], [['html_quote']], forms=('entity', 'name')))
    # bytes values in the template's encoding
    bvals = [text(s, enc='utf-8') for s in ss if s][::3] + \
            [text(s, enc='latin-1') for s in ss if s and '\U0001F600' not in s][::3]
    out.append(sweep(bvals, [['html_quote']], forms=('entity', 'name')))
    # every single code point (sampled in the quick tier), surrogates excluded
    cps = list(range(0, 0x800 if tier == 'quick' else 0x3000))
    pool = [c for c in range(0x800, 0x110000) if not 0xD800 <= c <= 0xDFFF]
    cps += rng.sample(pool, 3000 if tier == 'quick' else 60000)
    cvals = [text(chr(c)) for c in cps if not 0xD800 <= c <= 0xDFFF]
    for lo in range(0, len(cvals), 9000):        # one TLC run per 9000 values: a set literal of 10^5 records takes SANY an hour
        out.append(sweep(cvals[lo:lo + 9000], [['html_quote']], forms=('entity',)))
    out.append(sweep(cvals[::7], [[]], fmts=('', 'html-quote'), forms=('name',)))
    # html_quote together with size=: sizes between the length of the value and the length of its escaped text (and around them)
    sv = [text(x_) for x_ in ('a<b>c', 'Fish & Chips <new>', '"q"', "it's", '<<>>&&', 'x > y & z', 'plain text')]
    out.append(sweep(sv, [['html_quote']], sizes=(3, 4, 5, 6, 8, 11, 12, 18, 20, 27, 28, 40), etcs=('default', 'tilde'), forms=('name', 'expr')))
    # the entity with an empty modifier list, &dtml.-x;, is the plain insertion
    out.append(sweep(cvals[::11] + [text(x_) for x_ in ('a<b', '&amp;', "it's \"q\" > &")], [[]], forms=('entity', 'name')))
    # values that are not strings: inserted as their str() form, which is escaped like any text
    ov = [strobj(x) for x in ('R&D', "<0.05 'p'", 'a"b', 'x>y & z', 'plain', "it's", '<<>>', 'A&B<C>"D\'E')]
    out.append(sweep(ov, [['html_quote'], []], fmts=('', 'html-quote'), forms=('entity', 'name', 'expr')))
    out.append(sweep(ov, [['html_quote']], sizes=(40,), nulls=(False, True), forms=('name',)))
    # random longer strings dense in specials
    rs = [''.join(rng.choice(ALPHA + ['b', ' ', ';', '#']) for _ in range(rng.randint(5, 40)))
          for _ in range(300 if tier == 'quick' else 5000)]
    out.append(sweep([text(s) for s in rs], [['html_quote']], forms=('entity', 'name')))
    return out


def classify(b, r):
    # every behaviour of these sweeps is one of the insertion forms of the property
    return {'clause': 'escaped-value' if (b['mods'] or b['fmt']) else 'plain-untouched'}


def post(V):
    """the forms must agree also after an earlier tainted insertion in the same template"""
    from AccessControl.tainted import TaintedString
    from DocumentTemplate.DT_HTML import HTML
    import html
    for tail in ('&dtml-x;', '<dtml-var x html_quote>', '<dtml-var expr="x" html_quote>', '<dtml-var x fmt=html-quote>'):
        for x in ('a&b<c>"d\'', '<', "it's"):
            for src in ('<dtml-var p>' + tail, '<dtml-if p><dtml-var p></dtml-if>' + tail,
                        '<dtml-in s><dtml-var p>' + tail + '</dtml-in>'):
                got = HTML(src)(p=TaintedString('T<'), x=x, s=[1])
                exp = 'T&lt;' + html.escape(x, True)
                V.count('renderings')
                if got != exp:
                    V.violation({'kind': 'departure', 'clause': 'escaped-value-after-tainted', 'source': src,
                                 'value': x, 'expected': exp, 'got': got})


def post_blocks(V):
    """the same value gives the same escaped text whichever form is used -- also for byte strings in a template with another
    encoding than the default, also deep inside block tags (where the tags are built by the section's own parse)"""
    from DocumentTemplate.DT_HTML import HTML
    import html

    class O:
        pass
    forms = ('&dtml-x;', '<dtml-var x html_quote>', '<dtml-var expr="x" html_quote>', '<dtml-var x fmt=html-quote>',
             '<dtml-var x html_quote missing="">', '<dtml-var x html_quote null="" size=99>', '<dtml-var x fmt=html-quote null="">')
    wraps = ('%s', '<dtml-if y>%s</dtml-if>', '<dtml-in s>%s</dtml-in>', '<dtml-with o><dtml-let q=y>%s</dtml-let></dtml-with>',
             '<dtml-if y><dtml-in s><dtml-try>%s<dtml-except>E</dtml-try></dtml-in></dtml-if>', '<dtml-in s size=1>[%s]</dtml-in>',
             '<dtml-unless n><dtml-if n>no<dtml-else>%s</dtml-if></dtml-unless>')
    text = 'caf\xe9 <b> "x" & \'y\' \xfc'
    for enc in ('latin-1', 'cp1252', 'utf-8', None):
        for w in wraps:
            for f in forms:
                for val in (text, text.encode(enc or 'utf-8')):
                    src = w % f
                    V.count('renderings')
                    try:
                        t = HTML(src, encoding=enc) if enc else HTML(src)
                        got = t(x=val, y=1, n=0, s=[1], o=O())
                        if isinstance(got, bytes):
                            got = got.decode(enc or 'utf-8')
                    except Exception as e:  # noqa
                        got = 'RAISED %s' % type(e).__name__
                    esc = html.escape(text, True)
                    if esc not in got or got.count('&lt;b&gt;') != 1:
                        V.violation({'kind': 'departure', 'clause': 'escaped-value-in-block', 'source': src, 'encoding': enc,
                                     'value': repr(val), 'expected_to_contain': esc, 'got': got[:200]})


def post_spellings(V):
    """a quoting option written in another letter case, with a value, or next to other options is either not accepted by the
    compiler (nothing is rendered) or it quotes: a template that compiles with such a spelling never emits the value raw"""
    from DocumentTemplate.DT_HTML import HTML
    from DocumentTemplate.DT_String import String
    import html
    spell = ['html_quote', 'HTML_QUOTE', 'Html_Quote', 'html_Quote', 'html_quote=1', 'HTML_QUOTE=1', 'html_quote="yes"',
             'fmt=html-quote', 'FMT=html-quote', 'fmt="html-quote"', 'fmt=HTML-QUOTE', 'Fmt=Html-Quote']
    others = ['', ' upper', ' size=99', ' null="-"', ' newline_to_br', ' missing=""', ' UPPER', ' Size=99']
    vals = ['<script>alert("x")</script>', "a&b 'c'", 'x > y']
    for sp in spell:
        for oth in others:
            for pos in (0, 1):
                a = (sp + oth) if pos == 0 else (oth.strip() + ' ' + sp).strip()
                for cls, src in ((HTML, '<dtml-var x %s>' % a), (HTML, '<!--#var x %s-->' % a), (String, '%%(x %s)s' % a),
                                 (HTML, '<dtml-var expr="x" %s>' % a), (HTML, '<dtml-in s><dtml-var x %s></dtml-in>' % a)):
                    try:
                        t = cls(src)
                        t.cook()
                    except Exception:  # noqa  not accepted: nothing to render
                        V.count('spellings_rejected')
                        continue
                    for v in vals:
                        V.count('renderings')
                        try:
                            got = t(x=v, s=[1])
                        except Exception:  # noqa
                            continue
                        low = got.lower()
                        if any(ch in low.replace('<br />', '').replace('<br>', '') for ch in '<>"\'') or \
                                html.unescape(low.replace('<br />', '')).replace('\n', '') != v.lower():
                            V.violation({'kind': 'departure', 'clause': 'escaped-value-option-spelling', 'source': src, 'value': v,
                                         'expected': html.escape(v, True), 'got': got[:200]})


def main(tier):
    rng = random.Random(common.seed())
    def posts(V):
        post(V)
        post_blocks(V)
        post_spellings(V)
    return vc.run(PID, tier, sweeps(tier, rng), classify, post=posts, invs=['NoRawSpecial', 'PlainUntouched'],
                  assumptions=['html.escape(s, quote=True) is the reference escaping (the machine\'s Esc transcribes its five '
                               'replacements); Python codecs are trusted for the bytes variants'],
                  rule='all strings up to length 3 (4 thorough, sampled) over {& < > " \' a e-acute emoji} x {entity, '
                       'html_quote alone (name / expression), fmt=html-quote, html_quote with size/null, plain}; bytes in '
                       'utf-8 / latin-1; single code points (all below U+0800 resp. U+3000 and a random sample of 3000 resp. 60000 of the rest); '
                       'random longer strings; specials next to line / control separators; the forms after a tainted insertion in the same block list')


replay = vc.replay_file
