"""C07 -- the three surface syntaxes of a template compile and render identically.

Machine: spec/DTParse.tla (+ DTScan.tla).  One case = one abstract template printed in several
spellings (<dtml-..>, <!--#..--> with /tag and endtag closers, %(..)[ .. %(..)], &dtml-..; entities;
varied white space, quoting, attribute-name case, optional end-tag arguments).  The machine compiles
every spelling with the recogniser of its syntax; invariant SameProgram: all spellings yield one normal
form.  Binding: each spelling is compiled by the real class, its normalised _v_blocks must be the
machine's program (hence pairwise equal), and the spellings are rendered under three namespaces with
logging callables: text / exception and the ordered call log must agree pairwise.
"""
import json
import random

from checks import front_common
from harness import common, front

PID = 'C07'

NAMES = ['x', 'y', 'z', 'p', 'q', 'xy', 'pq', 'a-b', 'a-b-c', 'n_1.v', 'if', 'in', 'end', 'call']     # hyphens and dots are legal in names of all syntaxes
OLDELSE = ['x', 'p', 'xy', 'pq', 'y']
EXPRS = ['p', 'p+1', 'q', 'not p', 'o.a', 'p > 3', 'f()', 'y()', 'x', "q+q", 'nope',
         # a closing parenthesis inside the quoted expression, followed by what could be a format or block suffix
         '_.str(p).zfill(4)', '_.str(p)[0]', '(p)or(q)', '_.len(q)+(p)*2', '(q)[:1]']
SAFE_TEXT = ['a', ' b ', 'line\n', '\n', ' \n', 'Hello, world.', 'x=1;', 't(1)', '', '', ' ', '[k]', '\ttab', 'é!']
# literal text that looks like the beginning of a tag in one of the syntaxes but is a tag in none of them
NEAR_TEXT = ['&dtml-lang=', ' &dtml.x ', 'a&b', '&dt', '<b>', '</b>', '<!-- c -->', '<d', '5% x', '&amp;', '&dtml', '<dtml', '&dtml-',
             '?p=2&dtml-q=', '&dtml.', '( %) ', '<!--x', '-->']


def text_atom(rng):
    return rng.choice(NEAR_TEXT) if rng.random() < 0.22 else rng.choice(SAFE_TEXT)


VAR_OPTS = [('lower', None), ('upper', None), ('html_quote', None), ('capitalize', None), ('size', '3'), ('etc', '..'),
            ('fmt', 'upper'), ('null', 'nil'), ('missing', 'gone'), ('url_quote', None), ('newline_to_br', None),
            ('thousands_commas', None), ('spacify', None), ('sql_quote', None),
            # values that end in the character which closes or self-closes a tag in some syntax
            ('null', '/'), ('missing', 'n/a/'), ('etc', '../'), ('fmt', '%s/'), ('null', 'a-'), ('missing', 'x!')]
IN_OPTS = [('mapping', None), ('size', '2'), ('start', '1'), ('orphan', '0'), ('overlap', '0'), ('sort', 'k'), ('reverse', None),
           ('prefix', 'it'), ('no_push_item', None), ('sort_expr', 'q'), ('skip_unauthorized', None), ('end', '2')]
ENT_MODS = ['lower', 'upper', 'html_quote', 'url_quote', 'capitalize', 'sql_quote']


def rref(rng, exprs=True):
    if exprs and rng.random() < 0.35:
        return ('e', rng.choice(EXPRS))
    return ('n', rng.choice(NAMES))


def gen_body(rng, depth, forbid=None):
    n = rng.choice((1, 1, 2))
    out = []
    for _ in range(n):
        out.append(('text', text_atom(rng)))
        if depth >= 0 and rng.random() < 0.12:
            # the deprecated stand-alone <dtml-else name> block (= unless); directly inside an if / in it must not
            # repeat that block's own name, or it would be a continuation tag
            names = [n_ for n_ in OLDELSE if n_ != forbid]
            out.append(('oldelse', ('n', rng.choice(names)), gen_body(rng, max(depth - 1, -1))))
            continue
        out.append(gen_node(rng, depth))
    out.append(('text', text_atom(rng)))
    return out


def gen_node(rng, depth):
    kinds = ['var', 'var', 'ent', 'call']
    if depth > 0:
        kinds += ['if', 'if', 'unless', 'in', 'in', 'with', 'let', 'try', 'tryf', 'raise', 'comment', 'return']
    k = rng.choice(kinds)
    d = depth - 1
    if k == 'var':
        opts = rng.sample(VAR_OPTS, rng.choice((0, 0, 1, 2, 3)))
        if rng.random() < 0.08:
            # a variable called "var" can only be written without options: Var.__init__ drops a leading "var " from the
            # argument text in every syntax, so '<dtml-var var lower>' inserts the variable "lower" (printer legality)
            return ('var', ('n', 'var'), [])
        if any(o[0] == 'etc' for o in opts) and not any(o[0] == 'size' for o in opts):
            opts.append(('size', '2'))
        return ('var', rref(rng), opts)
    if k == 'ent':
        return ('ent', rng.choice(NAMES), rng.sample(ENT_MODS, rng.choice((0, 0, 1, 2))))
    if k == 'call':
        return ('call', rref(rng))
    if k == 'return':
        return ('return', rref(rng))
    if k == 'if':
        first = rref(rng)
        fb = first[1] if first[0] == 'n' else None
        conds = [(first if i == 0 else rref(rng), gen_body(rng, d, fb)) for i in range(rng.randint(1, 3))]
        return ('if', conds, gen_body(rng, d, fb) if rng.random() < 0.5 else None)
    if k == 'unless':
        return ('unless', rref(rng), gen_body(rng, d))
    if k == 'in':
        ref = rng.choice([('n', 's'), ('n', 'm'), ('n', 'e0'), ('e', 's'), ('n', 's')])
        opts = rng.sample(IN_OPTS, rng.choice((0, 0, 1, 2)))
        names = {o[0] for o in opts}
        if names & {'orphan', 'overlap'} and not names & {'size', 'start', 'end'}:
            opts.append(('size', '2'))
        if ref[1] == 'm' and 'mapping' not in names:
            opts.append(('mapping', None))
        fb = ref[1] if ref[0] == 'n' else None
        return ('in', ref, opts, gen_body(rng, d, fb), gen_body(rng, d, fb) if rng.random() < 0.4 else None)
    if k == 'with':
        ref = rng.choice([('n', 'o'), ('e', 'o'), ('n', 'd')])
        opts = [('mapping', None)] if ref[1] == 'd' else []
        if rng.random() < 0.3:
            opts.append(('only', None))
        return ('with', ref, opts, gen_body(rng, d))
    if k == 'let':
        return ('let', [(rng.choice(['a', 'b', 'x']), rref(rng)) for _ in range(rng.randint(1, 3))], gen_body(rng, d))
    if k == 'try':
        hs = [(rng.choice(['KeyError', 'NameError ValueError', '', 'LookupError', 'TypeError AttributeError']), gen_body(rng, d))
              for _ in range(rng.randint(0, 2))]
        seen_default = False
        hs2 = []
        for n, b in hs:
            if n == '':
                if seen_default:
                    continue
                seen_default = True
            hs2.append((n, b))
        return ('try', gen_body(rng, d), hs2, gen_body(rng, d) if rng.random() < 0.4 else None)
    if k == 'tryf':
        return ('tryf', gen_body(rng, d), gen_body(rng, d))
    if k == 'raise':
        return ('raise', rng.choice([('n', 'KeyError'), ('n', 'ValueError'), ('e', 'q'), ('n', 'Oops')]), gen_body(rng, 0))
    return ('comment', gen_body(rng, 0))


class Style:
    def __init__(self, syn, rng=None, plain=False):
        self.syn = syn                      # dtml | ssi | epfs
        r = rng
        self.sep = ' ' if plain else r.choice([' ', ' ', '  ', '\t', '\n', ' \n '])
        self.quote = False if plain else r.random() < 0.5
        self.upper = False if plain else r.random() < 0.3
        self.endargs = False if plain else r.random() < 0.4
        self.ssiend = False if plain else r.random() < 0.5
        self.shorthand = False if plain else r.random() < 0.5
        self.explicit_var = False if plain else r.random() < 0.5
        self.entities = (syn != 'epfs') and (plain or r.random() < 0.7)
        self.trail = '' if plain else r.choice(['', '', ' ', '\n'])


def p_ref(ref, st, attr='name'):
    kind, v = ref
    if kind == 'n':
        if st.quote and st.upper:
            return '%s="%s"' % (attr.upper(), v)
        if st.quote:
            return '%s="%s"' % (attr, v)
        return v
    if st.shorthand and st.syn != 'epfs':
        return '"%s"' % v
    return '%s="%s"' % ('EXPR' if st.upper else 'expr', v)


def p_opts(opts, st):
    out = []
    for k, v in opts:
        if v is None:
            out.append(k)
        elif st.quote or not v or any(c in v for c in ' ="') or k in ('sort_expr',):
            out.append('%s="%s"' % (k.upper() if st.upper else k, v))
        else:
            out.append('%s=%s' % (k.upper() if st.upper else k, v))
    return out


def tag(st, name, parts, kind):
    """kind: open | cont | close | single"""
    args = st.sep.join(p for p in parts if p)
    a = (st.sep + args + st.trail) if args else ''
    if st.syn == 'epfs':
        if kind == 'close':
            return '%%(%s%s)]' % (name, a)
        if kind == 'single':
            return '%%(%s%s)!' % (name, a)
        return '%%(%s%s)[' % (name, a)
    if st.syn == 'dtml':
        return ('</dtml-%s%s>' % (name, a)) if kind == 'close' else '<dtml-%s%s>' % (name, a)
    if kind == 'close':
        return ('<!--#end%s%s-->' if st.ssiend else '<!--#/%s%s-->') % (name, a)
    return '<!--#%s%s-->' % (name, a)


def p_nodes(nodes, st):
    return ''.join(p_node(n, st) for n in nodes)


def p_node(n, st):
    k = n[0]
    if k == 'text':
        return n[1]
    if k == 'var':
        _, ref, opts = n
        if ref == ('n', 'var'):
            # a variable called "var": Var.__init__ drops a leading "var " from the arguments in every syntax, so the only
            # spellings that denote the same program are the unquoted short ones
            parts = ['var'] + p_opts(opts, st)
            if st.syn == 'epfs':
                return '%%(%s)s' % st.sep.join(parts)
            return tag(st, 'var', parts, 'single')
        parts = [p_ref(ref, st)] + p_opts(opts, st)
        if st.syn == 'epfs':
            a = st.sep.join(parts)
            if ref[0] == 'e' or st.explicit_var or st.quote:
                return '%%(var %s)s' % a
            return '%%(%s)s' % a
        return tag(st, 'var', parts, 'single')
    if k == 'ent':
        _, name, mods = n
        if st.entities:
            if not mods:
                return '&dtml-%s;' % name
            return '&dtml.%s-%s;' % ('.'.join(mods), name)
        eff = mods if mods else ['html_quote']
        st2 = st
        if st.syn == 'epfs':
            return '%%(%s %s)s' % (name, ' '.join(eff))
        return tag(st2, 'var', [name] + eff, 'single')
    if k in ('call', 'return'):
        return tag(st, k, [p_ref(n[1], st)], 'single')
    if k == 'if':
        _, conds, els = n
        out = []
        for i, (ref, body) in enumerate(conds):
            out.append(tag(st, 'if' if i == 0 else 'elif', [p_ref(ref, st)], 'open' if i == 0 else 'cont'))
            out.append(p_nodes(body, st))
        if els is not None:
            out.append(tag(st, 'else', [], 'cont'))
            out.append(p_nodes(els, st))
        out.append(tag(st, 'if', [p_ref(conds[0][0], st)] if st.endargs else [], 'close'))
        return ''.join(out)
    if k == 'unless':
        return tag(st, 'unless', [p_ref(n[1], st)], 'open') + p_nodes(n[2], st) + tag(st, 'unless', [], 'close')
    if k == 'oldelse':
        return tag(st, 'else', [n[1][1]], 'open') + p_nodes(n[2], st) + tag(st, 'else', [], 'close')
    if k == 'in':
        _, ref, opts, body, els = n
        out = [tag(st, 'in', [p_ref(ref, st)] + p_opts(opts, st), 'open'), p_nodes(body, st)]
        if els is not None:
            out += [tag(st, 'else', [], 'cont'), p_nodes(els, st)]
        out.append(tag(st, 'in', [ref[1]] if st.endargs and ref[0] == 'n' else [], 'close'))
        return ''.join(out)
    if k == 'with':
        _, ref, opts, body = n
        return tag(st, 'with', [p_ref(ref, st)] + p_opts(opts, st), 'open') + p_nodes(body, st) + tag(st, 'with', [], 'close')
    if k == 'let':
        _, binds, body = n
        parts = []
        for name, ref in binds:
            parts.append('%s=%s' % (name, ref[1]) if ref[0] == 'n' else '%s="%s"' % (name, ref[1]))
        return tag(st, 'let', parts, 'open') + p_nodes(body, st) + tag(st, 'let', [], 'close')
    if k == 'try':
        _, body, hs, els = n
        out = [tag(st, 'try', [], 'open'), p_nodes(body, st)]
        for names, b in hs:
            out += [tag(st, 'except', [names], 'cont'), p_nodes(b, st)]
        if els is not None:
            out += [tag(st, 'else', [], 'cont'), p_nodes(els, st)]
        out.append(tag(st, 'try', [], 'close'))
        return ''.join(out)
    if k == 'tryf':
        return tag(st, 'try', [], 'open') + p_nodes(n[1], st) + tag(st, 'finally', [], 'cont') + p_nodes(n[2], st) + \
            tag(st, 'try', [], 'close')
    if k == 'raise':
        return tag(st, 'raise', [p_ref(n[1], st, 'type')], 'open') + p_nodes(n[2], st) + tag(st, 'raise', [], 'close')
    if k == 'comment':
        return tag(st, 'comment', [], 'open') + p_nodes(n[1], st) + tag(st, 'comment', [], 'close')
    raise ValueError(k)


def spellings(ast, rng):
    out = []
    for syn in ('dtml', 'ssi', 'epfs'):
        out.append((syn, p_nodes(ast, Style(syn, plain=True))))
    for syn in ('dtml', 'ssi', 'epfs', rng.choice(('dtml', 'ssi', 'epfs'))):
        out.append((syn, p_nodes(ast, Style(syn, rng))))
    seen, uniq = set(), []
    for syn, s in out:
        key = ('epfs' if syn == 'epfs' else 'html', s)
        if key not in seen:
            seen.add(key)
            uniq.append(key)
    return uniq


# ---------------------------------------------------------------------------------------------
# rendering with logging callables

class Obj:
    def __init__(self, **kw):
        self.__dict__.update(kw)


def namespaces():
    log = []

    class Log:
        def __init__(self, name, val):
            self.name, self.val = name, val

        def __repr__(self):
            return '<Log %s>' % self.name

        def __call__(self):
            log.append(self.name)
            if isinstance(self.val, Exception):
                raise self.val
            return self.val

    def mk(i):
        return [
            {'x': Log('x', 'X<&'), 'y': Log('y', 0), 'z': Log('z', 'zed one two'), 'p': 5, 'q': 'quoted "text"\nline',
             's': [Obj(k=2, t='b'), Obj(k=1, t='a'), Obj(k=3, t='c')], 'm': [{'k': 1, 't': 'u'}], 'e0': [], 'o': Obj(a='A', k=9),
             'd': {'a': 'DA', 'x': 'DX'}, 'f': Log('f', 'F'), 'xy': 'XY', 'pq': Log('pq', 'PQ<>'), 'a-b': 'a b&c', 'a-b-c': Log('abc', 'ABC'),
             'n_1.v': 'n 1', 'var': 'v<var>&', 'if': 'IF', 'in': [1], 'end': 'END', 'call': Log('call', 'C'), 'lower': 'LOW', 'upper': 'UP',
             'html_quote': 'HQ'},
            {'x': Log('x', ''), 'y': Log('y', 1), 'z': Log('z', None), 'p': 0, 'q': '',
             's': [], 'm': [], 'e0': [], 'o': Obj(a=''), 'd': {}, 'f': Log('f', 0), 'xy': '', 'a-b': 0, 'a-b-c': Log('abc', ''), 'n_1.v': None, 'var': '', 'if': 0, 'in': [], 'end': None, 'call': Log('call', 0)},
            {'x': Log('x', KeyError('kx')), 'y': Log('y', [1]), 'z': Log('z', 12345678), 'p': 12345, 'q': 'A b',
             's': [Obj(k=1, t='a')], 'm': [{'k': 2, 't': 'v'}, {'k': 1, 't': 'w'}], 'e0': [], 'o': Obj(a=1), 'd': {'a': 1},
             'f': Log('f', ValueError('vf')), 'xy': 'x y', 'pq': 1, 'a-b': 'A-B', 'a-b-c': Log('abc', KeyError('abc')), 'n_1.v': 'N', 'var': 5, 'if': 'x', 'in': 'str', 'end': 1.5, 'call': Log('call', ValueError('c'))},
        ][i]
    return log, mk


def render_all(spell, way=0):
    """-> per spelling: list over 3 namespaces of (outcome, call log) (+ the program for the entry paths other than the
    constructor).  way: how the template object comes to hold the source -- 0 constructor, 1 munge, 2 manage_edit, 3 / 4 the same
    with the line ends a browser's text area submits (CR LF): every spelling is treated alike"""
    out = []
    for syn, src in spell:
        cls = front.template_class(syn)
        per = []
        if way >= 3:
            src = src.replace('\r\n', '\n').replace('\n', '\r\n')
        try:
            if way in (0, 3):
                t = cls(src)
            elif way == 1:
                t = cls('old text')
                t.munge(src)
            else:
                t = cls('old text')
                t.manage_edit(src)
            t.cook()
            if way:
                per.append(('prog', json.dumps(front.normalise(t._v_blocks), sort_keys=True, default=repr)))
        except Exception as e:  # noqa
            out.append([('COMPILE', type(e).__name__)])
            continue
        for i in range(3):
            log, mk = namespaces()
            ns = mk(i)
            try:
                r = t(**ns)
                res = ('ok', r if isinstance(r, (str, int, float, type(None))) else repr(type(r)))
            except BaseException as e:  # noqa
                res = ('raised', type(e).__name__, str(e)[:80])
            per.append((res, list(log)))
        out.append(per)
    return out


_C = None


def _one(i):
    c = _C[i]
    outs = c['_m']
    bad = []
    if outs is None:
        return {'i': i, 'bad': [('no-model-result', {})]}
    progs = []
    for (syn, src), m in zip(c['spellings'], outs):
        real, _ = front.real_compile(syn, src)
        b = front.compare(m, real, src)
        progs.append(real.get('prog'))
        for clause, d in b:
            bad.append((clause, {'syn': syn, 'source': src, 'detail': d}))
    # pairwise equality of the real programs (what the property states), independent of the model
    for j in range(1, len(progs)):
        if progs[j] != progs[0]:
            bad.append(('programs-differ', {'a': c['spellings'][0], 'b': c['spellings'][j]}))
            break
    rs = render_all(c['spellings'], way=i % 5 if not c.get('malformed') else (i % 3))
    for j in range(1, len(rs)):
        if rs[j] != rs[0]:
            ns = next((n for n in range(min(len(rs[j]), len(rs[0]))) if rs[j][n] != rs[0][n]), 0)
            bad.append(('renders-differ', {'a': c['spellings'][0], 'b': c['spellings'][j], 'namespace': ns,
                                          'got_a': rs[0][ns] if ns < len(rs[0]) else None,
                                          'got_b': rs[j][ns] if ns < len(rs[j]) else None}))
            break
    return {'i': i, 'bad': bad, 'n': len(c['spellings']), 'renders': sum(len(r) for r in rs)}


def malformed_cases():
    """templates that violate the block grammar, in the four spellings: every spelling must be rejected (C07: 'raises the
    same errors')"""
    def sp(style, name, args='', kind='open'):
        a = (' ' + args) if args else ''
        if style == 3:
            return '%%(%s%s)%s' % (name, a, ']' if kind == 'close' else '[')
        if style == 0:
            return ('</dtml-%s>' % name) if kind == 'close' else '<dtml-%s%s>' % (name, a)
        if kind == 'close':
            return ('<!--#/%s-->' if style == 1 else '<!--#end%s-->') % name
        return '<!--#%s%s-->' % (name, a)
    blocks = {'if': ('x', ['else', 'elif y']), 'in': ('s', ['else']), 'try': ('', ['except', 'else', 'finally']),
              'unless': ('x', []), 'with': ('o', []), 'let': ('q=p', [])}
    shapes = []
    for b, (arg, conts) in blocks.items():
        allc = ['else', 'elif y', 'except', 'finally']
        for c in allc:
            cn, _, ca = c.partition(' ')
            # the end form of a continuation tag inside a block (its own or another one's), and after a proper continuation
            shapes.append([(b, arg, 'open'), 'A', (cn, '', 'close'), 'B', (b, '', 'close')])
            if c in conts:
                shapes.append([(b, arg, 'open'), 'A', (cn, ca, 'open'), 'B', (cn, '', 'close'), 'C', (b, '', 'close')])
            else:
                shapes.append([(b, arg, 'open'), 'A', (cn, ca, 'open'), 'B', (b, '', 'close')])      # continuation of another block
        for other in blocks:
            if other != b:
                shapes.append([(b, arg, 'open'), 'A', (other, '', 'close'), 'B', (b, '', 'close')])  # foreign end tag inside
        shapes.append([(b, arg, 'open'), 'A'])                                                       # no end tag
        shapes.append(['A', (b, '', 'close'), 'B'])                                                  # stray end tag
        if 'else' in conts:
            shapes.append([(b, arg, 'open'), 'A', ('else', '', 'open'), 'B', ('else', '', 'open'), 'C', (b, '', 'close')])
    for c in ('else', 'elif', 'except', 'finally'):
        shapes.append(['A', (c, '', 'close'), 'B'])                                                  # end form at top level
    # tag names are matched exactly in every syntax: a name that differs in case only is an unknown tag
    for nm, arg in (('IF', 'x'), ('If', 'x'), ('In', 's'), ('WITH', 'o'), ('Try', ''), ('Unless', 'x'), ('LET', 'q=p')):
        low = nm.lower()
        shapes.append([(nm, arg, 'open'), 'A', (nm, '', 'close')])
        shapes.append([(low, arg, 'open'), 'A', (nm, '', 'close')])
        shapes.append([(nm, arg, 'open'), 'A', (low, '', 'close')])
    shapes.append([('if', 'x', 'open'), 'A', ('Else', '', 'open'), 'B', ('if', '', 'close')])
    shapes.append([('try', '', 'open'), 'A', ('EXCEPT', '', 'open'), 'B', ('try', '', 'close')])
    # names that are commands of other template processors (a web server's own SSI directives, page-template and macro
    # languages, HTML elements) are unknown tags here, whatever their arguments look like, in every spelling alike
    foreign = ['config', 'echo', 'exec', 'flastmod', 'fsize', 'include', 'printenv', 'set', 'script', 'style', 'img', 'tal',
               'metal', 'block', 'extends', 'for', 'while', 'def', 'macro', 'end', 'endif', 'x', 'foo']
    fargs = ['', 'v', 'var="DATE_LOCAL"', 'virtual="/inc/f.html"', 'y=1', 'expr="1"', 'cmd="ls" x', 'timefmt="%A"']
    for i, nm in enumerate(foreign):
        for j, a in enumerate(fargs):
            if (i + j) % 2 and a not in ('var="DATE_LOCAL"', 'y=1'):
                continue
            shapes.append(['A', (nm, a, 'open'), 'B'])
            shapes.append([('if', 'x', 'open'), 'A', (nm, a, 'open'), 'B', ('if', '', 'close')])
    out = []
    for sh in shapes:
        spell = []
        for style in (0, 1, 2, 3):
            spell.append(('epfs' if style == 3 else 'html',
                          ''.join(p if isinstance(p, str) else sp(style, *p) for p in sh)))
        out.append({'spellings': spell, 'env': None, 'ast': None, 'malformed': True})
    return out


def main(tier):
    global _C
    V = common.Verdicts(PID, tier)
    rng = random.Random(common.seed())
    n = 1200 if tier == 'quick' else 15000
    cases = []
    while len(cases) < n:
        ast = gen_body(rng, 2 if len(cases) % 3 else 1)
        sp = spellings(ast, rng)
        if max(len(s) for _, s in sp) > 500:
            continue
        cases.append({'spellings': sp, 'env': None, 'ast': ast})
    cases += malformed_cases()
    # systematic: every option of var / in alone, every entity modifier
    for o in VAR_OPTS:
        opts = [o] + ([('size', '2')] if o[0] == 'etc' else [])
        for ref in (('n', 'q'), ('e', 'q'), ('n', 'x')):
            ast = [('text', 'a'), ('var', ref, opts), ('text', 'b\n')]
            cases.append({'spellings': spellings(ast, rng), 'env': None, 'ast': ast})
    for o in IN_OPTS:
        opts = [o] + ([('size', '2')] if o[0] in ('orphan', 'overlap') else [])
        ast = [('in', ('n', 's'), opts, [('text', ' i:'), ('var', ('n', 'k'), [])], None)]
        cases.append({'spellings': spellings(ast, rng), 'env': None, 'ast': ast})
    for mmod in ENT_MODS:
        ast = [('ent', 'q', [mmod]), ('text', '\n'), ('ent', 'x', [mmod, 'upper'])]
        cases.append({'spellings': spellings(ast, rng), 'env': None, 'ast': ast})
    models, stats = front_common.run_machine(cases, chunk=2000, coverage=(tier == 'thorough'))
    for c, m in zip(cases, models):
        c['_m'] = m
    _C = cases
    nsp = nr = 0
    for r in common.pool_map(_one, range(len(cases)), chunk=100, per_case=60):
        if '_crash' in r:
            common.machinery_failure('harness crash: %s' % repr(r)[:1500])
        if '_timeout' in r:
            V.violation({'kind': 'no-termination', 'case': repr(cases[r['case']]['spellings'])[:600], 'cls': 'hang'})
            continue
        nsp += r.get('n', 0)
        nr += r.get('renders', 0)
        claimed = [b for b in r['bad'] if b[0] in ('program', 'programs-differ', 'renders-differ', 'accept-reject',
                                                  'exception-type', 'exception-class')]
        for clause, _ in r['bad']:
            if clause not in [b[0] for b in claimed]:
                V.count('drift_' + clause)
        if claimed:
            clause, d = claimed[0]
            V.violation({'kind': 'departure', 'clause': clause, 'detail': d, 'cls': clause})
        else:
            V.count('templates_conform')
    from checks import c07_conc
    c07_conc.stage(V, tier, rng)
    c07_conc.enc_stage(V)
    c07_conc.late_tag_stage(V)
    cov = {'states': stats['states'], 'transitions': stats['transitions'],
           'traces_validated_against_impl': V.counters.get('templates_conform', 0),
           'abstract_templates': len(cases), 'spellings_compiled': nsp, 'renderings': nr, 'exhaustive': False,
           'actions_covered': stats['coverage'],
           'rule': 'random abstract templates over every tag (var with 14 options, entities with modifiers, call, return, if/elif/else, '
                   'unless, in with 12 options, with, let, try/except/else, try/finally, raise, comment; nesting <= 2) plus every '
                   'option alone; each printed in 4-7 distinct spellings; each spelling rendered under 3 namespaces',
           'samples': [{'spellings': cases[i]['spellings']} for i in (3, len(cases) // 2, len(cases) - 2)]}
    return V.finish(cov, assumptions=['expressions are drawn from a pool printable in all three syntaxes',
                                      'literal text is tag-free in every syntax; about a fifth of the text slots hold near-tag fragments (&dtml- without ;, <d, <!-- c -->, 5% x ...)'])


def replay_file(path):
    data = json.load(open(path))
    for v in data['violations']:
        print(json.dumps(v, default=repr)[:1500])
    return 1 if data['violations'] else 0
