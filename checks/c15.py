"""C15 -- dtml-var options apply a fixed, documented value pipeline.

Machine: spec/DTVar.tla -- one action per stage (Lookup/missing, Null, Fmt, CFmt, Mods in ModOrder,
Size, Final); StageOrder (action property), TruncBound, RoundTrip (url_unquote inverts url_quote),
SqlSafe.  The machine is independent of the written order of the options by construction; the
replay writes every behaviour in several orders (all permutations for up to three options).
"""
import itertools
import random

from harness import common
from checks import var_common as vc
from checks.var_common import text, other, sweep, MISSING, KERR

PID = 'C15'

TEXTS = ['ab cd_ef', "it's 100%41+x y", '1234567.891', 'Hello big World foo', '', 'a\r\nb\x00c\x1ad',
         'x%2541 %2B+%20', 'aB_cD', '$1234567', "o''k' '", '12,345.5.5', 'a b c d e f g', '  pad  ',
         '3.14159', '-1234.56789012', '1e+12345', '.1234567',
         # text that looks like markup of its own: character references, entities, tags (a modifier is a string method, not a parser)
         'see &chapter; &#x20ac; &amp; a&b;c', '<b>bold</b> &lt;i&gt; %(x)s ${y} {z}']
OTHERS = [other('num', '1234567', False), other('num', '0', False), other('num', '12345.5', False),
          other('none', 'None', True), other('elist', '[]', True), other('num', '1234.5678', False),
          other('num', '-98765.4321012', False),
          # zeros of other numeric types: false, equal to 0, hence not null
          other('zero', '0', False), other('zero', '0.00', False), other('zero', '0j', False)]


def sweeps(tier):
    tv = [text(s) for s in TEXTS]
    singles = [[]] + [[m] for m in vc.ALLMODS]
    pairs = [list(c) for c in itertools.combinations(vc.ALLMODS, 2)]
    out = [
        sweep((tv[:7] + tv[13:15]) if tier == 'quick' else tv, 'SUBSET Modifiers'),
        sweep(tv + OTHERS, singles, fmts=c04_fmts(), sizes=tuple(range(-1, 9)) + (12, 20, 30), etcs=('default', 'none', 'tilde')),
        sweep(tv + OTHERS + [MISSING, KERR], [[], ['upper'], ['html_quote']], fmts=('', 'upper', 'pct'),
              nulls=(False, True), missings=(False, True), sizes=(-1, 2)),
        sweep(tv, pairs, cfmts=('s', '6s'), sizes=(-1, 3, 7)),
        # the C-style format stage runs whatever the options are: none, a single modifier (html_quote alone takes the short path
        # of the renderer for %(x html_quote)s), with and without size
        sweep(tv + OTHERS, singles, cfmts=('6s',), sizes=(-1, 4), forms=('name', 'expr')),
    ]
    # the money formats: "$%d" / "$%.2f" of a number (at most two decimals: no rounding), with and without thousands separators;
    # anything that is not a number gives the empty string
    money = [other('num', x, False) for x in ('0', '7', '1234567', '12345.5', '-1234567.25', '999.99', '1000', '-0.5', '0.75',
                                               '100000.1', '-12', '1234.00')]
    out.append(sweep(money + tv[:4] + [tv[8]], [[], ['html_quote'], ['thousands_commas'], ['upper'], ['url_quote']],
                     fmts=('whole-dollars', 'dollars-and-cents', 'dollars-with-commas', 'dollars-and-cents-with-commas'),
                     sizes=(-1, 5, 30), nulls=(False, True), forms=('name', 'expr')))
    # integer conversions of the C-style format (the %(name)fmt syntax): hexadecimal in the case written, zero padding
    ints = [other('num', x, False) for x in ('0', '9', '10', '255', '4095', '1234567', '48879', '3054')]
    out.append(sweep(ints, [[], ['lower'], ['upper'], ['html_quote'], ['thousands_commas']], cfmts=('X', 'x', '08X', '05d', 's'),
                     sizes=(-1, 3)))
    # untrusted (tainted) values go through the same modifier functions: the laws of C15 hold for them too
    tt = [text("<b>x' OR 1=1 --\x00\x1a\r", True), text("it's <i>a b_c 1234567.5", True), text("<'>%3C%27+x", True)]
    out.append(sweep(tt, singles + [['sql_quote', 'upper'], ['sql_quote', 'spacify'], ['url_unquote', 'sql_quote'],
                                    ['thousands_commas', 'lower'], ['url_quote', 'capitalize']],
                     fmts=('', 'sql-quote', 'upper', 'url-unquote'), sizes=(-1, 6), forms=('name', 'expr')))
    # byte strings go through the same modifiers (decoded with the template encoding): quoting laws hold for them too
    bt = [text(s_, enc='utf-8') for s_ in ('1+1 = 2', 'a%2Bb+c %41', "it's +%2B+", 'x y')]
    # (newline_to_br, spacify and thousands_commas do not accept byte strings at all -- TypeError / the repr of the bytes; no
    # clause of C15 or C19 covers that combination, it is recorded in DESIGN.md and not claimed)
    bsingles = [m_ for m_ in singles if not set(m_) & {'newline_to_br', 'spacify', 'thousands_commas'}]
    out.append(sweep(bt, bsingles + [['url_quote_plus', 'url_unquote_plus'], ['url_quote', 'url_unquote'], ['url_unquote_plus', 'upper']],
                     fmts=('', 'url-unquote-plus', 'url-quote-plus', 'url-unquote'), sizes=(-1,)))
    if tier == 'thorough':
        out.append(sweep(tv, [list(c) for c in itertools.combinations(vc.ALLMODS, 3)], fmts=('', 'strip'),
                         sizes=(-1, 5, 11)))
    return out


def c04_fmts():
    from checks.c04 import FMTS
    return FMTS


def classify(b, r):
    stage = 'size/etc' if b['size'] != -1 else 'null/missing' if (b['null'] or b['missing']) else \
        'fmt' if b['fmt'] else 'modifiers'
    return {'clause': stage}


def post(V):
    # written order: every permutation of three modifiers gives one and the same text
    from DocumentTemplate.DT_HTML import HTML
    for ms in (['upper', 'html_quote', 'url_quote'], ['spacify', 'capitalize', 'sql_quote'],
               ['thousands_commas', 'url_quote_plus', 'lower']):
        outs = set()
        for p in itertools.permutations(ms):
            outs.add(HTML('<dtml-var x %s size=9 etc="!">' % ' '.join(p))(x="a_b & 'c' 1234567"))
            V.count('renderings')
        if len(outs) != 1:
            V.violation({'kind': 'departure', 'clause': 'written-order', 'mods': ms, 'outputs': sorted(outs)})


def main(tier):
    return vc.run(PID, tier, sweeps(tier), classify, post=post, invs=['TruncBound', 'RoundTrip', 'SqlSafe'],
                  assumptions=['lower/upper/capitalize are modelled on ASCII letters, url quoting on ASCII text '
                               '(DESIGN section 5); float/int values enter through their str() form',
                               'fmt= covers the special formats, four method formats and one %-format'],
                  rule='13 texts (blanks, _, quotes, %XX, +, digits, control characters, empty) and int/float/None/[] x all '
                       '4096 modifier subsets; single modifiers x 15 formats x sizes -1..8,12,20,30 x etc {absent, "", '
                       '"~~"}; null/missing x defined/undefined/null values; modifier pairs x C-format x sizes; each '
                       'behaviour written in up to three orders and three syntaxes; tainted values (quotes, control characters, %XX) x single '
                       'modifiers and pairs x formats')


replay = vc.replay_file
