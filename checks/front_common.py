"""Shared by C01 / C06 / C07: run the DTParse machine over a list of sources and compare every exported
behaviour with the projection of the real compiler (harness/front.py)."""
import json

from harness import common, front, tlc

CFG = ('SPECIFICATION Spec\nINVARIANT Tiling\nINVARIANT ErrLocated\nINVARIANT OnlyTwoErrors\nINVARIANT SameProgram\n'
       'INVARIANT Export\nPROPERTY FrameProgress\nCHECK_DEADLOCK FALSE\n')

_CASES = None


def run_machine(cases, chunk=15000, coverage=False, allow_same_violation=False):
    """cases: list of dicts with syn, src (str), env (dict or None).  Returns (list of exported behaviours
    in case order (None where missing), aggregated TLC statistics)."""
    out = [None] * len(cases)
    stats = {'states': 0, 'transitions': 0, 'runs': 0, 'coverage': {}}
    for lo in range(0, len(cases), chunk):
        part = cases[lo:lo + chunk]
        js = json.dumps([front.case_multi(c['spellings'], c.get('env'), True) if 'spellings' in c else
                         front.case(c['syn'], c['src'], c.get('env')) for c in part])

        def on_print(v, lo=lo, part=part):
            out[lo + v['tid'] - 1] = v['outs'] if 'spellings' in part[v['tid'] - 1] else v['outs'][0]
        res = tlc.run('DTParse', CFG, files={'cases.json': js}, on_print=on_print, keep_prints=False,
                      timeout=3400, coverage=False, extra_java=['-Xss16m'])     # TLC's -coverage exits silently on this module
        if res.violated and not (res.violated == 'SameProgram' and allow_same_violation):
            raise tlc.TLCFailure('DTParse machine violates %s\n%s' % (res.violated, (res.error_trace or '')[:2500]))
        if res.violated:
            stats['same_program_violated'] = (res.error_trace or '')[:3000]
        stats['states'] += res.distinct
        stats['transitions'] += res.generated
        stats['runs'] += 1
        for k, v in res.coverage.items():
            stats['coverage'][k] = stats['coverage'].get(k, 0) + v
    return out, stats


def _one(i):
    c = _CASES[i]
    m = c['_m']
    real, t = front.real_compile(c['syn'], c['src'])
    bad = front.compare(m, real, c['src']) if m is not None else [('no-model-result', {})]
    r = {'i': i, 'bad': bad, 'k': real['k'], 'mk': m['k'] if m else None, 'nscans': len(real['scans'])}
    if c.get('render') and m is not None and m['k'] == 'ok' and real['k'] == 'ok' and not m['un']:
        try:
            got = t(**front.py_env(c.get('env')))
            if not isinstance(got, str):
                got = repr(got)
        except BaseException as e:  # noqa
            got = 'RAISED %s: %s' % (type(e).__name__, str(e)[:100])
        r['render'] = (front.txt(m['out']), got)
    elif c.get('render') and m is not None and m['k'] == 'ok':
        r['unrendered'] = True
    return r


def compare_all(cases, models, per_case=20):
    """returns list of result dicts in case order"""
    global _CASES
    for c, m in zip(cases, models):
        c['_m'] = m
    _CASES = cases
    res = common.pool_map(_one, range(len(cases)), chunk=300, per_case=per_case)
    return res
