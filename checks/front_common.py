"""Shared by C01 / C06 / C07: run the DTParse machine over a list of sources and compare every exported
behaviour with the projection of the real compiler (harness/front.py)."""
import json

from harness import common, front, tlc

CFG = ('SPECIFICATION Spec\nINVARIANT Tiling\nINVARIANT ErrLocated\nINVARIANT OnlyTwoErrors\nINVARIANT SameProgram\n'
       'INVARIANT Export\nPROPERTY FrameProgress\nCHECK_DEADLOCK FALSE\n')

_CASES = None


def run_machine(cases, chunk=15000, coverage=False, allow_same_violation=False):
    """cases: list of dicts with syn, src (str), env (dict or None).  Returns (list of exported behaviours
    in case order (None where missing), aggregated TLC statistics)."""
    out = [None] * len(cases)
    stats = {'states': 0, 'transitions': 0, 'runs': 0, 'coverage': {}}
    for lo in range(0, len(cases), chunk):
        part = cases[lo:lo + chunk]
        js = json.dumps([front.case_multi(c['spellings'], c.get('env'), True) if 'spellings' in c else
                         front.case(c['syn'], c['src'], c.get('env')) for c in part])

        def on_print(v, lo=lo, part=part):
            out[lo + v['tid'] - 1] = v['outs'] if 'spellings' in part[v['tid'] - 1] else v['outs'][0]
        res = tlc.run('DTParse', CFG, files={'cases.json': js}, on_print=on_print, keep_prints=False,
                      timeout=3400, coverage=False, extra_java=['-Xss16m'])     # TLC's -coverage exits silently on this module
        if res.violated and not (res.violated == 'SameProgram' and allow_same_violation):
            raise tlc.TLCFailure('DTParse machine violates %s\n%s' % (res.violated, (res.error_trace or '')[:2500]))
        if res.violated:
            stats['same_program_violated'] = (res.error_trace or '')[:3000]
        stats['states'] += res.distinct
        stats['transitions'] += res.generated
        stats['runs'] += 1
        for k, v in res.coverage.items():
            stats['coverage'][k] = stats['coverage'].get(k, 0) + v
    return out, stats


_WARM = []
WARM_H = ('<dtml-if a>1<dtml-elif b>2<dtml-else>3</dtml-if><dtml-unless a>u</dtml-unless><dtml-in s>i<dtml-else>e</dtml-in>'
          '<dtml-with o>w</dtml-with><dtml-let x=a>l</dtml-let><dtml-try>t<dtml-except>x</dtml-try><dtml-try>t<dtml-finally>f</dtml-try>'
          '<dtml-raise KeyError>k</dtml-raise><dtml-call a><dtml-var a><dtml-comment>c</dtml-comment><dtml-return a>'
          '<dtml-tree o>t</dtml-tree>')


def warm():
    """history: every process that compiles cases has compiled ordinary templates using every tag before (tag classes are
    imported lazily and cached in a class-level table shared by all templates)"""
    if not _WARM:
        _WARM.append(1)
        for syn, src in (('html', WARM_H), ('epfs', '%(if a)[1%(else)[2%(if)]%(in s)[i%(in)]%(with o)[w%(with)]%(let x=a)[l%(let)]'
                                                    '%(try)[t%(except)[x%(try)]%(raise KeyError)[k%(raise)]%(a)s%(unless a)[u%(unless)]')):
            try:
                front.template_class(syn)(src).cook()
            except Exception:  # noqa
                pass


def _one(i):
    warm()
    c = _CASES[i]
    m = c['_m']
    real, t = front.real_compile(c['syn'], c['src'])
    bad = front.compare(m, real, c['src']) if m is not None else [('no-model-result', {})]
    r = {'i': i, 'bad': bad, 'k': real['k'], 'mk': m['k'] if m else None, 'nscans': len(real['scans'])}
    if c.get('render') and m is not None and m['k'] == 'ok' and real['k'] == 'ok' and not m['un']:
        try:
            got = t(**front.py_env(c.get('env')))
            if not isinstance(got, str):
                got = repr(got)
        except BaseException as e:  # noqa
            got = 'RAISED %s: %s' % (type(e).__name__, str(e)[:100])
        r['render'] = (front.txt(m['out']), got)
    elif c.get('render') and m is not None and m['k'] == 'ok':
        r['unrendered'] = True
    return r


def compare_all(cases, models, per_case=20):
    """returns list of result dicts in case order"""
    global _CASES
    for c, m in zip(cases, models):
        c['_m'] = m
    _CASES = cases
    res = common.pool_map(_one, range(len(cases)), chunk=300, per_case=per_case)
    return res
