-------------------------------- MODULE DTLife --------------------------------
(***************************************************************************)
(* Life cycle of a template object: DT_String.String (__init__, munge,     *)
(* cook, __call__, __getstate__), pickling, deep copy, and FileMixin       *)
(* (file-backed source).                                                   *)
(*                                                                         *)
(*   src        which source text the object holds (index into Sources)    *)
(*   defs       which defaults it holds                                    *)
(*   cooked     has the _v_cooked marker                                   *)
(*   blocksOf   the source its compiled blocks were parsed from (0: none)  *)
(*   disk       (file templates) the content version of the file on disk   *)
(*   hist       operations so far; outs: what each Render must produce,    *)
(*              as a key <<source, defaults, namespace>>                   *)
(***************************************************************************)
EXTENDS Integers, Sequences, FiniteSets, TLC, Json

CONSTANTS NSources, NNamespaces, MaxLen, FileBacked,
          Bad          \* index of a source that does not parse (0: none): cooking it raises ParseError

VARIABLES src, defs, cooked, blocksOf, disk, hist, outs

vars == <<src, defs, cooked, blocksOf, disk, hist, outs>>

Sources == 1..NSources
Defaults == {"d0", "empty", "d1"}

Init == /\ src \in Sources /\ defs = "d0" /\ cooked = FALSE /\ blocksOf = 0 /\ disk = src
        /\ hist = <<<<"init", src>>>> /\ outs = <<>>

Room == Len(hist) < MaxLen + 1

\* what the object would parse if it cooked now
Current == IF FileBacked THEN disk ELSE src

\* __call__: cooks first when there is no _v_cooked marker, then renders the compiled blocks
\* (a source that does not parse leaves the object uncompiled: every rendering raises ParseError again)
Render(i) ==
    /\ Room
    /\ LET b == IF cooked THEN blocksOf ELSE Current IN
         /\ IF b = Bad /\ ~cooked THEN cooked' = FALSE /\ blocksOf' = 0
            ELSE blocksOf' = b /\ cooked' = TRUE
         /\ outs' = Append(outs, <<b, defs, i>>)
    /\ hist' = Append(hist, <<"render", i>>)
    /\ UNCHANGED <<src, defs, disk>>

\* __getstate__ omits every _v_ attribute: the copy starts uncompiled
Pickle   == /\ Room /\ cooked' = FALSE /\ blocksOf' = 0 /\ hist' = Append(hist, <<"pickle", 0>>)
            /\ UNCHANGED <<src, defs, disk, outs>>
DeepCopy == /\ Room /\ cooked' = FALSE /\ blocksOf' = 0 /\ hist' = Append(hist, <<"deepcopy", 0>>)
            /\ UNCHANGED <<src, defs, disk, outs>>

\* munge(source): new text, recompiled at once
\* (a text that does not parse is kept -- the call raises ParseError -- and the object is left uncompiled)
Munge(j) == /\ Room /\ ~FileBacked
            /\ src' = j /\ IF j = Bad THEN blocksOf' = 0 /\ cooked' = FALSE ELSE blocksOf' = j /\ cooked' = TRUE
            /\ hist' = Append(hist, <<"munge", j>>) /\ UNCHANGED <<defs, disk, outs>>
\* munge(None, mapping): defaults replaced (an empty mapping clears them), recompiled
MungeDefs(d) == /\ Room /\ ~FileBacked
                /\ defs' = d /\ IF src = Bad THEN blocksOf' = 0 /\ cooked' = FALSE ELSE blocksOf' = src /\ cooked' = TRUE
                /\ hist' = Append(hist, <<"defaults", IF d = "empty" THEN 0 ELSE 1>>)
                /\ UNCHANGED <<src, disk, outs>>
Cook == /\ Room /\ IF Current = Bad THEN blocksOf' = 0 /\ cooked' = FALSE ELSE blocksOf' = Current /\ cooked' = TRUE
        /\ hist' = Append(hist, <<"cook", 0>>)
        /\ UNCHANGED <<src, defs, disk, outs>>
\* the file changes on disk; the object does not notice until it is compiled again
EditFile == /\ Room /\ FileBacked /\ disk' = (disk % NSources) + 1
            /\ hist' = Append(hist, <<"editfile", 0>>) /\ UNCHANGED <<src, defs, cooked, blocksOf, outs>>

Next == (\E i \in 1..NNamespaces : Render(i)) \/ Pickle \/ DeepCopy \/ (\E j \in Sources : Munge(j))
        \/ (\E d \in {"empty", "d1"} : MungeDefs(d)) \/ Cook \/ EditFile

Spec == Init /\ [][Next]_vars

---------------------------------------------------------------------------
(* C17 *)

\* a compiled template is compiled from its own current source (string templates)
NoStaleBlocks == (cooked /\ ~FileBacked) => blocksOf = src
\* every rendering is that of a freshly constructed template of the current source and defaults
FreshEqual == [][\A i \in 1..NNamespaces :
                   (Len(outs') > Len(outs) /\ ~FileBacked) => outs'[Len(outs')][1] = src]_vars

Export == (Len(hist) = MaxLen + 1) => PrintT(ToJson([hist |-> hist, outs |-> outs]))
=============================================================================
