------------------------------- MODULE ObsBatch -------------------------------
(***************************************************************************)
(* Validation of observations recorded from the real dtml-in against the   *)
(* DTBatch machine (P2).  cases.json holds a batch of recorded renderings  *)
(*    {p: [L,start,end,size,orphan,overlap], e: 0|1, c: 0|1,               *)
(*     r: [[n,prev,next,ps,pe,ns,ne,st,en,pulled] ...], pl: pulled,        *)
(*     ln: len() calls on an unfinished sequence, np: 1 = pulls not recorded}*)
(* and chains.json recorded navigations {p, dir, ch: [[s,e]...], done}.    *)
(* For every case the machine is run on the recorded parameters; at the    *)
(* end one verdict line is printed: which clauses of C11 / C12 the         *)
(* *recorded* observation violates, and where it departs from the machine. *)
(***************************************************************************)
EXTENDS DTBatch, IOUtils

Cases  == JsonDeserialize("cases.json")
Chains == JsonDeserialize("chains.json")

VARIABLE tid
ovars == <<vars, tid>>

ParOf(c) == [L |-> c.p[1], start |-> c.p[2], end |-> c.p[3], size |-> c.p[4],
             orphan |-> c.p[5], overlap |-> c.p[6]]
RowOf(t) == [n |-> t[1], prev |-> t[2], next |-> t[3], ps |-> t[4], pe |-> t[5],
             ns |-> t[6], ne |-> t[7], st |-> t[8], en |-> t[9], p |-> t[10]]
RecObs(c) == [empty |-> c.e = 1, crashed |-> c.c = 1,
              rows |-> [i \in 1..Len(c.r) |-> RowOf(c.r[i])],
              pulled |-> c.pl, lens |-> c.ln]

OInit == \E t \in 1..Len(Cases) : tid = t /\ InitWith(ParOf(Cases[t])) /\ hist = <<>>
ONext == (Probe0 \/ Window \/ Item \/ PlainLen \/ PlainItem \/ Finish) /\ UNCHANGED tid
OSpec == OInit /\ [][ONext]_ovars

\* first row at which the recording departs from the machine (0: none)
ModelRows == [i \in 1..Len(rows) |-> RowT(rows[i])]
FirstDiff(a, b) ==
    IF a = b THEN 0
    ELSE LET n == IF Len(a) < Len(b) THEN Len(a) ELSE Len(b)
             d == {i \in 1..n : a[i] # b[i]}
         IN IF d = {} THEN n + 1 ELSE CHOOSE i \in d : \A j \in d : i <= j

ObsWin(o) == [s |-> WinS(o), e |-> WinE(o),
              z |-> EffSize(par.start, par.end, par.size)]

Verdict ==
    (pc = "done") =>
       LET c == Cases[tid]
           o == RecObs(c)
           lazyOK == IF NavDir = "plain" THEN C_PlainAll(par, o)
                     ELSE IF o.empty \/ o.crashed \/ o.rows = <<>> THEN o.lens = 0
                     ELSE C_Lazy(par, o, ObsWin(o))
           lazyR  == IF NavDir = "plain" \/ o.empty \/ o.crashed \/ o.rows = <<>> THEN lazyOK
                     ELSE C_LazyRelaxed(par, o, ObsWin(o))
           rowsEq == IF c.np = 1          \* np: the sequence was not lazy, pulls not recorded
                     THEN /\ Len(c.r) = Len(ModelRows)
                          /\ \A i \in 1..Len(c.r) : SubSeq(c.r[i], 1, 9) = SubSeq(ModelRows[i], 1, 9)
                     ELSE c.r = ModelRows /\ c.pl = pulled
           conform == /\ o.empty = empty /\ o.crashed = Crashed
                      /\ (~Crashed => rowsEq)
       IN PrintT(ToJson([tid |-> tid,
                         failed |-> IF par.L = Unlimited \/ NavDir = "plain" THEN {}
                                    ELSE Failed(C11Clauses(par, o)),
                         lazy |-> lazyOK /\ (o.crashed => Crashed),   \* "renders and terminates"
                         lazyr |-> lazyR /\ (o.crashed => Crashed),   \* modulo finding F19
                         conform |-> conform,
                         diff |-> IF Crashed \/ o.crashed THEN 0 ELSE FirstDiff(c.r, ModelRows)]))

\* recorded navigations: evaluated in the initial state of a dedicated run
ChainVerdicts ==
    \A i \in 1..Len(Chains) :
       LET c == Chains[i]
           p == ParOf(c)
           ok == IF c.dir = "next" THEN T_Tiles(p, c.ch, c.done = 1)
                                   ELSE T_Back(p, c.ch, c.done = 1)
       IN PrintT(ToJson([cid |-> i, ok |-> ok]))

\* recorded batch lists {p, w: [s, e], nb: [[s, e]...], pb: [[s, e]...]}: evaluated in the initial state of a dedicated run
Lists == JsonDeserialize("lists.json")
ListVerdicts ==
    \A i \in 1..Len(Lists) :
       LET c == Lists[i]
           p == ParOf(c)
       IN PrintT(ToJson([lid |-> i, next |-> L_Next(p, c.w, c.nb), prev |-> L_Prev(p, c.w, c.pb)]))

\* recorded renderings of the previous / next tag forms {p, w: [s, e], pf: [flag, s, e], nf: [flag, s, e]}
Forms == JsonDeserialize("forms.json")
FormVerdicts ==
    \A i \in 1..Len(Forms) :
       LET c == Forms[i]
           p == ParOf(c)
       IN PrintT(ToJson([fid |-> i, prev |-> F_Prev(p, c.w, c.pf), next |-> F_Next(p, c.w, c.nf)]))
=============================================================================
