-------------------------------- MODULE ObsTree --------------------------------
(***************************************************************************)
(* Validation of click histories recorded from the real dtml-tree against  *)
(* the DTTree machine.  traces.json: [{n, parent, opt, steps: [{op, x, rows,    *)
(* state, links}]}]; rows/state/links are node numbers as the harness      *)
(* decoded them from the rendering and from the cookie.                    *)
(***************************************************************************)
EXTENDS DTTree

VARIABLES k, bad
ovars == <<vars, k, bad>>

Steps == Cases[tid].steps
ToSet(s) == {s[j] : j \in 1..Len(s)}

OInit == Init /\ k = 1 /\ bad = <<>>

Check(st, e) ==      \* which observables of the recorded step disagree with the state e
    (IF st.rows # Rows(e) THEN {"rows"} ELSE {}) \cup
    (IF ~Opt.single /\ ToSet(st.state) # e THEN {"cookie"} ELSE {}) \cup
    (IF {<<l[1], l[2]>> : l \in ToSet(st.links)} # Links(e) THEN {"links"} ELSE {})

Apply(st) == CASE st.op = "click" -> Click(st.x)
               [] st.op = "expand_all" -> ExpandAll
               [] st.op = "collapse_all" -> CollapseAll
               [] st.op = "init" -> UNCHANGED <<tid, exp, last>>
               [] st.op = "reload" -> ReloadEff /\ UNCHANGED <<tid, last>>

ONext == /\ k <= Len(Steps) /\ bad = <<>>
         /\ Apply(Steps[k])
         /\ k' = k + 1
         /\ bad' = LET c == Check(Steps[k], exp') IN IF c = {} THEN <<>> ELSE <<k, c>>

\* a recorded click on a node that carries no link in the machine's state cannot be applied: rejected
Verdict == (k > Len(Steps) \/ bad # <<>> \/ ~ENABLED ONext) =>
              PrintT(ToJson([tid |-> tid, accepted |-> (k > Len(Steps) /\ bad = <<>>), at |-> k, bad |-> bad]))
=============================================================================
