------------------------------- MODULE DTBatch -------------------------------
(***************************************************************************)
(* The batching machinery of dtml-in: DT_In.InClass.renderwb + DT_InSV.opt *)
(* over a lazily produced sequence.                                        *)
(*                                                                         *)
(* The sequence is abstract: it has L elements (L = Unlimited for an       *)
(* unbounded iterator) of which `pulled` have been produced so far.  The   *)
(* only things the code does to it are probes  sequence[i]  (which pull    *)
(* everything up to i) and len(sequence) (which pulls everything).         *)
(*                                                                         *)
(* One action per phase of renderwb:                                       *)
(*   Probe0      the emptiness test  sequence[0]                           *)
(*   Window      int_param + opt(start,end,size,orphan,sequence)           *)
(*   Item        one pass of the  for index in range(first,end)  loop,     *)
(*               including the previous/next look-ahead on the first and   *)
(*               last index and the fetch of the element itself            *)
(*   Finish      join + pops                                               *)
(*   FollowNext / FollowPrev   a new request made with the start number    *)
(*               the previous rendering announced (navigation)             *)
(*                                                                         *)
(* Used for C11 (window arithmetic, links, tiling) and C12 (laziness).     *)
(***************************************************************************)
EXTENDS Integers, Sequences, FiniteSets, TLC, Json

CONSTANTS Ls, Starts, Ends, Sizes, Orphans, Overlaps,   \* parameter sets of the bounded model
          NavDir,                                        \* "none" | "next" | "prev": which links a reader follows;
                                                         \* "plain": the unbatched dtml-in (renderwob)
          PrevBatches                                    \* TRUE: the body evaluates previous-batches

Unlimited == -1
Undef == -9                     \* "variable not defined" in a row

VARIABLES par,      \* [L, start, end, size, orphan, overlap] of the current request
          pc,       \* "probe0" | "window" | "items" | "finish" | "done"
          win,      \* [s, e, z]  1-based window and the effective size, or Undef-filled
          pulled,   \* elements produced by the lazy sequence so far
          lens,     \* number of len(sequence) calls that happened while it was unfinished
          idx,      \* next 0-based index to render
          pinfo,    \* [f, s, e] previous-batch info as left in the variables frame
          ninfo,    \* [f, s, e] next-batch info
          rows,     \* rows rendered so far (what the template body can see per element)
          empty,    \* TRUE when the else branch was taken
          hist      \* navigation history: sequence of windows <<s, e>> shown by earlier requests

vars == <<par, pc, win, pulled, lens, idx, pinfo, ninfo, rows, empty, hist>>

Max(a, b) == IF a > b THEN a ELSE b
Min(a, b) == IF a < b THEN a ELSE b

---------------------------------------------------------------------------
(* Probing a lazily produced sequence *)

Has(L, i) == i >= 0 /\ (L = Unlimited \/ i < L)

PullTo(L, p, i) ==
    IF i < 0 THEN p
    ELSE IF L = Unlimited THEN Max(p, i + 1) ELSE Max(p, Min(L, i + 1))

\* len(sequence): exhausts the iterator.  In opt it is only reached after a failed probe, i.e.
\* when the sequence is finished already; `unfinishedLen` counts the calls where it was not.
LenPulls(L, p) == IF L = Unlimited THEN p ELSE L

---------------------------------------------------------------------------
(* DT_InSV.opt, statement by statement.  Result: window, effective size, pulled, and the   *)
(* number of len() calls made on an unfinished sequence (always 0 here: len is only used  *)
(* after a failed probe).                                                                 *)

EffSize(start, end, size) ==
    IF size < 1
    THEN IF start > 0 /\ end > 0 /\ end >= start THEN end + 1 - start ELSE 7
    ELSE size

Opt(L, p0, start, end, size0, orphan) ==
    LET size == EffSize(start, end, size0) IN
    IF start > 0 THEN
        LET ok1 == Has(L, start - 1)
            p1  == PullTo(L, p0, start - 1)
            s1  == IF ok1 THEN start ELSE L
        IN IF end > 0 THEN
               [s |-> s1, e |-> IF end < s1 THEN s1 ELSE end, z |-> size, p |-> p1]
           ELSE
               LET e1  == s1 + size - 1
                   ok2 == Has(L, e1 + orphan - 1)
                   p2  == PullTo(L, p1, e1 + orphan - 1)
               IN [s |-> s1, e |-> IF ok2 THEN e1 ELSE L, z |-> size, p |-> p2]
    ELSE IF end > 0 THEN
        LET ok == Has(L, end - 1)
            p1 == PullTo(L, p0, end - 1)
            e1 == IF ok THEN end ELSE L
            s1 == e1 + 1 - size
        IN [s |-> IF s1 - 1 < orphan THEN 1 ELSE s1, e |-> e1, z |-> size, p |-> p1]
    ELSE
        LET e1 == size
            ok == Has(L, e1 + orphan - 1)
            p1 == PullTo(L, p0, e1 + orphan - 1)
        IN [s |-> 1, e |-> IF ok THEN e1 ELSE L, z |-> size, p |-> p1]

---------------------------------------------------------------------------
(* The machine *)

Params == [L : Ls, start : Starts, end : Ends, size : Sizes, orphan : Orphans, overlap : Overlaps]

NoInfo == [f |-> 0, s |-> Undef, e |-> Undef]

InitWith(p) ==
    /\ par = p
    /\ pc = "probe0"
    /\ win = [s |-> Undef, e |-> Undef, z |-> Undef]
    /\ pulled = 0 /\ lens = 0 /\ idx = 0
    /\ pinfo = NoInfo /\ ninfo = NoInfo
    /\ rows = <<>> /\ empty = FALSE

Init == \E p \in Params : InitWith(p) /\ hist = <<>>

\* try: sequence[0] except IndexError: render the else block
Probe0 ==
    /\ pc = "probe0"
    /\ pulled' = PullTo(par.L, pulled, 0)
    /\ IF Has(par.L, 0)
       THEN pc' = "window" /\ empty' = FALSE
       ELSE pc' = "done" /\ empty' = TRUE
    /\ UNCHANGED <<par, win, lens, idx, pinfo, ninfo, rows, hist>>

Window ==
    /\ pc = "window" /\ NavDir # "plain"
    /\ LET o  == Opt(par.L, pulled, par.start, par.end, par.size, par.orphan)
           \* try: sequence[end - 1] except IndexError: end = len(sequence)
           e  == IF Has(par.L, o.e - 1) THEN o.e ELSE par.L
           p1 == PullTo(par.L, o.p, o.e - 1)
       IN
         /\ win' = [s |-> o.s, e |-> e, z |-> o.z]
         /\ pulled' = p1
         /\ idx' = o.s - 1
         /\ pc' = IF o.s - 1 < e THEN "items" ELSE "finish"
    /\ UNCHANGED <<par, lens, pinfo, ninfo, rows, empty, hist>>

\* the look-ahead done when index = first or index = last
PrevOpt(p) == Opt(par.L, p, 0, (win.s - 1) + par.overlap, win.z, par.orphan)
NextOpt(p) == Opt(par.L, p, win.e + 1 - par.overlap, 0, win.z, par.orphan)

Item ==
    /\ pc = "items" /\ NavDir # "plain"
    /\ LET first == win.s - 1
           last  == win.e - 1
           edge  == idx = first \/ idx = last
           po    == PrevOpt(pulled)
           p1    == IF edge /\ first > 0 THEN po.p ELSE pulled
           pi    == IF edge /\ first > 0 THEN [f |-> 1, s |-> po.s, e |-> po.e] ELSE pinfo
           more  == Has(par.L, win.e)
           p2    == IF edge THEN PullTo(par.L, p1, win.e) ELSE p1
           no    == NextOpt(p2)
           p3    == IF edge /\ more THEN no.p ELSE p2
           ni    == IF edge /\ more THEN [f |-> 1, s |-> no.s, e |-> no.e] ELSE ninfo
           p4a   == PullTo(par.L, p3, idx)              \* client = sequence[index]
           \* previous_batches(): while start > 1: opt(0, start-1+overlap, sz, orphan, seq); its first
           \* probe is the farthest.  Only computed where previous-sequence is true.
           p4    == IF PrevBatches /\ idx = first /\ first > 0
                    THEN PullTo(par.L, p4a, (win.s - 1 + par.overlap) - 1) ELSE p4a
           row   == [n    |-> idx + 1,
                     prev |-> IF idx = first /\ first > 0 THEN 1 ELSE 0,
                     next |-> IF idx = last /\ more THEN 1 ELSE 0,
                     ps   |-> pi.s, pe |-> pi.e, ns |-> ni.s, ne |-> ni.e,
                     st   |-> IF idx = first THEN 1 ELSE 0,
                     en   |-> IF idx = last THEN 1 ELSE 0,
                     ok   |-> Has(par.L, idx),
                     p    |-> p4]
       IN /\ pinfo' = pi /\ ninfo' = ni
          /\ pulled' = p4
          /\ rows' = Append(rows, row)
          /\ IF ~Has(par.L, idx)                      \* IndexError escapes from renderwb
             THEN pc' = "done" /\ idx' = idx
             ELSE /\ idx' = idx + 1
                  /\ pc' = IF idx + 1 < win.e THEN "items" ELSE "finish"
    /\ UNCHANGED <<par, win, lens, empty, hist>>

\* renderwob: the unbatched loop.  l_ = len(sequence) exhausts a lazy sequence first (an unbounded
\* one never gets past it: `lens` counts that call), then every element is fetched once, in order.
PlainLen ==
    /\ NavDir = "plain" /\ pc = "window"
    /\ lens' = IF par.L = Unlimited THEN lens + 1 ELSE lens
    /\ pulled' = LenPulls(par.L, pulled)
    /\ win' = [s |-> 1, e |-> par.L, z |-> par.L]
    /\ idx' = 0
    /\ pc' = IF par.L = Unlimited THEN "done" ELSE "items"
    /\ UNCHANGED <<par, pinfo, ninfo, rows, empty, hist>>

PlainItem ==
    /\ NavDir = "plain" /\ pc = "items"
    /\ rows' = Append(rows, [n |-> idx + 1, prev |-> 0, next |-> 0, ps |-> Undef, pe |-> Undef,
                             ns |-> Undef, ne |-> Undef,
                             st |-> IF idx = 0 THEN 1 ELSE 0,
                             en |-> IF idx = par.L - 1 THEN 1 ELSE 0,
                             ok |-> TRUE, p |-> pulled])
    /\ idx' = idx + 1
    /\ pc' = IF idx + 1 < par.L THEN "items" ELSE "finish"
    /\ UNCHANGED <<par, win, pulled, lens, pinfo, ninfo, empty, hist>>

Finish ==
    /\ pc = "finish"
    /\ pc' = "done"
    /\ UNCHANGED <<par, win, pulled, lens, idx, pinfo, ninfo, rows, empty, hist>>

\* A new request: the reader follows the link built from next-sequence-start-number
\* (start=<that number>, everything else as before, no explicit end).
Crashed == pc = "done" /\ ~empty /\ (rows = <<>> \/ ~rows[Len(rows)].ok)

FollowNext ==
    /\ NavDir = "next" /\ pc = "done" /\ ~empty /\ ~Crashed
    /\ par.overlap < win.z            \* the property speaks about overlap < size only
    /\ rows[Len(rows)].next = 1
    /\ hist' = Append(hist, <<win.s, win.e>>)
    /\ \E p \in {[par EXCEPT !.start = rows[Len(rows)].ns, !.end = 0]} :
          /\ par' = p /\ pc' = "probe0"
          /\ win' = [s |-> Undef, e |-> Undef, z |-> Undef]
          /\ pulled' = 0 /\ lens' = 0 /\ idx' = 0 /\ pinfo' = NoInfo /\ ninfo' = NoInfo
          /\ rows' = <<>> /\ empty' = FALSE

FollowPrev ==
    /\ NavDir = "prev" /\ pc = "done" /\ ~empty /\ ~Crashed
    /\ par.overlap < win.z
    /\ rows[1].prev = 1
    /\ hist' = Append(hist, <<win.s, win.e>>)
    /\ \E p \in {[par EXCEPT !.start = rows[1].ps, !.end = 0]} :
          /\ par' = p /\ pc' = "probe0"
          /\ win' = [s |-> Undef, e |-> Undef, z |-> Undef]
          /\ pulled' = 0 /\ lens' = 0 /\ idx' = 0 /\ pinfo' = NoInfo /\ ninfo' = NoInfo
          /\ rows' = <<>> /\ empty' = FALSE

Next == Probe0 \/ Window \/ Item \/ PlainLen \/ PlainItem \/ Finish \/ FollowNext \/ FollowPrev

Spec == Init /\ [][Next]_vars

---------------------------------------------------------------------------
(* The observation of one rendering, as the conformance harness records it from the real   *)
(* code and as this machine produces it.                                                   *)

Obs == [empty |-> empty, crashed |-> Crashed, rows |-> rows, pulled |-> pulled, lens |-> lens]

---------------------------------------------------------------------------
(* C11 -- the clauses of the property, as predicates over (parameters, observation).       *)
(* They are evaluated on this machine's own observation (model checking) and on            *)
(* observations recorded from the real code (ObsBatch.tla).                                *)

Numbers(o) == [i \in 1..Len(o.rows) |-> o.rows[i].n]

\* the sequence is empty  <=>  the else branch, and nothing else can go wrong
C_Renders(p, o)   == ~o.crashed /\ (o.empty <=> p.L = 0) /\ (~o.empty => Len(o.rows) >= 1)

\* a recording that shows nothing at all (neither rows nor the else branch) fails Renders and is not indexed further
Shown(o) == ~o.empty /\ ~o.crashed /\ o.rows # <<>>

\* displayed elements are contiguous s..e with 1 <= s <= e <= L
C_InRange(p, o)   == Shown(o) =>
                       LET n == Numbers(o) IN
                         /\ n[1] >= 1 /\ n[Len(n)] <= p.L
                         /\ \A i \in 1..Len(n) - 1 : n[i + 1] = n[i] + 1

WinS(o) == o.rows[1].n
WinE(o) == o.rows[Len(o.rows)].n

\* "the window ending at start+size-1 unless fewer than orphan elements would remain after it,
\*  in which case it runs to the end" -- for requests that give a start inside the sequence (or
\*  none, meaning 1), a size, and no end
C_Ends(p, o)      == (Shown(o) /\ p.size >= 1 /\ p.end <= 0 /\ p.start <= p.L) =>
                       LET s  == IF p.start > 0 THEN p.start ELSE 1
                           e1 == s + p.size - 1
                       IN /\ WinS(o) = s
                          /\ WinE(o) = IF p.L - e1 >= p.orphan THEN e1 ELSE p.L

\* explicit start and end inside the sequence are displayed as given
C_Explicit(p, o)  == (Shown(o) /\ p.start > 0 /\ p.end >= p.start /\ p.end <= p.L) =>
                       (WinS(o) = p.start /\ WinE(o) = p.end)

C_NextIff(p, o)   == Shown(o) =>
                       /\ o.rows[Len(o.rows)].next = (IF WinE(o) < p.L THEN 1 ELSE 0)
                       /\ \A i \in 1..Len(o.rows) - 1 : o.rows[i].next = 0
C_PrevIff(p, o)   == Shown(o) =>
                       /\ o.rows[1].prev = (IF WinS(o) > 1 THEN 1 ELSE 0)
                       /\ \A i \in 2..Len(o.rows) : o.rows[i].prev = 0

\* announced neighbours (clamped into 1..L, see DESIGN C11)
C_NextStart(p, o) == (Shown(o) /\ o.rows[Len(o.rows)].next = 1) =>
                       o.rows[Len(o.rows)].ns = Max(1, WinE(o) + 1 - p.overlap)
C_PrevEnd(p, o)   == (Shown(o) /\ o.rows[1].prev = 1) =>
                       o.rows[1].pe = Min(p.L, WinS(o) - 1 + p.overlap)

C_StartEndFlags(p, o) == Shown(o) =>
                       \A i \in 1..Len(o.rows) :
                          /\ o.rows[i].st = (IF i = 1 THEN 1 ELSE 0)
                          /\ o.rows[i].en = (IF i = Len(o.rows) THEN 1 ELSE 0)

C11Clauses(p, o) ==
    [Renders |-> C_Renders(p, o), InRange |-> C_InRange(p, o), Ends |-> C_Ends(p, o),
     Explicit |-> C_Explicit(p, o), NextIff |-> C_NextIff(p, o), PrevIff |-> C_PrevIff(p, o),
     NextStart |-> C_NextStart(p, o), PrevEnd |-> C_PrevEnd(p, o),
     Flags |-> C_StartEndFlags(p, o)]

Failed(cl) == {k \in DOMAIN cl : ~cl[k]}

Finite == par.L # Unlimited

\* model-level invariants (one per clause so that TLC names the clause)
InvRenders   == (pc = "done" /\ Finite) => C_Renders(par, Obs)
InvInRange   == (pc = "done" /\ Finite) => C_InRange(par, Obs)
InvEnds      == (pc = "done" /\ Finite) => C_Ends(par, Obs)
InvExplicit  == (pc = "done" /\ Finite) => C_Explicit(par, Obs)
InvNextIff   == (pc = "done" /\ Finite) => C_NextIff(par, Obs)
InvPrevIff   == (pc = "done" /\ Finite) => C_PrevIff(par, Obs)
InvNextStart == (pc = "done" /\ Finite) => C_NextStart(par, Obs)
InvPrevEnd   == (pc = "done" /\ Finite) => C_PrevEnd(par, Obs)
InvFlags     == (pc = "done" /\ Finite) => C_StartEndFlags(par, Obs)

---------------------------------------------------------------------------
(* C11 -- navigation: following next-sequence-start-number from 1 tiles the sequence.      *)
(* hist holds the windows of the earlier requests of this navigation, oldest first.        *)

Chain == IF pc = "done" /\ ~empty /\ ~Crashed /\ rows # <<>>
         THEN Append(hist, <<rows[1].n, rows[Len(rows)].n>>) ELSE hist

\* clauses over a chain of windows obtained by following next links from a first request with
\* start <= 1, no end, size >= 1, overlap < size
T_Tiles(p, ch, complete) ==
    (p.size >= 1 /\ p.overlap < p.size /\ Len(ch) >= 1) =>
        /\ ch[1][1] = 1
        /\ \A i \in 1..Len(ch) - 1 :
              /\ ch[i + 1][1] = ch[i][2] + 1 - p.overlap      \* exactly `overlap` shared
              /\ ch[i + 1][2] > ch[i][2]                      \* progress => termination
        /\ complete => ch[Len(ch)][2] = p.L

T_Back(p, ch, complete) ==
    (p.size >= 1 /\ p.overlap < p.size /\ Len(ch) >= 1) =>
        /\ \A i \in 1..Len(ch) - 1 : ch[i + 1][1] < ch[i][1]
        /\ complete => ch[Len(ch)][1] = 1

\* progress as an action property (termination of the forward navigation)
NavProgress == [][FollowNext => (par.overlap < EffSize(par.start, par.end, par.size)
                                   => par'.start > par.start \/ par.start <= 0)]_vars

---------------------------------------------------------------------------
(* C12 -- laziness.  bound: the end of the displayed window plus one look-ahead batch.     *)

PullBound(p, w) == w.e + w.z + p.orphan

\* Known finding F19: the look-ahead for the *previous* batch, opt(0, first+overlap, ...), probes
\* element start-1+overlap.  For overlap > (window length) + size + orphan that lies beyond the
\* bound of the property.  The machine follows the code; its own invariant is therefore stated
\* with the relaxed bound, and the strict clause C_Lazy is evaluated on recorded observations.
PrevReach(p, w) == IF w.s > 1 THEN w.s - 1 + p.overlap ELSE 0
RelaxedBound(p, w) == Max(PullBound(p, w), PrevReach(p, w))

LazyWith(p, o, bound) == (~o.empty /\ ~o.crashed) =>
                     /\ o.lens = 0
                     /\ o.pulled <= bound
                     /\ \A i \in 1..Len(o.rows) : o.rows[i].p <= bound
                     /\ \A i \in 1..Len(o.rows) - 1 : o.rows[i].p <= o.rows[i + 1].p

C_Lazy(p, o, w)        == LazyWith(p, o, PullBound(p, w))
C_LazyRelaxed(p, o, w) == LazyWith(p, o, RelaxedBound(p, w))

InvLazy     == (pc \in {"items", "finish", "done"} /\ win.s # Undef /\ ~empty) =>
                   pulled <= RelaxedBound(par, win) /\ lens = 0
StrictOK    == (pc = "done" /\ ~empty /\ win.s # Undef) => pulled <= PullBound(par, win)
InvEmptyOne == (pc = "done" /\ empty) => pulled = 0
\* unbatched: every element pulled exactly once and rendered once, in order
C_PlainAll(p, o) == (~o.empty /\ ~o.crashed /\ p.L # Unlimited) =>
                      /\ o.pulled = p.L /\ Len(o.rows) = p.L
                      /\ \A i \in 1..Len(o.rows) : o.rows[i].n = i
InvPlainAll == (pc = "done" /\ NavDir = "plain") => C_PlainAll(par, Obs)
InvLazyB    == NavDir # "plain" => InvLazy
\* pulls only ever grow (elements are never produced twice)
PullMonotone == [][(pc' # "probe0") => pulled' >= pulled]_vars
\* every behaviour of a single request terminates: the variant (end - idx) decreases
ItemProgress == [][Item => (idx' > idx \/ pc' = "done")]_vars

---------------------------------------------------------------------------
(* Export of behaviours for the replay into the real code (P1).                            *)

ParT(p) == <<p.L, p.start, p.end, p.size, p.orphan, p.overlap>>
RowT(r) == <<r.n, r.prev, r.next, r.ps, r.pe, r.ns, r.ne, r.st, r.en, r.p>>
B(b) == IF b THEN 1 ELSE 0

Export == (pc = "done" /\ NavDir \in {"none", "plain"}) =>
             PrintT(ToJson(<<ParT(par), B(empty), B(Crashed),
                             [i \in 1..Len(rows) |-> RowT(rows[i])], pulled, B(StrictOK)>>))

NavTerminal == pc = "done" /\ (empty \/ Crashed \/ par.overlap >= win.z \/
                               (NavDir = "next" /\ rows[Len(rows)].next = 0) \/
                               (NavDir = "prev" /\ rows[1].prev = 0))

ExportChain == (NavTerminal /\ NavDir # "none") =>
             PrintT(ToJson(<<ParT(par), B(empty), B(Crashed), Chain>>))

InvTiles == (NavTerminal /\ NavDir = "next" /\ Finite) => T_Tiles(par, Chain, TRUE)
InvBack  == (NavTerminal /\ NavDir = "prev" /\ Finite) => T_Back(par, Chain, TRUE)

---------------------------------------------------------------------------
(* Batch lists: next-batches / previous-batches (sequence_variables.next_batches /          *)
(* previous_batches).  They are computed from the step variables the tag left in the        *)
(* variables frame: next-batches where next-sequence is true (last displayed element),      *)
(* previous-batches where previous-sequence is true (first displayed element); each entry   *)
(* is one call of opt with the effective size, exactly the look-ahead of renderwb repeated. *)
(* Both loops make progress only for overlap < size (as the navigation).                    *)

RECURSIVE NextBatchesFrom(_, _, _)
NextBatchesFrom(p, e, z) ==
    IF e >= p.L THEN <<>>
    ELSE LET o == Opt(p.L, p.L, e + 1 - p.overlap, 0, z, p.orphan) IN
         IF o.e <= e THEN <<<<o.s, o.e>>>>                   \* no progress: the real loop would not end (not explored)
         ELSE <<<<o.s, o.e>>>> \o NextBatchesFrom(p, o.e, z)

RECURSIVE PrevBatchesFrom(_, _, _)
PrevBatchesFrom(p, s, z) ==
    IF s <= 1 THEN <<>>
    ELSE LET o == Opt(p.L, p.L, 0, s - 1 + p.overlap, z, p.orphan) IN
         IF o.s >= s THEN <<<<o.s, o.e>>>>
         ELSE PrevBatchesFrom(p, o.s, z) \o <<<<o.s, o.e>>>>

NextList == IF win.e < par.L THEN NextBatchesFrom(par, win.e, win.z) ELSE <<>>
PrevList == IF win.s > 1 THEN PrevBatchesFrom(par, win.s, win.z) ELSE <<>>

\* the clauses, over a window <<s, e>> and a recorded or computed list of <<s, e>> pairs
L_Next(p, w, nb) ==
    /\ (nb = <<>>) <=> (w[2] >= p.L)
    /\ nb # <<>> =>
          /\ nb[1][1] = Max(1, w[2] + 1 - p.overlap)
          /\ \A i \in 1..Len(nb) : 1 <= nb[i][1] /\ nb[i][1] <= nb[i][2] /\ nb[i][2] <= p.L
          /\ \A i \in 1..Len(nb) - 1 : nb[i + 1][1] = nb[i][2] + 1 - p.overlap /\ nb[i + 1][2] > nb[i][2]
          /\ nb[Len(nb)][2] = p.L
L_Prev(p, w, pb) ==
    /\ (pb = <<>>) <=> (w[1] <= 1)
    /\ pb # <<>> =>
          /\ pb[Len(pb)][2] = Min(p.L, w[1] - 1 + p.overlap)
          /\ \A i \in 1..Len(pb) : 1 <= pb[i][1] /\ pb[i][1] <= pb[i][2] /\ pb[i][2] <= p.L
          /\ \A i \in 1..Len(pb) - 1 : pb[i][2] = pb[i + 1][1] - 1 + p.overlap /\ pb[i][1] < pb[i + 1][1]
          /\ pb[1][1] = 1

ListsApply == pc = "done" /\ ~empty /\ ~Crashed /\ rows # <<>> /\ Finite /\ NavDir = "none" /\ par.overlap < win.z
InvNextList == ListsApply => L_Next(par, <<win.s, win.e>>, NextList)
InvPrevList == ListsApply => L_Prev(par, <<win.s, win.e>>, PrevList)
\* the first next batch / the last previous batch are the neighbours the tag announced
InvListsAgree == ListsApply =>
    /\ NextList # <<>> => (ninfo.f = 1 /\ NextList[1] = <<ninfo.s, ninfo.e>>)
    /\ PrevList # <<>> => (pinfo.f = 1 /\ PrevList[Len(PrevList)] = <<pinfo.s, pinfo.e>>)
ExportLists == ListsApply => PrintT(ToJson(<<ParT(par), <<win.s, win.e>>, NextList, PrevList>>))

---------------------------------------------------------------------------
(* The tag forms <dtml-in ... previous> and <dtml-in ... next>: the window is computed as for   *)
(* the loop, then the body is rendered once for the neighbouring batch (with the             *)
(* previous-/next-sequence-* variables set), or the else body when there is none.            *)

PrevForm == IF win.s - 1 > 0
            THEN LET o == Opt(par.L, par.L, 0, (win.s - 1) + par.overlap, win.z, par.orphan) IN <<1, o.s, o.e>>
            ELSE <<0, Undef, Undef>>
NextForm == IF Has(par.L, win.e)
            THEN LET o == Opt(par.L, par.L, win.e + 1 - par.overlap, 0, win.z, par.orphan) IN <<1, o.s, o.e>>
            ELSE <<0, Undef, Undef>>

\* clauses over a window w = <<s, e>> and what a form announced, f = <<flag, s, e>>
F_Prev(p, w, f) == /\ (f[1] = 1) <=> (w[1] > 1)
                   /\ f[1] = 1 => (f[3] = Min(p.L, w[1] - 1 + p.overlap) /\ 1 <= f[2] /\ f[2] <= f[3])
F_Next(p, w, f) == /\ (f[1] = 1) <=> (w[2] < p.L)
                   /\ f[1] = 1 => (f[2] = Max(1, w[2] + 1 - p.overlap) /\ f[2] <= f[3] /\ f[3] <= p.L)

FormsApply == pc = "done" /\ ~empty /\ ~Crashed /\ rows # <<>> /\ Finite /\ NavDir = "none"
InvPrevForm == FormsApply => F_Prev(par, <<win.s, win.e>>, PrevForm)
InvNextForm == FormsApply => F_Next(par, <<win.s, win.e>>, NextForm)
\* the forms announce what the loop announces on its first / last element
InvFormsAgree == FormsApply =>
    /\ PrevForm[1] = 1 => (pinfo.f = 1 /\ <<pinfo.s, pinfo.e>> = <<PrevForm[2], PrevForm[3]>>)
    /\ NextForm[1] = 1 => (ninfo.f = 1 /\ <<ninfo.s, ninfo.e>> = <<NextForm[2], NextForm[3]>>)
ExportForms == FormsApply => PrintT(ToJson(<<ParT(par), <<win.s, win.e>>, PrevForm, NextForm>>))

=============================================================================
