-------------------------------- MODULE ObsStack --------------------------------
(***************************************************************************)
(* Projection specification of the namespace stack (C08), program-agnostic.*)
(* A trace is the sequence of TemplateDict pushes and pops recorded while  *)
(* a template is called as a sub-template on an existing namespace,        *)
(* bracketed by the call itself:                                           *)
(*   enter(level)   push(id)   pop(n)   exit(level, how)                   *)
(* Frames are numbered by the recorder in push order.  Whatever the        *)
(* program does (any block tag, dtml-tree, nested templates, faults raised *)
(* by namespace callables, dtml-return), at exit the stack must consist of *)
(* exactly the frames it had at entry and the recursion level must be the  *)
(* entry level; in between it never drops below its entry depth.           *)
(***************************************************************************)
EXTENDS Integers, Sequences, TLC, Json, IOUtils

Traces == JsonDeserialize("traces.json")

VARIABLES tid, l, stk, base, lvl, bad

vars == <<tid, l, stk, base, lvl, bad>>

Ev == Traces[tid].ev

Init == /\ tid \in 1..Len(Traces) /\ l = 1
        /\ stk = Traces[tid].initial          \* the frames present before the call (ids <= 0)
        /\ base = <<>> /\ lvl = <<>> /\ bad = ""

Enter == /\ l <= Len(Ev) /\ Ev[l].e = "enter"
         /\ base' = Append(base, stk) /\ lvl' = Append(lvl, Ev[l].level)
         /\ l' = l + 1 /\ UNCHANGED <<tid, stk, bad>>

Push == /\ l <= Len(Ev) /\ Ev[l].e = "push"
        /\ stk' = Append(stk, Ev[l].id)
        /\ l' = l + 1 /\ UNCHANGED <<tid, base, lvl, bad>>

Pop == /\ l <= Len(Ev) /\ Ev[l].e = "pop"
       /\ LET n == Ev[l].n
              floor == IF base = <<>> THEN 0 ELSE Len(base[Len(base)]) IN
          /\ stk' = SubSeq(stk, 1, IF Len(stk) >= n THEN Len(stk) - n ELSE 0)
          /\ bad' = IF bad = "" /\ Len(stk) - n < floor THEN "popped below the entry depth" ELSE bad
       /\ l' = l + 1 /\ UNCHANGED <<tid, base, lvl>>

Exit == /\ l <= Len(Ev) /\ Ev[l].e = "exit" /\ base # <<>>
        /\ bad' = IF bad # "" THEN bad
                  ELSE IF stk # base[Len(base)] THEN "frames at exit differ from the frames at entry"
                  ELSE IF Ev[l].level # lvl[Len(lvl)] THEN "level not restored"
                  ELSE ""
        /\ base' = SubSeq(base, 1, Len(base) - 1) /\ lvl' = SubSeq(lvl, 1, Len(lvl) - 1)
        /\ l' = l + 1 /\ UNCHANGED <<tid, stk>>

Next == Enter \/ Push \/ Pop \/ Exit

Spec == Init /\ [][Next]_vars

Done == l = Len(Ev) + 1
\* the property, evaluated per trace (exported, not a hard stop, so that every trace gets a verdict)
Restored == Done => bad = ""
Verdict  == Done => PrintT(ToJson([tid |-> tid, bad |-> bad, depth |-> Len(stk), open |-> Len(base)]))
=============================================================================
