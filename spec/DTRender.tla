------------------------------- MODULE DTRender -------------------------------
(***************************************************************************)
(* Small-step machine of the DTML renderer:                                *)
(*   String.__call__ (CallEnter/CallRet/CallExc), render_blocks_ (Rb..),   *)
(*   the 'i' simple form of if/unless/call (If..), Let, With, In (wob)   *)
(*   Try (except/else), Try (finally), Raise, Return, Comment,             *)
(*   TemplateDict (ns: push/pop/top-down search/auto-call rule),           *)
(*   InstanceDict (kind "inst"), the sequence-variables frame (kind "sv"). *)
(*                                                                         *)
(* Programs and namespaces come from cases.json (written by the harness    *)
(* from its generators); TLC picks the case and, nondeterministically, the *)
(* fault plan (which invocation of a namespace callable raises what).      *)
(* Every terminal state is exported and replayed into the real code.       *)
(***************************************************************************)
EXTENDS Integers, Sequences, FiniteSets, TLC, Json, IOUtils

Cases == JsonDeserialize("cases.json")

VARIABLES tid,      \* index of the case
          plan,     \* fault plan: function  invocation ordinal -> behaviour
          ctl,      \* control stack (activation records)
          ns,       \* namespace stack (TemplateDict._data), bottom first
          level,    \* TemplateDict.level
          calls,    \* log of invoked namespace callables / probes, in order
          ninv,     \* number of invocations so far
          exc,      \* pending exception / dtml-return
          ret,      \* return register of the render_blocks call that just finished
          evs,      \* log of namespace pushes and pops
          result    \* result of the outermost call

vars == <<tid, plan, ctl, ns, level, calls, ninv, exc, ret, evs, result>>

Case == Cases[tid]

---------------------------------------------------------------------------
(* helpers *)

NoExc   == [k |-> "none"]
NoRet   == [f |-> FALSE, v |-> <<>>]
Top     == ctl[Len(ctl)]
Below   == ctl[Len(ctl) - 1]
PopC(c) == SubSeq(c, 1, Len(c) - 1)
SetTop(c, f) == [c EXCEPT ![Len(c)] = f]
EmptyFn == [x \in {} |-> 0]

\* exception classes and their ancestors (Try.match_base walks __bases__)
Ancestors(c) ==
    CASE c = "KeyError"          -> {"LookupError", "Exception", "BaseException", "object"}
      [] c = "IndexError"        -> {"LookupError", "Exception", "BaseException", "object"}
      [] c = "LookupError"       -> {"Exception", "BaseException", "object"}
      [] c = "ValueError"        -> {"Exception", "BaseException", "object"}
      [] c = "ZeroDivisionError" -> {"ArithmeticError", "Exception", "BaseException", "object"}
      [] c = "NameError"         -> {"Exception", "BaseException", "object"}
      [] c = "Exception"         -> {"BaseException", "object"}
      [] c = "OSError"           -> {"Exception", "BaseException", "object"}
      \* classes with several direct bases: every base of every base counts (match_base walks __bases__)
      [] c = "MultiError"        -> {"LookupError", "ValueError", "Exception", "BaseException", "object"}
      [] c = "UnsupportedOperation" -> {"OSError", "ValueError", "Exception", "BaseException", "object"}
      [] c = "DeepMultiError"    -> {"MultiError", "LookupError", "ValueError", "Exception", "BaseException", "object"}
      \* HTTP exceptions of the application server (named in dtml-raise like the builtins)
      [] c = "Redirect"          -> {"_HTTPMove", "HTTPRedirection", "HTTPException", "Exception", "BaseException", "object"}
      [] c = "NotFound"          -> {"HTTPException", "Exception", "BaseException", "object"}
      \* two classes of different libraries that happen to bear the same name, "Error" (like shutil.Error and csv.Error): one is
      \* an OSError, the other a plain Exception.  A handler names a class by its name -- of the class raised or of a base
      [] c = "ErrorA"            -> {"OSError", "Exception", "BaseException", "object"}
      [] c = "ErrorB"            -> {"Exception", "BaseException", "object"}
      \* a class outside the Exception branch (KeyboardInterrupt, SystemExit, asyncio.CancelledError, ...)
      [] c = "Cancelled"         -> {"BaseException", "object"}
      [] OTHER                   -> {"Exception", "BaseException", "object"}

\* the try tag (and the raise tag's body) catch Exception and its subclasses only; anything else passes through every
\* handler -- but not through a finally body, which is rendered for every way of leaving the try body
Catchable(c) == c = "Exception" \/ "Exception" \in Ancestors(c)
\* the name a class bears (what handlers name, what error_type shows)
NameOf(c) == IF c \in {"ErrorA", "ErrorB"} THEN "Error" ELSE c

Raised(cls, msg) == [k |-> "raise", cls |-> cls, msg |-> msg]
Returning(v)     == [k |-> "ret", v |-> v]

\* (k = "text": what rendering a document template gave -- pieces of text; true unless empty)
Truth(v) == IF v.k = "plain" THEN v.t
            ELSE IF v.k = "list" THEN Len(v.items) > 0
            ELSE IF v.k = "text" THEN \E i \in 1..Len(v.ps) : v.ps[i] # ""
            ELSE TRUE
TextOf(v) == IF v.k = "plain" THEN (IF v.t THEN <<v.id>> ELSE <<"0">>) ELSE <<"?" \o v.k>>

---------------------------------------------------------------------------
(* namespace frames:  [kind, b, bar, x]                                    *)
(*   kind "map"/"cache": a plain mapping b                                 *)
(*   kind "inst": InstanceDict over attributes b (names in Case.us hidden) *)
(*   kind "sv": the sequence_variables object of a dtml-in (x = its state) *)
(*   bar = TRUE: lookups do not continue below (dtml-with ... only)        *)

Frame(kind, b) == [kind |-> kind, b |-> b, bar |-> FALSE, x |-> <<>>]

Letters == <<"a", "b", "c", "d", "e", "f", "g", "h", "i", "j">>
RomanL  == <<"i", "ii", "iii", "iv", "v", "vi", "vii", "viii", "ix", "x">>
RomanU  == <<"I", "II", "III", "IV", "V", "VI", "VII", "VIII", "IX", "X">>
LettersU == <<"A", "B", "C", "D", "E", "F", "G", "H", "I", "J">>

Num(n)  == [k |-> "plain", id |-> ToString(n), t |-> (n # 0), num |-> n]
Str(s)  == [k |-> "plain", id |-> s, t |-> TRUE]

ItemOf(e)  == IF e.k = "pair" THEN e.v ELSE e
HasAttr(e, a) == LET i == ItemOf(e) IN i.k \in {"obj", "map"} /\ a \in DOMAIN i.a
AttrOf(e, a)  == ItemOf(e).a[a]

\* the documented sequence variables; x = [items, idx, n, pre]; suffix names after "sequence-"
SvFixed == {"item", "key", "index", "number", "letter", "Letter", "roman", "Roman",
            "even", "odd", "start", "end", "length"}

SvValue(x, s) ==
    LET i == x.idx IN
    CASE s = "item"   -> ItemOf(x.items[i + 1])
      [] s = "key"    -> x.items[i + 1].key
      [] s = "index"  -> Num(i)
      [] s = "number" -> Num(i + 1)
      [] s = "letter" -> Str(Letters[i + 1])
      [] s = "Letter" -> Str(LettersU[i + 1])
      [] s = "roman"  -> Str(RomanL[i + 1])
      [] s = "Roman"  -> Str(RomanU[i + 1])
      [] s = "even"   -> [k |-> "plain", id |-> "True", t |-> (i % 2 = 0), fid |-> "False"]
      [] s = "odd"    -> Num(i % 2)
      \* true only on the first / last *displayed* element (the whole sequence unless the tag is batched)
      [] s = "start"  -> Num(IF i = x.first THEN 1 ELSE 0)
      [] s = "end"    -> Num(IF i = x.last THEN 1 ELSE 0)
      [] s = "length" -> Num(x.n)

\* names the sv frame answers: <<"sv", suffix>> | <<"first", attr>> | <<"last", attr>> | <<"var", attr>>
\* (the harness passes, per case, the table Case.svn : name -> [f, a] so that no string surgery
\*  is needed here)
SvDefines(x, name) ==
    /\ name \in DOMAIN Case.svn
    /\ LET d == Case.svn[name] IN
         CASE d.f = "sv"    -> IF d.a = "key" THEN x.items[x.idx + 1].k = "pair" ELSE TRUE
           [] d.f = "psv"   -> x.pre /\ d.p = x.pn /\ (IF d.a = "key" THEN x.items[x.idx + 1].k = "pair" ELSE TRUE)
           [] d.f = "var"   -> HasAttr(x.items[x.idx + 1], d.a)
           [] d.f = "first" -> TRUE
           [] d.f = "last"  -> TRUE
           [] OTHER -> FALSE

SvLookup(x, name) ==
    LET d == Case.svn[name]
        i == x.idx IN
    CASE d.f \in {"sv", "psv"} -> SvValue(x, d.a)
      [] d.f = "var"   -> AttrOf(x.items[i + 1], d.a)
      \* the first / last displayed element starts / ends a run in what is displayed
      [] d.f = "first" -> IF i = x.first THEN Num(1)
                          ELSE [k |-> "plain", id |-> "True", fid |-> "False",
                                t |-> AttrOf(x.items[i + 1], d.a) # AttrOf(x.items[i], d.a)]
      [] d.f = "last"  -> IF i = x.last THEN Num(1)
                          ELSE [k |-> "plain", id |-> "True", fid |-> "False",
                                t |-> AttrOf(x.items[i + 1], d.a) # AttrOf(x.items[i + 2], d.a)]

Defines(f, name) ==
    CASE f.kind = "inst" -> name \in DOMAIN f.b /\ name \notin {Case.us[j] : j \in 1..Len(Case.us)}
      [] f.kind = "sv"   -> SvDefines(f.x, name)
      [] OTHER           -> name \in DOMAIN f.b

ValIn(f, name) == IF f.kind = "sv" THEN SvLookup(f.x, name) ELSE f.b[name]

\* a frame of kind "none" is the value None pushed as a mapping (dtml-with x mapping / dtml-in s mapping with x or an element
\* being None): reading it raises TypeError, which no search catches (result -1)
IsNone(v) == v.k = "plain" /\ "none" \in DOMAIN v
NoneMsg == "'NoneType' object is not subscriptable"

RECURSIVE FindFrom(_, _)
FindFrom(i, name) ==
    IF i = 0 THEN 0
    ELSE IF ns[i].kind = "none" THEN -1
    ELSE IF Defines(ns[i], name) THEN i
    ELSE IF ns[i].bar THEN 0
    ELSE FindFrom(i - 1, name)

Find(name) == FindFrom(Len(ns), name)

PlainText(v) == IF v.k = "plain" THEN (IF v.t THEN <<v.id>> ELSE IF "fid" \in DOMAIN v THEN <<v.fid>> ELSE <<"0">>)
                ELSE IF v.k = "text" THEN v.ps
                ELSE <<"?" \o v.k>>

---------------------------------------------------------------------------
(* invoking namespace values *)

Invoke(f) ==
    LET ord == ninv + 1
        beh == IF ord \in DOMAIN plan THEN plan[ord] ELSE f.beh
    IN [calls |-> Append(calls, f.id), ninv |-> ord,
        out |-> IF beh = "ok" THEN [tag |-> "val", v |-> f.r]
                ELSE IF beh = "dtreturn" THEN [tag |-> "exc", e |-> Returning(Str("RV"))]
                ELSE [tag |-> "exc", e |-> Raised(beh, "boom")]]

Quiet(out) == [calls |-> calls, ninv |-> ninv, out |-> out]

\* a frame of kind "cmap" is a mapping that computes its values on access (pushed by dtml-with ... mapping): every
\* successful read of it is an observable event, logged as "g:name" -- a search reads it at most once
ReadLog(i, name) == IF i > 0 /\ ns[i].kind = "cmap" THEN <<"g:" \o name>> ELSE <<>>
Prefixed(pre, q) == [q EXCEPT !.calls = calls \o pre \o SubSeq(q.calls, Len(calls) + 1, Len(q.calls))]

\* md[name]  (TemplateDict.getitem(name, call=1))
MdGet0(name) ==
    LET i == Find(name) IN
    IF i = 0 THEN Quiet([tag |-> "exc", e |-> Raised("KeyError", name)])
    ELSE IF i = -1 THEN Quiet([tag |-> "exc", e |-> Raised("TypeError", NoneMsg)])
    ELSE LET v == ValIn(ns[i], name) IN
         IF v.k = "fn" THEN Invoke(v)
         ELSE IF v.k = "tmpl" THEN Quiet([tag |-> "tmpl", v |-> v])
         ELSE Quiet([tag |-> "val", v |-> v])

MdGet(name) == Prefixed(ReadLog(Find(name), name), MdGet0(name))

\* md.getitem(name, 0) as done by Eval.eval for the names an expression uses
MdRaw0(name) ==
    LET i == Find(name) IN
    IF i = 0 THEN Quiet([tag |-> "exc", e |-> Raised("NameError", name)])
    ELSE IF i = -1 THEN Quiet([tag |-> "exc", e |-> Raised("TypeError", NoneMsg)])
    ELSE Quiet([tag |-> "val", v |-> ValIn(ns[i], name)])

MdRaw(name) == Prefixed(ReadLog(Find(name), name), MdRaw0(name))

\* references:  name n | expr "n()" | expr "n" | expr "not n" | expr "o.a"
EvalRef(r) ==
    CASE r.k = "name" -> MdGet(r.n)
      \* (the expression forms read the name once, uncalled; what they then do does not read the namespace again)
      [] r.k = "call" -> Prefixed(ReadLog(Find(r.n), r.n),
                         LET q == MdRaw0(r.n) IN
                         IF q.out.tag = "exc" THEN q
                         ELSE IF q.out.v.k = "fn" THEN Invoke(q.out.v)
                         ELSE Quiet([tag |-> "exc", e |-> Raised("TypeError", "not callable")]))
      [] r.k = "val"  -> MdRaw(r.n)
      [] r.k = "not"  -> Prefixed(ReadLog(Find(r.n), r.n),
                         LET q == MdRaw0(r.n) IN
                         IF q.out.tag = "exc" THEN q
                         ELSE Quiet([tag |-> "val", v |-> [k |-> "plain", id |-> "True", fid |-> "False",
                                                          t |-> ~Truth(q.out.v)]]))
      \* the namespace object `_` inside expressions: _['n'] and _.getitem('n', 1) look up like a tag does (callables are
      \* called), _.getitem('n', 0) hands the value over uncalled, _.has_key('n') searches without evaluating,
      \* _.render(n) renders a value the way a tag would (templates are not used with these forms here)
      [] r.k \in {"item", "get1"} -> MdGet(r.n)
      [] r.k = "get0" -> LET i == Find(r.n) IN Prefixed(ReadLog(i, r.n),
                         IF i = 0 THEN Quiet([tag |-> "exc", e |-> Raised("KeyError", r.n)])
                         ELSE IF i = -1 THEN Quiet([tag |-> "exc", e |-> Raised("TypeError", NoneMsg)])
                         ELSE Quiet([tag |-> "val", v |-> ValIn(ns[i], r.n)]))
      [] r.k = "haskey" -> LET i == Find(r.n) IN Prefixed(ReadLog(i, r.n),
                         IF i = -1 THEN Quiet([tag |-> "exc", e |-> Raised("TypeError", NoneMsg)])
                         ELSE Quiet([tag |-> "val", v |-> [k |-> "plain", id |-> "True", fid |-> "False", t |-> (i # 0)]]))
      [] r.k = "render" -> Prefixed(ReadLog(Find(r.n), r.n),
                         LET q == MdRaw0(r.n) IN
                         IF q.out.tag = "exc" THEN q
                         ELSE IF q.out.v.k = "fn" THEN Invoke(q.out.v) ELSE q)
      \* _.namespace(a=n) / _(a=n): an object whose attribute a is the value of n as the expression sees it (uncalled, not
      \* rendered); handed to dtml-with it is searched like any other object, so the usual rules apply to a from then on
      [] r.k = "mkns" -> Prefixed(ReadLog(Find(r.n), r.n),
                         LET q == MdRaw0(r.n) IN
                         IF q.out.tag = "exc" THEN q
                         ELSE Quiet([tag |-> "val", v |-> [k |-> "obj", id |-> "NS", a |-> (r.a :> q.out.v)]]))
      [] r.k = "attr" -> Prefixed(ReadLog(Find(r.n), r.n),
                         LET q == MdRaw0(r.n) IN
                         IF q.out.tag = "exc" THEN q
                         ELSE IF r.a \in DOMAIN q.out.v.a THEN Quiet([tag |-> "val", v |-> q.out.v.a[r.a]])
                         ELSE Quiet([tag |-> "exc", e |-> Raised("AttributeError", r.a)]))

---------------------------------------------------------------------------
(* control frames *)

Rb(body)        == [k |-> "rb", body |-> body, pc |-> 1, acc |-> <<>>, base |-> Len(ns)]
RbAt(body, b)   == [k |-> "rb", body |-> body, pc |-> 1, acc |-> <<>>, base |-> b]

PushEv(kind, d) == <<"push", kind, d>>
PopEv(d)        == <<"pop", "", d>>

RECURSIVE PopEvs(_, _)
PopEvs(from, to) == IF from <= to THEN <<>> ELSE <<PopEv(from - 1)>> \o PopEvs(from - 1, to)

\* a construct on top of ctl finishes normally with text `t`: its frames are popped from ns, it is
\* removed from ctl, and the render_blocks frame below appends the text and moves on
Complete(t) ==
    LET o == Top
        p == Below IN
    /\ ns' = SubSeq(ns, 1, o.base)
    /\ evs' = evs \o PopEvs(Len(ns), o.base)
    /\ ctl' = SetTop(PopC(ctl), [p EXCEPT !.acc = p.acc \o t, !.pc = p.pc + 1])
    /\ ret' = NoRet

\* a construct on top of ctl is left by an exception: frames popped, exception continues
Abandon(e) ==
    LET o == Top IN
    /\ ns' = SubSeq(ns, 1, o.base)
    /\ evs' = evs \o PopEvs(Len(ns), o.base)
    /\ ctl' = PopC(ctl)
    /\ exc' = e
    /\ ret' = NoRet

Running == ctl # <<>> /\ exc.k = "none" /\ ~ret.f
AtNode(t) == Running /\ Top.k = "rb" /\ Top.pc <= Len(Top.body) /\ Top.body[Top.pc].t = t
Node == Top.body[Top.pc]
Advance(t) == ctl' = SetTop(ctl, [Top EXCEPT !.acc = Top.acc \o t, !.pc = Top.pc + 1])

---------------------------------------------------------------------------
(* String.__call__ *)

\* frames pushed by a top-level call, bottom first (only non-empty ones are pushed)
MergeDefaults(ck, cm) ==
    [n \in DOMAIN ck \cup {m \in DOMAIN cm : m \notin {Case.us[j] : j \in 1..Len(Case.us)}} |->
        IF n \in DOMAIN ck THEN ck[n] ELSE cm[n]]

NonEmpty(fs) == SelectSeq(fs, LAMBDA f : f.kind = "inst" \/ DOMAIN f.b # {})

TopFrames(s) ==
    NonEmpty(<<Frame("map", MergeDefaults(s.ck, s.cm)), Frame("map", s.map)>>)
    \o [i \in 1..Len(s.clients) |-> Frame("inst", s.clients[i].a)]
    \o NonEmpty(<<Frame("map", s.tv), Frame("map", s.kw)>>)

BotCount(s) == Len(NonEmpty(<<Frame("map", MergeDefaults(s.ck, s.cm)), Frame("map", s.map)>>))

RECURSIVE PushEvs(_, _, _)
PushEvs(fs, i, d) == IF i > Len(fs) THEN <<>>
                     ELSE <<PushEv(fs[i].kind, d + i)>> \o PushEvs(fs, i + 1, d)

NoPlan == [x \in {} |-> "ok"]

Plans ==
    LET K  == Case.K
        fk == {Case.fk[j] : j \in 1..Len(Case.fk)} IN
    {NoPlan}
    \cup {(k :> b) : k \in 1..K, b \in fk}
    \cup (IF Case.pairs = 1
          THEN {(k1 :> b1) @@ (k2 :> b2) : k1 \in 1..K, k2 \in 1..K + 2, b1 \in fk, b2 \in fk}
          ELSE {})

Init ==
    /\ tid \in 1..Len(Cases)
    /\ plan \in Plans
    /\ LET fs == TopFrames(Case.src) IN
         /\ ns = fs
         /\ evs = PushEvs(fs, 1, 0)
    \* the frames for the defaults and the call mapping are pushed before `pushed` starts counting:
    \* the outermost call never pops them (its TemplateDict is dropped instead)
    /\ ctl = <<[k |-> "call", base |-> BotCount(Case.src), lvl |-> 0, top |-> TRUE],
               RbAt(Case.prog, Len(TopFrames(Case.src)))>>
    /\ level = 1
    /\ calls = <<>> /\ ninv = 0 /\ exc = NoExc /\ ret = NoRet
    /\ result = [k |-> "pending"]

\* a document template found by name: rendered with the current namespace, its own defaults on top
CallEnter(t) ==
    LET fs == NonEmpty(<<Frame("map", t.gl)>>) IN
    /\ ns' = ns \o fs
    /\ evs' = evs \o PushEvs(fs, 1, Len(ns))
    /\ level' = level + 1
    /\ ctl' = ctl \o <<[k |-> "call", base |-> Len(ns), lvl |-> level, top |-> FALSE],
                       RbAt(t.prog, Len(ns) + Len(fs))>>

\* the call was made for a named condition (a document template found under the condition's name): its text is the value
CondCallDone(t) ==
    /\ ns' = SubSeq(ns, 1, Top.base)
    /\ evs' = evs \o PopEvs(Len(ns), Top.base)
    /\ ctl' = SetTop(PopC(ctl), [Below EXCEPT !.st = "cond", !.hv = TRUE, !.cv = t])
    /\ ret' = NoRet

CallRet ==
    /\ ctl # <<>> /\ Top.k = "call" /\ ret.f /\ exc.k = "none"
    /\ level' = Top.lvl
    /\ IF Top.top
       THEN /\ result' = [k |-> "text", v |-> ret.v]
            /\ ns' = SubSeq(ns, 1, Top.base) /\ evs' = evs \o PopEvs(Len(ns), Top.base)
            /\ ctl' = <<>> /\ ret' = NoRet
       ELSE IF Below.k = "if"
            THEN CondCallDone(ret.v) /\ UNCHANGED result
            ELSE Complete(ret.v) /\ UNCHANGED result
    /\ UNCHANGED <<tid, plan, calls, ninv, exc>>

CallExc ==
    /\ ctl # <<>> /\ Top.k = "call" /\ exc.k # "none"
    /\ level' = Top.lvl
    /\ IF exc.k = "ret"
       THEN \* except DTReturn as v: result = v.v
            IF Top.top
            THEN /\ result' = [k |-> "value", v |-> exc.v]
                 /\ ns' = SubSeq(ns, 1, Top.base) /\ evs' = evs \o PopEvs(Len(ns), Top.base)
                 /\ ctl' = <<>> /\ exc' = NoExc /\ ret' = NoRet
            ELSE IF Below.k = "if"
                 THEN CondCallDone(PlainText(exc.v)) /\ exc' = NoExc /\ UNCHANGED result
                 ELSE Complete(PlainText(exc.v)) /\ exc' = NoExc /\ UNCHANGED result
       ELSE IF Top.top
            THEN /\ result' = [k |-> "exc", cls |-> exc.cls, msg |-> exc.msg]
                 /\ ns' = SubSeq(ns, 1, Top.base) /\ evs' = evs \o PopEvs(Len(ns), Top.base)
                 /\ ctl' = <<>> /\ exc' = NoExc /\ ret' = NoRet
            ELSE Abandon(exc) /\ UNCHANGED result
    /\ UNCHANGED <<tid, plan, calls, ninv>>

---------------------------------------------------------------------------
(* render_blocks_ *)

\* render_blocks finished: hand the pieces to the owner
RbDone ==
    /\ Running /\ Top.k = "rb" /\ Top.pc > Len(Top.body)
    /\ ret' = [f |-> TRUE, v |-> Top.acc]
    /\ ctl' = PopC(ctl)
    /\ UNCHANGED <<tid, plan, ns, level, calls, ninv, exc, evs, result>>

\* an exception leaves a render_blocks call: its pieces are lost
RbUnwind ==
    /\ ctl # <<>> /\ exc.k # "none" /\ Top.k = "rb"
    /\ ctl' = PopC(ctl)
    /\ UNCHANGED <<tid, plan, ns, level, calls, ninv, exc, ret, evs, result>>

RbText ==
    /\ AtNode("text")
    /\ Advance(<<Node.s>>)
    /\ UNCHANGED <<tid, plan, ns, level, calls, ninv, exc, ret, evs, result>>

RbComment ==
    /\ AtNode("comment")
    /\ Advance(<<>>)
    /\ UNCHANGED <<tid, plan, ns, level, calls, ninv, exc, ret, evs, result>>

\* <dtml-var n>: lookup by name, callables are called, templates rendered
RbVar ==
    /\ AtNode("var")
    /\ LET q == MdGet(Node.n) IN
         /\ calls' = q.calls /\ ninv' = q.ninv
         /\ CASE q.out.tag = "val"  -> /\ Advance(PlainText(q.out.v))
                                       /\ UNCHANGED <<ns, level, exc, evs>>
              [] q.out.tag = "exc"  -> /\ exc' = q.out.e
                                       /\ UNCHANGED <<ctl, ns, level, evs>>
              [] q.out.tag = "tmpl" -> /\ CallEnter(q.out.v)
                                       /\ UNCHANGED exc
    /\ UNCHANGED <<tid, plan, ret, result>>

\* <dtml-var "probe(n)">: an expression receives the value uncalled
RbProbe ==
    /\ AtNode("probe")
    /\ LET q == MdRaw(Node.n) IN
         IF q.out.tag = "exc"
         THEN exc' = q.out.e /\ UNCHANGED <<ctl, calls>>
         ELSE /\ calls' = Append(calls, "p:" \o q.out.v.id)
              /\ Advance(<<>>) /\ UNCHANGED exc
    /\ UNCHANGED <<tid, plan, ns, level, ninv, ret, evs, result>>

\* <dtml-var expr="...">: the value of an expression is inserted
RbVarX ==
    /\ AtNode("vx")
    /\ LET q == EvalRef(Node.c) IN
         /\ calls' = q.calls /\ ninv' = q.ninv
         /\ IF q.out.tag = "exc"
            THEN exc' = q.out.e /\ UNCHANGED ctl
            ELSE Advance(PlainText(q.out.v)) /\ UNCHANGED exc
    /\ UNCHANGED <<tid, plan, ns, level, ret, evs, result>>

\* <dtml-return ref>
RbReturn ==
    /\ AtNode("return")
    /\ LET q == EvalRef(Node.c) IN
         /\ calls' = q.calls /\ ninv' = q.ninv
         /\ exc' = IF q.out.tag = "exc" THEN q.out.e ELSE Returning(q.out.v)
    /\ UNCHANGED <<tid, plan, ctl, ns, level, ret, evs, result>>

---------------------------------------------------------------------------
(* if / elif / else, unless, call: the ('i', c1, b1, ..., else) simple form *)

RbIf ==
    /\ AtNode("if")
    /\ ns' = Append(ns, Frame("cache", EmptyFn))
    /\ evs' = Append(evs, PushEv("cache", Len(ns) + 1))
    /\ ctl' = Append(ctl, [k |-> "if", node |-> Node, i |-> 1, st |-> "cond", base |-> Len(ns), hv |-> FALSE, cv |-> <<>>])
    /\ UNCHANGED <<tid, plan, level, calls, ninv, exc, ret, result>>

SetCache(n, v) ==
    LET f == ns[Len(ns)] IN
    [ns EXCEPT ![Len(ns)] = [f EXCEPT !.b = [x \in DOMAIN f.b \cup {n} |-> IF x = n THEN v ELSE f.b[x]]]]

IfCond ==
    /\ Running /\ Top.k = "if" /\ Top.st = "cond"
    /\ ~(~Top.hv /\ Top.i <= Len(Top.node.cs) /\ Top.node.cs[Top.i].c.k = "name" /\ MdGet(Top.node.cs[Top.i].c.n).out.tag = "tmpl")
    /\ LET nd == Top.node IN
       IF Top.i > Len(nd.cs)
       THEN \* no condition held: the else body, if any
            /\ IF nd.he /\ nd.e # <<>>
               THEN ctl' = Append(SetTop(ctl, [Top EXCEPT !.st = "body"]), Rb(nd.e)) /\ UNCHANGED <<ns, evs, ret>>
               ELSE Complete(<<>>)
            /\ UNCHANGED <<calls, ninv, exc>>
       ELSE LET c == nd.cs[Top.i].c
                q == IF Top.hv THEN Quiet([tag |-> "val", v |-> [k |-> "text", id |-> "text", ps |-> Top.cv]]) ELSE EvalRef(c)
                undefined == c.k = "name" /\ q.out.tag = "exc" /\ q.out.e.k = "raise"
                             /\ q.out.e.cls = "KeyError" /\ q.out.e.msg = c.n
                isexc == q.out.tag = "exc" /\ ~undefined
                truth == IF undefined THEN FALSE ELSE IF isexc THEN FALSE ELSE Truth(q.out.v)
                ns0 == IF c.k = "name" /\ q.out.tag = "val" THEN SetCache(c.n, q.out.v) ELSE ns
                \* a method of a client object that, when it runs, gives its object a new attribute (the "load on first use"
                \* idiom): from then on the name is defined for every later search of that object, in this rendering too
                fi == IF c.k = "name" THEN Find(c.n) ELSE 0
                setter == fi > 0 /\ q.out.tag = "val" /\ ValIn(ns[fi], c.n).k = "fn" /\ "sets" \in DOMAIN ValIn(ns[fi], c.n)
                ns1 == IF setter
                       THEN LET sv == ValIn(ns[fi], c.n).sets
                                f == ns0[fi] IN
                            [ns0 EXCEPT ![fi] = [f EXCEPT !.b = [x \in DOMAIN f.b \cup {sv.n} |-> IF x = sv.n THEN sv.v ELSE f.b[x]]]]
                       ELSE ns0
            IN /\ calls' = q.calls /\ ninv' = q.ninv
               /\ IF isexc
                  THEN exc' = q.out.e /\ UNCHANGED <<ctl, ns, evs, ret>>
                  ELSE /\ UNCHANGED exc
                       /\ IF truth
                          THEN IF nd.cs[Top.i].b # <<>>
                               THEN /\ ns' = ns1 /\ UNCHANGED <<evs, ret>>
                                    /\ ctl' = Append(SetTop(ctl, [Top EXCEPT !.st = "body"]),
                                                     RbAt(nd.cs[Top.i].b, Len(ns)))
                               ELSE IF setter
                                    THEN \* (the object has changed before the conditional is left: two steps, so that leaving
                                         \* the conditional is still seen to restore the namespace it found)
                                         /\ ns' = ns1 /\ UNCHANGED <<evs, ret>>
                                         /\ ctl' = SetTop(ctl, [Top EXCEPT !.st = "fin"])
                                    ELSE Complete(<<>>)
                          ELSE /\ ns' = ns1 /\ UNCHANGED <<evs, ret>>
                               /\ ctl' = SetTop(ctl, [Top EXCEPT !.i = Top.i + 1, !.hv = FALSE])
    /\ UNCHANGED <<tid, plan, level, result>>

\* a named condition bound to a document template: the template is rendered (on the current namespace, like everywhere) and
\* what it gives is the condition's value
IfCondTmpl ==
    /\ Running /\ Top.k = "if" /\ Top.st = "cond" /\ ~Top.hv /\ Top.i <= Len(Top.node.cs)
    /\ Top.node.cs[Top.i].c.k = "name" /\ MdGet(Top.node.cs[Top.i].c.n).out.tag = "tmpl"
    /\ LET q == MdGet(Top.node.cs[Top.i].c.n)
           t == q.out.v
           fs == NonEmpty(<<Frame("map", t.gl)>>) IN
       /\ calls' = q.calls /\ ninv' = q.ninv
       /\ ns' = ns \o fs
       /\ evs' = evs \o PushEvs(fs, 1, Len(ns))
       /\ level' = level + 1
       /\ ctl' = SetTop(ctl, [Top EXCEPT !.st = "condcall"])
                  \o <<[k |-> "call", base |-> Len(ns), lvl |-> level, top |-> FALSE], RbAt(t.prog, Len(ns) + Len(fs))>>
    /\ UNCHANGED <<tid, plan, exc, ret, result>>

IfFin ==
    /\ Running /\ Top.k = "if" /\ Top.st = "fin"
    /\ Complete(<<>>)
    /\ UNCHANGED <<tid, plan, level, calls, ninv, exc, result>>

\* owner frames whose only duty on return is "pop my frames, append the text"
SimpleRet ==
    /\ ctl # <<>> /\ ret.f /\ exc.k = "none"
    /\ Top.k \in {"if", "let", "with"} /\ Top.st = "body"
    /\ Complete(ret.v)
    /\ UNCHANGED <<tid, plan, level, calls, ninv, exc, result>>

\* ... and on an exception "pop my frames" (their try/finally)
SimpleExc ==
    /\ ctl # <<>> /\ exc.k # "none"
    /\ Top.k \in {"if", "let", "with", "in"}
    /\ Abandon(exc)
    /\ UNCHANGED <<tid, plan, level, calls, ninv, result>>

---------------------------------------------------------------------------
(* let *)

RbLet ==
    /\ AtNode("let")
    /\ ns' = Append(ns, Frame("map", EmptyFn))
    /\ evs' = Append(evs, PushEv("map", Len(ns) + 1))
    /\ ctl' = Append(ctl, [k |-> "let", node |-> Node, i |-> 1, st |-> "bind", base |-> Len(ns)])
    /\ UNCHANGED <<tid, plan, level, calls, ninv, exc, ret, result>>

LetBind ==
    /\ Running /\ Top.k = "let" /\ Top.st = "bind"
    /\ LET nd == Top.node IN
       IF Top.i > Len(nd.bs)
       THEN /\ ctl' = Append(SetTop(ctl, [Top EXCEPT !.st = "body"]), Rb(nd.b))
            /\ UNCHANGED <<ns, calls, ninv, exc>>
       ELSE LET q == EvalRef(nd.bs[Top.i].c) IN
            /\ calls' = q.calls /\ ninv' = q.ninv
            /\ IF q.out.tag = "exc"
               THEN exc' = q.out.e /\ UNCHANGED <<ctl, ns>>
               ELSE /\ ns' = SetCache(nd.bs[Top.i].n, q.out.v)
                    /\ ctl' = SetTop(ctl, [Top EXCEPT !.i = Top.i + 1])
                    /\ UNCHANGED exc
    /\ UNCHANGED <<tid, plan, level, ret, evs, result>>

---------------------------------------------------------------------------
(* with *)

RbWith ==
    /\ AtNode("with")
    /\ LET q == EvalRef(Node.c) IN
         /\ calls' = q.calls /\ ninv' = q.ninv
         /\ IF q.out.tag = "exc"
            THEN exc' = q.out.e /\ UNCHANGED <<ctl, ns, evs>>
            ELSE LET f0 == IF IsNone(q.out.v)
                           THEN Frame(IF Node.mapping THEN "none" ELSE "inst", EmptyFn)
                           ELSE Frame(IF Node.mapping THEN (IF q.out.v.k = "cmap" THEN "cmap" ELSE "map") ELSE "inst", q.out.v.a)
                     f  == [f0 EXCEPT !.bar = Node.only] IN
                 /\ ns' = Append(ns, f)
                 /\ evs' = IF Node.only THEN evs ELSE Append(evs, PushEv(f.kind, Len(ns) + 1))
                 /\ ctl' = ctl \o <<[k |-> "with", node |-> Node, st |-> "body", base |-> Len(ns)],
                                    RbAt(Node.b, Len(ns) + 1)>>
                 /\ UNCHANGED exc
    /\ UNCHANGED <<tid, plan, level, ret, result>>

---------------------------------------------------------------------------
(* in (renderwob) *)

\* (pre: FALSE, or the prefix the tag was given -- a prefixed name is answered by the tag carrying that very prefix)
SvFrame(items, idx, pre, first, last) ==
    [kind |-> "sv", b |-> EmptyFn, bar |-> FALSE,
     x |-> [items |-> items, idx |-> idx, n |-> Len(items), pre |-> (pre # ""), pn |-> pre, first |-> first, last |-> last]]

\* a batched tag (start=S size=Z as literals, no end, orphan and overlap 0) displays the window S .. min(S+Z-1, n), a start
\* beyond the sequence is clamped to its last element (DT_InSV.opt; the full window arithmetic is DTBatch's)
WinFirst(nd, n) == IF nd.bz = 0 THEN 0 ELSE (IF nd.bs > n THEN n ELSE nd.bs) - 1
WinLast(nd, n)  == IF nd.bz = 0 THEN n - 1
                   ELSE LET s == IF nd.bs > n THEN n ELSE nd.bs
                            e == s + nd.bz - 1 IN (IF e > n THEN n ELSE e) - 1

Reverse(s) == [i \in 1..Len(s) |-> s[Len(s) + 1 - i]]

\* sort=a (a = "": by the element itself, or by the key of a (key, value) pair): a stable sort on
\* the rank `o` the harness gives to every value that is used as a sort key (DTSort.tla has the
\* full sort machine; here only what C10 needs to place the sequence variables)
Rank(e, a) == IF a = "" THEN (IF e.k = "pair" THEN e.key.o ELSE e.o) ELSE AttrOf(e, a).o

RECURSIVE InsertSorted(_, _, _)
InsertSorted(s, e, a) ==
    IF s = <<>> THEN <<e>>
    ELSE IF Rank(Head(s), a) <= Rank(e, a) THEN <<Head(s)>> \o InsertSorted(Tail(s), e, a)
    ELSE <<e>> \o s

RECURSIVE SortItems(_, _)
SortItems(s, a) == IF s = <<>> THEN <<>>
                   ELSE InsertSorted(SortItems(SubSeq(s, 1, Len(s) - 1), a), s[Len(s)], a)

RbIn ==
    /\ AtNode("in")
    /\ LET q == EvalRef(Node.c) IN
         /\ calls' = q.calls /\ ninv' = q.ninv
         /\ IF q.out.tag = "exc"
            THEN exc' = q.out.e /\ UNCHANGED <<ctl, ns, evs>>
            ELSE LET items0 == q.out.v.items
                     items1 == IF Node.sorted /\ items0 # <<>> THEN SortItems(items0, Node.sortkey) ELSE items0
                     items  == IF Node.reverse THEN Reverse(items1) ELSE items1 IN
                 /\ IF items0 # <<>> /\ Node.prepfail THEN exc' = Raised(Node.pfcls, "nope") ELSE UNCHANGED exc
                 /\ IF items0 # <<>> /\ Node.prepfail
                    THEN \* the preparation of the loop (sort_expr, reverse_expr, batch parameters) fails after the sequence was
                         \* found non-empty: nothing has been pushed yet
                         UNCHANGED <<ctl, ns, evs>>
                    ELSE IF items = <<>>
                    THEN \* else block, rendered without any push
                         /\ ctl' = ctl \o <<[k |-> "in", node |-> Node, st |-> "else", base |-> Len(ns),
                                             items |-> <<>>, idx |-> 0, acc |-> <<>>, last |-> -1, sb |-> Len(ns)]>>
                                       \o <<RbAt(IF Node.he THEN Node.e ELSE <<>>, Len(ns))>>
                         /\ UNCHANGED <<ns, evs>>
                    ELSE LET cache == IF Node.c.k = "name"
                                      THEN <<Frame("cache", (Node.c.n :> [q.out.v EXCEPT !.items = items0]))>> ELSE <<>>
                             fs == cache \o <<SvFrame(items, WinFirst(Node, Len(items)), Node.pn, WinFirst(Node, Len(items)),
                                                       WinLast(Node, Len(items)))>> IN
                         /\ ns' = ns \o fs
                         /\ evs' = evs \o PushEvs(fs, 1, Len(ns))
                         /\ ctl' = Append(ctl, [k |-> "in", node |-> Node, st |-> "item", base |-> Len(ns),
                                                items |-> items, idx |-> WinFirst(Node, Len(items)), acc |-> <<>>,
                                                last |-> WinLast(Node, Len(items)), sb |-> Len(ns) + Len(fs)])
    /\ UNCHANGED <<tid, plan, level, ret, result>>

\* push rule for one element
ItemFrames(nd, e) ==
    LET c == ItemOf(e) IN
    IF nd.nopush THEN <<>>
    ELSE IF nd.mapping THEN (IF IsNone(c) THEN <<Frame("none", EmptyFn)>> ELSE <<Frame("map", c.a)>>)
    \* strings are not pushed -- the type test is made on the element before a (key, value)
    \* pair is split, so the string of a pair is pushed (as an InstanceDict without useful names)
    ELSE IF c.k = "plain" /\ "num" \notin DOMAIN c /\ "none" \notin DOMAIN c /\ e.k # "pair" THEN <<>>
    ELSE IF c.k = "plain" THEN <<Frame("inst", EmptyFn)>>           \* numbers, None: InstanceDict(int), InstanceDict(None)
    ELSE <<Frame("inst", c.a)>>

InItem ==
    /\ Running /\ Top.k = "in" /\ Top.st = "item"
    /\ LET o == Top
           sv == ns[o.sb] IN
       IF o.idx > o.last
       THEN Complete(o.acc)
       ELSE LET fs == ItemFrames(o.node, o.items[o.idx + 1])
                ns1 == [ns EXCEPT ![o.sb] = [sv EXCEPT !.x.idx = o.idx]] IN
            /\ ns' = ns1 \o fs
            /\ evs' = evs \o PushEvs(fs, 1, Len(ns))
            /\ ctl' = Append(SetTop(ctl, [o EXCEPT !.st = "body"]), RbAt(o.node.b, Len(ns) + Len(fs)))
            /\ ret' = ret
    /\ UNCHANGED <<tid, plan, level, calls, ninv, exc, result>>

InRet ==
    /\ ctl # <<>> /\ ret.f /\ exc.k = "none" /\ Top.k = "in"
    /\ IF Top.st = "else"
       THEN Complete(ret.v)
       ELSE \* pop the element's frame, next element
            /\ ns' = SubSeq(ns, 1, Top.sb)
            /\ evs' = evs \o PopEvs(Len(ns), Top.sb)
            /\ ctl' = SetTop(ctl, [Top EXCEPT !.st = "item", !.idx = Top.idx + 1, !.acc = Top.acc \o ret.v])
            /\ ret' = NoRet
    /\ UNCHANGED <<tid, plan, level, calls, ninv, exc, result>>

---------------------------------------------------------------------------
(* try / except / else *)

RbTry ==
    /\ AtNode("try")
    /\ ctl' = ctl \o <<[k |-> "try", node |-> Node, st |-> "body", base |-> Len(ns), res |-> <<>>],
                       Rb(Node.b)>>
    /\ UNCHANGED <<tid, plan, ns, level, calls, ninv, exc, ret, evs, result>>

Matches(cls, name) == name = NameOf(cls) \/ name = "" \/ name \in Ancestors(cls)

HandlerIndex(hs, cls) ==
    LET m == {i \in 1..Len(hs) : Matches(cls, hs[i].n)} IN
    IF m = {} THEN 0 ELSE CHOOSE i \in m : \A j \in m : i <= j

TryRet ==
    /\ ctl # <<>> /\ ret.f /\ exc.k = "none" /\ Top.k = "try"
    /\ CASE Top.st = "body" ->
              IF Top.node.he
              THEN /\ ctl' = Append(SetTop(ctl, [Top EXCEPT !.st = "else", !.res = ret.v]), Rb(Top.node.e))
                   /\ ret' = NoRet /\ UNCHANGED <<ns, evs>>
              ELSE Complete(ret.v)
         [] Top.st = "else"    -> Complete(Top.res \o ret.v)
         [] Top.st = "handler" -> Complete(ret.v)
    /\ UNCHANGED <<tid, plan, level, calls, ninv, exc, result>>

TryExc ==
    /\ ctl # <<>> /\ exc.k # "none" /\ Top.k = "try"
    /\ LET h == IF exc.k = "raise" /\ Top.st = "body" /\ Catchable(exc.cls) THEN HandlerIndex(Top.node.hs, exc.cls) ELSE 0 IN
       IF h = 0
       THEN Abandon(exc)          \* not caught here (DTReturn, no handler, or raised in handler/else)
       ELSE LET f == Frame("inst", ("error_type" :> Str(NameOf(exc.cls))) @@ ("error_value" :> Str(exc.msg))
                                   @@ ("error_tb" :> Str("tb"))) IN
            /\ ns' = Append(SubSeq(ns, 1, Top.base), f)
            /\ evs' = evs \o PopEvs(Len(ns), Top.base) \o <<PushEv("inst", Top.base + 1)>>
            /\ ctl' = Append(SetTop(ctl, [Top EXCEPT !.st = "handler"]),
                             RbAt(Top.node.hs[h].b, Top.base + 1))
            /\ exc' = NoExc /\ ret' = NoRet
    /\ UNCHANGED <<tid, plan, level, calls, ninv, result>>

---------------------------------------------------------------------------
(* try / finally *)

RbTryF ==
    /\ AtNode("tryf")
    /\ ctl' = ctl \o <<[k |-> "tryf", node |-> Node, st |-> "body", base |-> Len(ns), res |-> <<>>,
                        pend |-> NoExc], Rb(Node.b)>>
    /\ UNCHANGED <<tid, plan, ns, level, calls, ninv, exc, ret, evs, result>>

TryFRet ==
    /\ ctl # <<>> /\ ret.f /\ exc.k = "none" /\ Top.k = "tryf"
    /\ IF Top.st = "body"
       THEN /\ ctl' = Append(SetTop(ctl, [Top EXCEPT !.st = "fin", !.res = ret.v]), Rb(Top.node.f))
            /\ ret' = NoRet /\ UNCHANGED <<ns, evs, exc>>
       ELSE IF Top.pend.k = "none"
            THEN Complete(Top.res \o ret.v) /\ UNCHANGED exc
            ELSE Abandon(Top.pend)           \* the pending exception / return continues
    /\ UNCHANGED <<tid, plan, level, calls, ninv, result>>

TryFExc ==
    /\ ctl # <<>> /\ exc.k # "none" /\ Top.k = "tryf"
    /\ IF Top.st = "body"
       THEN \* the finally body is rendered with the exception pending
            /\ ns' = SubSeq(ns, 1, Top.base)
            /\ evs' = evs \o PopEvs(Len(ns), Top.base)
            /\ ctl' = Append(SetTop(ctl, [Top EXCEPT !.st = "fin", !.pend = exc]),
                             RbAt(Top.node.f, Top.base))
            /\ exc' = NoExc /\ ret' = NoRet
       ELSE Abandon(exc)                     \* raised inside finally: replaces the pending one
    /\ UNCHANGED <<tid, plan, level, calls, ninv, result>>

---------------------------------------------------------------------------
(* raise *)

\* the class dtml-raise raises: the named one, or -- expr form -- what the expression evaluates to (here: a name bound to an
\* exception class in the namespace); when the expression cannot be evaluated the text is tried as a well-known class name
KnownExc == {"KeyError", "IndexError", "LookupError", "ValueError", "ZeroDivisionError", "NameError", "Exception", "OSError",
             "TypeError", "AttributeError", "RuntimeError", "Redirect", "NotFound"}
RaisedClass(nd) ==
    IF ~nd.x THEN nd.cls
    ELSE LET i == Find(nd.cls) IN
         IF i > 0 /\ ValIn(ns[i], nd.cls).k = "exccls" THEN ValIn(ns[i], nd.cls).id
         ELSE IF nd.cls \in KnownExc THEN nd.cls ELSE "InvalidErrorTypeExpression"

RbRaise ==
    /\ AtNode("raise")
    /\ ctl' = ctl \o <<[k |-> "raise", node |-> [Node EXCEPT !.cls = RaisedClass(Node)], st |-> "body", base |-> Len(ns)], Rb(Node.b)>>
    /\ UNCHANGED <<tid, plan, ns, level, calls, ninv, exc, ret, evs, result>>

Join(s) == s      \* the message is the sequence of pieces; the harness joins

RaiseRet ==
    /\ ctl # <<>> /\ ret.f /\ exc.k = "none" /\ Top.k = "raise"
    /\ Abandon(Raised(Top.node.cls, ret.v))
    /\ UNCHANGED <<tid, plan, level, calls, ninv, result>>

RaiseExc ==
    /\ ctl # <<>> /\ exc.k # "none" /\ Top.k = "raise"
    /\ IF exc.k = "raise" /\ Catchable(exc.cls)
       THEN Abandon(Raised(Top.node.cls, <<"Invalid Error Value">>))
       ELSE Abandon(exc)                      \* dtml-return is not an error value
    /\ UNCHANGED <<tid, plan, level, calls, ninv, result>>

---------------------------------------------------------------------------

Next ==
    \/ CallRet \/ CallExc \/ RbDone \/ RbUnwind \/ RbText \/ RbComment \/ RbVar \/ RbVarX \/ RbProbe \/ RbReturn
    \/ RbIf \/ IfCond \/ IfCondTmpl \/ IfFin \/ SimpleRet \/ SimpleExc \/ RbLet \/ LetBind \/ RbWith \/ RbIn \/ InItem \/ InRet
    \/ RbTry \/ TryRet \/ TryExc \/ RbTryF \/ TryFRet \/ TryFExc \/ RbRaise \/ RaiseRet \/ RaiseExc

Spec == Init /\ [][Next]_vars

---------------------------------------------------------------------------
(* properties of the machine *)

Done == ctl = <<>>

\* C08: every activation record sits on a namespace at least as deep as it found it
StackDiscipline == \A i \in 1..Len(ctl) : Len(ns) >= ctl[i].base

\* C08: when an activation record is removed, the namespace is exactly what it found
ExitRestores == [][ (Len(ctl') < Len(ctl) /\ Top.k # "rb") => ns' = SubSeq(ns, 1, Top.base) ]_vars

\* C08: at the end of the outermost call nothing is left and the level is back
CallBalanced == Done => (Len(ns) = BotCount(Case.src) /\ level = 0 /\ result.k # "pending")

\* the namespace log is balanced
RECURSIVE Depth(_, _)
Depth(l, i) == IF i = 0 THEN 0 ELSE l[i][3]
EvsBalanced == Done => (evs = <<>> \/ evs[Len(evs)][3] = BotCount(Case.src))

\* no exception and no return register survive the end
Quiescent == Done => (exc.k = "none" /\ ~ret.f)

\* progress: the machine never gets stuck before the end (deadlock check is off because Done is terminal)
NotStuck == ~Done => ENABLED Next

---------------------------------------------------------------------------
(* export of terminal states for the replay into the real code *)

PlanT == [i \in 1..Cardinality(DOMAIN plan) |->
            LET k == CHOOSE k \in DOMAIN plan :
                       Cardinality({j \in DOMAIN plan : j < k}) = i - 1
            IN <<k, plan[k]>>]

Export == Done => PrintT(ToJson([tid |-> tid, plan |-> PlanT, result |-> result,
                                 calls |-> calls, evs |-> evs, ninv |-> ninv,
                                 depth |-> Len(ns), level |-> level]))
=============================================================================
