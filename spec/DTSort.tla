------------------------------- MODULE DTSort -------------------------------
(***************************************************************************)
(* Sorting in dtml-in: DT_In.InClass.sort_sequence, make_sortfunctions,    *)
(* SortBy, reverse_sequence.                                               *)
(*                                                                         *)
(* Elements are [id, k] with k a sequence of keys; a key is                *)
(*   [p |-> "val", o |-> rank under cmp, f |-> rank under case folding]    *)
(*   [p |-> "none"] (the attribute is None) or [p |-> "missing"].          *)
(* A sort specification is a sequence of [a |-> index of the key,          *)
(*   fn |-> "" (no function: plain key sort) | "cmp" | "nocase" | "locale" *)
(*          | "locale_nocase" | "user" (a function from the namespace),    *)
(*   dir |-> 1 | -1].  a = 0 sorts by the element itself (sort="").        *)
(*                                                                         *)
(* Actions: Decorate (the (key, client) list), Insert (one element of the  *)
(* stable sort), Undecorate, Reverse.  The clauses of C13 are operators    *)
(* over (input, spec, order) used on the machine's result and, in          *)
(* ObsSort, on orders recorded from the real code.                         *)
(***************************************************************************)
EXTENDS Integers, Sequences, FiniteSets, TLC, Json

CONSTANTS Lists,     \* set of sequences of elements
          Specs,     \* set of sort specifications
          Reverses   \* subset of BOOLEAN

VARIABLES inp, pc, dec, sorted, i, out

vars == <<inp, pc, dec, sorted, i, out>>

Present(k) == k.p = "val"

\* the decorated key of one sort field: None / missing -> the _Smallest placeholder
KeyOf(e, sp) == IF sp.a = 0 THEN e.it ELSE e.k[sp.a]

\* the rank of a present key under a comparison function: cmp and the locale functions (C locale) order by value, the
\* nocase functions by the case-folded value, a function found in the namespace ("user") by whatever order it defines
RankOf(x, fn) == IF fn \in {"nocase", "locale_nocase"} THEN x.f ELSE IF fn = "user" THEN x.u ELSE x.o

\* three-way comparison of two keys under one sort field, as SortBy does with cmp / nocase:
\* the placeholder compares "less" than anything, including another placeholder
Cmp3(x, y, fn) ==
    IF ~Present(x) THEN -1
    ELSE IF ~Present(y) THEN 1
    ELSE LET a == RankOf(x, fn)
             b == RankOf(y, fn)
         IN IF a < b THEN -1 ELSE IF a > b THEN 1 ELSE 0

RECURSIVE CmpSpec(_, _, _, _)
CmpSpec(e1, e2, spec, j) ==
    IF j > Len(spec) THEN 0
    ELSE LET c == Cmp3(KeyOf(e1, spec[j]), KeyOf(e2, spec[j]), spec[j].fn) * spec[j].dir IN
         IF c # 0 THEN c ELSE CmpSpec(e1, e2, spec, j + 1)

\* plain key sort (no function in the spec): placeholders equal among themselves
Cmp3Plain(x, y) ==
    IF ~Present(x) /\ ~Present(y) THEN 0
    ELSE IF ~Present(x) THEN -1 ELSE IF ~Present(y) THEN 1
    ELSE IF x.o < y.o THEN -1 ELSE IF x.o > y.o THEN 1 ELSE 0

RECURSIVE CmpPlain(_, _, _, _)
CmpPlain(e1, e2, spec, j) ==
    IF j > Len(spec) THEN 0
    ELSE LET c == Cmp3Plain(KeyOf(e1, spec[j]), KeyOf(e2, spec[j])) IN
         IF c # 0 THEN c ELSE CmpPlain(e1, e2, spec, j + 1)

NeedFunc(spec) == \E j \in 1..Len(spec) : spec[j].fn # ""
Compare(e1, e2, spec) == IF NeedFunc(spec) THEN CmpSpec(e1, e2, spec, 1) ELSE CmpPlain(e1, e2, spec, 1)

\* stable insertion: after every element that does not compare greater
RECURSIVE InsertInto(_, _, _)
InsertInto(s, e, spec) ==
    IF s = <<>> THEN <<e>>
    ELSE IF Compare(Head(s), e, spec) <= 0 THEN <<Head(s)>> \o InsertInto(Tail(s), e, spec)
    ELSE <<e>> \o s

Rev(s) == [j \in 1..Len(s) |-> s[Len(s) + 1 - j]]

Inputs == [l : Lists, spec : Specs, rev : Reverses]

Init == /\ inp \in Inputs
        /\ pc = "decorate" /\ dec = <<>> /\ sorted = <<>> /\ i = 1 /\ out = <<>>

Decorate == /\ pc = "decorate"
            /\ dec' = inp.l
            /\ pc' = IF inp.spec = <<>> THEN "reverse" ELSE "sort"
            /\ sorted' = IF inp.spec = <<>> THEN inp.l ELSE <<>>
            /\ UNCHANGED <<inp, i, out>>

Insert == /\ pc = "sort"
          /\ IF i > Len(dec)
             THEN pc' = "reverse" /\ UNCHANGED <<sorted, i>>
             ELSE /\ sorted' = InsertInto(sorted, dec[i], inp.spec)
                  /\ i' = i + 1 /\ UNCHANGED pc
          /\ UNCHANGED <<inp, dec, out>>

Reverse == /\ pc = "reverse"
           /\ out' = IF inp.rev THEN Rev(sorted) ELSE sorted
           /\ pc' = "done"
           /\ UNCHANGED <<inp, dec, sorted, i>>

Next == Decorate \/ Insert \/ Reverse
Spec == Init /\ [][Next]_vars

---------------------------------------------------------------------------
(* C13: the clauses, over the input list l, the spec and an order given as a sequence of ids *)

Ids(s) == [j \in 1..Len(s) |-> s[j].id]
ById(l, id) == CHOOSE e \in {l[j] : j \in 1..Len(l)} : e.id = id
PosIn(order, id) == CHOOSE j \in 1..Len(order) : order[j] = id
OrigPos(l, id) == CHOOSE j \in 1..Len(l) : l[j].id = id

C_Permutation(l, order) ==
    /\ Len(order) = Len(l)
    /\ {order[j] : j \in 1..Len(order)} = {l[j].id : j \in 1..Len(l)}

\* the first sort field on which two elements differ "decides" them; if that key is absent on
\* both sides nothing is promised about their mutual order
RECURSIVE Decider(_, _, _, _)
Decider(e1, e2, spec, j) ==
    IF j > Len(spec) THEN 0
    ELSE LET x == KeyOf(e1, spec[j])
             y == KeyOf(e2, spec[j]) IN
         IF ~Present(x) /\ ~Present(y) THEN -1            \* unspecified from here on
         ELSE IF ~Present(x) \/ ~Present(y) THEN j
         ELSE IF Cmp3(x, y, IF spec[j].fn = "" THEN "cmp" ELSE spec[j].fn) # 0 THEN j
         ELSE Decider(e1, e2, spec, j + 1)

\* declared order of two elements: -1 first before second, 1 after, 0 equal (stability decides),
\* 2 unspecified
Declared(e1, e2, spec) ==
    LET d == Decider(e1, e2, spec, 1) IN
    IF d = -1 THEN 2
    ELSE IF d = 0 THEN 0
    ELSE LET x == KeyOf(e1, spec[d])
             y == KeyOf(e2, spec[d])
             raw == IF ~Present(x) THEN -1 ELSE IF ~Present(y) THEN 1
                    ELSE Cmp3(x, y, IF spec[d].fn = "" THEN "cmp" ELSE spec[d].fn)
         IN raw * spec[d].dir

\* the order before `reverse` is applied
Unrev(order, rev) == IF rev THEN Rev(order) ELSE order

C_Ordered(l, spec, rev, order) ==
    C_Permutation(l, order) =>
    LET o == Unrev(order, rev) IN
    \A a \in 1..Len(o) : \A b \in a + 1..Len(o) :
        Declared(ById(l, o[a]), ById(l, o[b]), spec) \in {-1, 0, 2}

C_Stable(l, spec, rev, order) ==
    C_Permutation(l, order) =>
    LET o == Unrev(order, rev) IN
    \A a \in 1..Len(o) : \A b \in a + 1..Len(o) :
        Declared(ById(l, o[a]), ById(l, o[b]), spec) = 0 => OrigPos(l, o[a]) < OrigPos(l, o[b])

SortClauses(l, spec, rev, order) ==
    [Permutation |-> C_Permutation(l, order), Ordered |-> C_Ordered(l, spec, rev, order),
     Stable |-> C_Stable(l, spec, rev, order)]

Failed(cl) == {k \in DOMAIN cl : ~cl[k]}

DistinctIds == \A j, k \in 1..Len(inp.l) : j # k => inp.l[j].id # inp.l[k].id

InvPermutation == pc = "done" => C_Permutation(inp.l, Ids(out))
InvOrdered     == pc = "done" => C_Ordered(inp.l, inp.spec, inp.rev, Ids(out))
InvStable      == pc = "done" => C_Stable(inp.l, inp.spec, inp.rev, Ids(out))
\* reverse shows the exact reverse of what would otherwise be shown
InvReverse     == pc = "done" => (inp.rev => Ids(out) = Rev(Ids(sorted)))
\* the input is never touched
InvInputKept   == dec = <<>> \/ dec = inp.l

Export == pc = "done" => PrintT(ToJson([l |-> inp.l, spec |-> inp.spec, rev |-> inp.rev, order |-> Ids(out)]))
=============================================================================
