---------------------------- MODULE DTBatchLemmaX ----------------------------
(* TLC: the lemma operators are DTBatch's Opt on the enumerated ranges of the quick tier *)
EXTENDS DTBatch
Lm == INSTANCE DTBatchLemma WITH L <- 0, start <- 0, end <- 0, size <- 0, orphan <- 0, ws <- 0, we <- 0, pc <- ""
SameOpt == \A l \in 1..8, s \in (0 - 1)..10, e \in (0 - 1)..10, z \in (0 - 1)..5, o \in 0..3 :
              LET a == Opt(l, 0, s, e, z, o) IN
              a.s = Lm!LmS(l, s, e, z, o) /\ a.e = Lm!LmE(l, s, e, z, o)
ASSUME SameOpt
=============================================================================
