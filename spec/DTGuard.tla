-------------------------------- MODULE DTGuard --------------------------------
(***************************************************************************)
(* Guard mediation (C05).  A rendering with a recording guard and logging  *)
(* client objects yields a trace of                                        *)
(*   genter(o, a)      the guard is asked for attribute / item a of o      *)
(*   gexit(o, a, r)    it answers r = "allow" | "deny"                     *)
(*   raw(o, a)         the value of a is actually read from o              *)
(* The machine replays the trace: a raw read is *mediated* when it happens *)
(* inside the guard call for the same (o, a), *released* when the guard    *)
(* has allowed (o, a) before (a re-read of a value already handed out),    *)
(* and *unmediated* otherwise.  Property: unmediated = {} and the probed   *)
(* secret is visible in the output only if it was released.                *)
(*                                                                         *)
(* Expect is the table of what each access channel of the language must    *)
(* do with a public / underscore-private / guard-denied attribute.         *)
(***************************************************************************)
EXTENDS Integers, Sequences, FiniteSets, TLC, Json, IOUtils

Traces == JsonDeserialize("traces.json")

VARIABLES tid, l, stack, released, denied, unmediated, granted

vars == <<tid, l, stack, released, denied, unmediated, granted>>

T  == Traces[tid]
Ev == T.ev

Init == /\ tid \in 1..Len(Traces) /\ l = 1
        /\ stack = <<>> /\ released = {} /\ denied = {} /\ unmediated = {} /\ granted = 0

GEnter == /\ l <= Len(Ev) /\ Ev[l].e = "genter"
          /\ stack' = Append(stack, <<Ev[l].o, Ev[l].a>>)
          /\ l' = l + 1 /\ UNCHANGED <<tid, released, denied, unmediated, granted>>

GExit == /\ l <= Len(Ev) /\ Ev[l].e = "gexit"
         /\ stack # <<>> /\ stack[Len(stack)] = <<Ev[l].o, Ev[l].a>>      \* calls are properly nested
         /\ stack' = SubSeq(stack, 1, Len(stack) - 1)
         /\ released' = IF Ev[l].r = "allow" THEN released \cup {<<Ev[l].o, Ev[l].a>>} ELSE released
         /\ denied' = IF Ev[l].r = "deny" THEN denied \cup {<<Ev[l].o, Ev[l].a>>} ELSE denied
         \* how often the guard has granted the probed attribute (a guard may grant it in one context and refuse it in another)
         /\ granted' = IF Ev[l].r = "allow" /\ <<Ev[l].o, Ev[l].a>> = <<T.po, T.pa>> THEN granted + 1 ELSE granted
         /\ l' = l + 1 /\ UNCHANGED <<tid, unmediated>>

Raw == /\ l <= Len(Ev) /\ Ev[l].e = "raw"
       /\ LET x == <<Ev[l].o, Ev[l].a>>
              mediated == stack # <<>> /\ stack[Len(stack)] = x
          IN unmediated' = IF mediated \/ x \in released THEN unmediated ELSE unmediated \cup {x}
       /\ l' = l + 1 /\ UNCHANGED <<tid, stack, released, denied, granted>>

Next == GEnter \/ GExit \/ Raw

Spec == Init /\ [][Next]_vars

---------------------------------------------------------------------------
\* what a channel must do:  kind x attribute class -> observable
\*   "value": the value is shown; "unauthorized": the guard's refusal propagates; "keyerror": the name is
\*   not resolved; "syntaxerror": the expression is rejected; "false": the probe answers no;
\*   "skipped": the element is left out
Expect(kind, cls) ==
    IF cls = "public" THEN (IF kind = "hasattr" THEN "true" ELSE "value")
    ELSE IF cls = "private" THEN
        CASE kind \in {"name", "with", "initem-attr", "subtemplate"} -> "keyerror"
          [] kind = "ifname" -> "value"                       \* an unresolvable name is false: nothing is shown
          [] kind \in {"exprattr", "exprname"} -> "syntaxerror"
          [] kind = "hasattr" -> "false"
          [] OTHER -> "unauthorized"
    ELSE \* denied by the guard
        CASE kind = "hasattr" -> "false"
          [] kind = "initem-skip" -> "skipped"
          [] OTHER -> "unauthorized"
ExpectOK == T.multi \/ T.obs = Expect(T.kind, T.cls)

Done == l = Len(Ev) + 1

\* the guard's answers are honoured: nothing is read raw without mediation
Mediated == Done => unmediated = {}
\* a refused or never requested secret is not visible
ShownOnlyIfReleased == Done /\ T.shown => <<T.po, T.pa>> \in released
NestedCalls == Done => stack = <<>>

\* element channels with several refused elements: no refused element is shown; with skip_unauthorized
\* exactly the allowed elements are shown, in order; without it the refusal propagates
Allowed(n) == SelectSeq([i \in 1..n |-> i - 1], LAMBDA i : i \notin {T.dset[j] : j \in 1..Len(T.dset)})
ItemsOK == ~T.multi \/
           /\ \A j \in 1..Len(T.out_items) : T.out_items[j] \notin {T.dset[i] : i \in 1..Len(T.dset)}
           /\ (T.kind = "initem-skip" \/ T.dset = <<>>) => (T.obs = "items" /\ T.out_items = Allowed(4))
           /\ (T.kind = "initem" /\ T.dset # <<>>) => T.obs = "unauthorized"

\* every wrapper of an object asks the guard for itself: in the counted cases (one insertion per wrapper) the value is shown at
\* most as often as the guard granted it
GrantedOK == ~T.counted \/ T.shown_n <= granted

Verdict == Done => PrintT(ToJson([tid |-> tid, items_ok |-> ItemsOK, granted |-> granted, granted_ok |-> GrantedOK,
                                  unmediated |-> unmediated, released |-> released, denied |-> denied,
                                  shown_ok |-> (T.shown => <<T.po, T.pa>> \in released),
                                  expect |-> Expect(T.kind, T.cls),
                                  expect_ok |-> ExpectOK]))
=============================================================================
