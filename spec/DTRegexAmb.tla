------------------------------ MODULE DTRegexAmb ------------------------------
(***************************************************************************)
(* Ambiguity of the regular expressions the compiler scans with (C06, the  *)
(* time clause).                                                           *)
(*                                                                         *)
(* A backtracking matcher needs time exponential in the input exactly when *)
(* its automaton has *exponential degree of ambiguity*: some state q and   *)
(* some word w with two different paths q -w-> q (then w^n has 2^n paths,  *)
(* all of which are tried when the rest of the input makes the match       *)
(* fail).  Polynomial ambiguity (two loops q -w-> q, q -w-> q', q' -w-> q' *)
(* with q # q') costs polynomial time, which the property allows; it is    *)
(* reported separately.                                                    *)
(*                                                                         *)
(* The automata are extracted from the patterns the package really         *)
(* compiles (harness/regex_nfa.py: epsilon-free, one edge per distinct     *)
(* epsilon path + symbol transition, alphabet of representative            *)
(* characters).  The machine walks the product of an automaton with        *)
(* itself: after a common prefix (phase "pre") it fixes the anchor q and   *)
(* then moves two tokens over the same characters; `div` records that the  *)
(* two paths have used different edges.  Reaching (q, q) with div set is   *)
(* EDA; the words are history variables (hidden from the fingerprint by    *)
(* the VIEW) and are exported as the pump the harness feeds to the real    *)
(* compiler.                                                               *)
(***************************************************************************)
EXTENDS Integers, Sequences, FiniteSets, TLC, Json, IOUtils

Rx == JsonDeserialize("regexes.json")        \* [ [states, start, edges: [ [id, f, t, cs] ], ...] ]

VARIABLES rx, phase, q, p1, p2, div, pre, word

vars == <<rx, phase, q, p1, p2, div, pre, word>>
View == <<rx, phase, q, p1, p2, div>>

A == Rx[rx]
Edges == {A.edges[i] : i \in 1..Len(A.edges)}
From(p) == {e \in Edges : e.f = p}
Chars(e) == {e.cs[i] : i \in 1..Len(e.cs)}

Init == /\ rx \in 1..Len(Rx)
        /\ phase = "pre" /\ q = 0 /\ p1 = Rx[rx].start /\ p2 = Rx[rx].start
        /\ div = FALSE /\ pre = <<>> /\ word = <<>>

\* the common prefix: one path from the start state
StepPre == /\ phase = "pre"
           /\ \E e \in From(p1) : \E c \in Chars(e) :
                /\ p1' = e.t /\ p2' = e.t /\ pre' = Append(pre, c)
           /\ UNCHANGED <<rx, phase, q, div, word>>

\* the state reached becomes the anchor of the loop
Anchor == /\ phase = "pre"
          /\ phase' = "loop" /\ q' = p1
          /\ UNCHANGED <<rx, p1, p2, div, pre, word>>

Found == phase = "loop" /\ div /\ p1 = q /\ p2 = q

\* two tokens read the same character; they may use the same edge or different ones
StepLoop == /\ phase = "loop" /\ ~Found
            /\ \E e1 \in From(p1), e2 \in From(p2) : \E c \in Chars(e1) \cap Chars(e2) :
                 /\ p1' = e1.t /\ p2' = e2.t
                 /\ div' = (div \/ e1.id # e2.id)
                 /\ word' = Append(word, c)
            /\ UNCHANGED <<rx, phase, q, pre>>

Next == StepPre \/ Anchor \/ StepLoop

Spec == Init /\ [][Next]_vars

---------------------------------------------------------------------------
TypeOK == /\ phase \in {"pre", "loop"} /\ div \in BOOLEAN
          /\ p1 \in 1..A.states /\ p2 \in 1..A.states /\ q \in 0..A.states

\* the two tokens have read the same word (by construction) and, while not diverged, sit on the same state
Together == ~div => p1 = p2

\* every exponentially ambiguous loop is exported with its witness:  prefix, pump
Export == Found => PrintT(ToJson([rx |-> rx, q |-> q, pre |-> pre, pump |-> word]))

\* used as an invariant by the self-test configuration only: the patterns given there are known to be unambiguous
NoEDA == ~Found
=============================================================================
