-------------------------------- MODULE DTScan --------------------------------
(***************************************************************************)
(* Character-level tag recognisers of DocumentTemplate, transcribed from   *)
(* the code (one operator per regular expression / scanning loop):         *)
(*   DT_HTML.dtml_re_class.search   -> SearchH  (SSI <!--#..-->, <dtml-..>,*)
(*                                     </dtml-..>, &dtml-..; / &dtml.m-..;)*)
(*   DT_String.String.tagre         -> SearchE  (%(name args)fmt)          *)
(*   DT_String.String.skip_eol      -> SkipEol                             *)
(*   str.strip                      -> Strip                               *)
(* Text is a sequence of code points.  Offsets are Python offsets          *)
(* (0-based, half-open slices); lim is the length of the (possibly         *)
(* truncated: parse(text[:l_], ..)) text being scanned.                    *)
(***************************************************************************)
EXTENDS Integers, Sequences, FiniteSets

At(t, p)    == t[p + 1]
Sl(t, a, b) == SubSeq(t, a + 1, b)              \* t[a:b]

\* character classes
IsLowWs(c)  == c <= 32                          \* the regex class [\000- ]
IsAlpha(c)  == (c >= 65 /\ c <= 90) \/ (c >= 97 /\ c <= 122)
IsDigit(c)  == c >= 48 /\ c <= 57
FoldExtra   == {304, 305, 383, 8490}            \* what [a-z] also matches under re.IGNORECASE
IsAlphaI(c) == IsAlpha(c) \/ c \in FoldExtra
IsSpace(c)  == \/ c \in {9, 10, 11, 12, 13, 28, 29, 30, 31, 32, 133, 160, 5760, 8232, 8233, 8239, 8287, 12288}
               \/ (c >= 8192 /\ c <= 8202)      \* str.isspace (what str.strip removes)
IsBlankTab(c) == c = 32 \/ c = 9

LT == 60  GT == 62  AMP == 38  QUOTE == 34  SEMI == 59  DASH == 45  DOT == 46  SLASH == 47
PCT == 37  LPAR == 40  RPAR == 41  BANG == 33  HASH == 35  NL == 10  EQ == 61
LBRK == 91  RBRK == 93  USCORE == 95

RECURSIVE LStrip(_)
LStrip(s) == IF s # <<>> /\ IsSpace(Head(s)) THEN LStrip(Tail(s)) ELSE s
RECURSIVE RStrip(_)
RStrip(s) == IF s # <<>> /\ IsSpace(s[Len(s)]) THEN RStrip(SubSeq(s, 1, Len(s) - 1)) ELSE s
Strip(s)  == RStrip(LStrip(s))
IsBlank(s) == \A i \in 1..Len(s) : IsSpace(s[i])

\* position of the first c at or after p (below lim), or -1      (str.find)
RECURSIVE FindC(_, _, _, _)
FindC(t, lim, c, p) == IF p >= lim THEN -1 ELSE IF At(t, p) = c THEN p ELSE FindC(t, lim, c, p + 1)

HasAt(t, lim, p, w) == p + Len(w) <= lim /\ \A i \in 1..Len(w) : At(t, p + i - 1) = w[i]

RECURSIVE FindW(_, _, _, _)
FindW(t, lim, w, p) == IF p + Len(w) > lim THEN -1 ELSE IF HasAt(t, lim, p, w) THEN p ELSE FindW(t, lim, w, p + 1)

\* end of the maximal run of characters satisfying a class, starting at p
RECURSIVE RunLowWs(_, _, _)
RunLowWs(t, lim, p) == IF p < lim /\ IsLowWs(At(t, p)) THEN RunLowWs(t, lim, p + 1) ELSE p
RECURSIVE RunAlpha(_, _, _)
RunAlpha(t, lim, p) == IF p < lim /\ IsAlpha(At(t, p)) THEN RunAlpha(t, lim, p + 1) ELSE p
RECURSIVE RunDigit(_, _, _)
RunDigit(t, lim, p) == IF p < lim /\ IsDigit(At(t, p)) THEN RunDigit(t, lim, p + 1) ELSE p
RECURSIVE RunBlankTab(_, _, _)
RunBlankTab(t, lim, p) == IF p < lim /\ IsBlankTab(At(t, p)) THEN RunBlankTab(t, lim, p + 1) ELSE p

CountC(s, c) == Cardinality({i \in 1..Len(s) : s[i] = c})

\* String.skip_eol:  eol = re.compile('[ \t]*\n').match(text, start)
SkipEol(t, lim, p) == LET q == RunBlankTab(t, lim, p) IN
                      IF q < lim /\ At(t, q) = NL THEN q + 1 ELSE p

NoMatch == [found |-> FALSE]
Match(s, e, end, name, args, fmt) ==
    [found |-> TRUE, s |-> s, e |-> e, end |-> end, name |-> name, args |-> args, fmt |-> fmt]

---------------------------------------------------------------------------
(* DT_HTML.dtml_re_class.search *)

W_SSI   == <<60, 33, 45, 45, 35>>              \* <!--#
W_SSIE  == <<45, 45, 62>>                      \* -->
W_OPEN  == <<60, 100, 116, 109, 108, 45>>      \* <dtml-
W_CLOSE == <<60, 47, 100, 116, 109, 108, 45>>  \* </dtml-
W_ENT   == <<38, 100, 116, 109, 108>>          \* &dtml
W_HQ    == <<32, 104, 116, 109, 108, 95, 113, 117, 111, 116, 101>>   \* " html_quote"

\* next '<' or '&' at or after p, or -1                         (start_search)
RECURSIVE NextLtAmp(_, _, _)
NextLtAmp(t, lim, p) == IF p >= lim THEN -1
                        ELSE IF At(t, p) = LT \/ At(t, p) = AMP THEN p
                        ELSE NextLtAmp(t, lim, p + 1)

\* end_match = '[\000- ]*(/|end)' (IGNORECASE) at n: length of the match or -1
EndMatchLen(t, lim, n) ==
    LET q == RunLowWs(t, lim, n) IN
    IF q < lim /\ At(t, q) = SLASH THEN q + 1 - n
    ELSE IF q + 3 <= lim /\ At(t, q) \in {101, 69} /\ At(t, q + 1) \in {110, 78} /\ At(t, q + 2) \in {100, 68}
         THEN q + 3 - n
    ELSE -1

\* name_match = '[\000- ]*[a-zA-Z]+[\000- ]*' at n: <<start of name, end of name, end of match>> or <<>>
NameMatch(t, lim, n) ==
    LET a == RunLowWs(t, lim, n)
        b == RunAlpha(t, lim, a)
    IN IF b = a THEN <<>> ELSE <<a, b, RunLowWs(t, lim, b)>>

\* the '>' that closes <dtml-.. / </dtml-..: the first one (searching from n+1) with an even number
\* of double quotes between n and it; -1 when there is none
RECURSIVE CloseGt(_, _, _, _)
CloseGt(t, lim, n, from) ==
    LET e == FindC(t, lim, GT, from) IN
    IF e < 0 THEN -1
    ELSE IF CountC(Sl(t, n, e), QUOTE) % 2 = 0 THEN e
    ELSE CloseGt(t, lim, n, e + 1)

\* the rest of search() once s, n, e, en, end are known
FinishTag(t, lim, s, n, e, en, end) ==
    LET nm == NameMatch(t, lim, n) IN
    IF nm = <<>> THEN NoMatch                       \* gives up on the whole rest of the text
    ELSE Match(s, e + en, end, Strip(Sl(t, n, nm[3])), Strip(Sl(t, nm[3], e)), <<>>)   \* text[n:a].strip()

IsEntChar(c) == IsAlpha(c) \/ IsDigit(c) \/ c \in {DASH, USCORE, DOT}
ReplDot(s)   == [i \in 1..Len(s) |-> IF s[i] = DOT THEN 32 ELSE s[i]]
FirstDash(a) == IF \E i \in 1..Len(a) : a[i] = DASH
                THEN (CHOOSE i \in 1..Len(a) : a[i] = DASH /\ \A j \in 1..(i - 1) : a[j] # DASH) - 1
                ELSE -1

\* the entity branch at s (text[s:s+5] = '&dtml'): a match, or NoMatch meaning "continue at s+1"
Entity(t, lim, s) ==
    IF ~(s + 6 <= lim /\ At(t, s + 5) \in {DOT, DASH}) THEN NoMatch
    ELSE LET n == s + 6
             e == FindC(t, lim, SEMI, n) IN
         IF e < 0 THEN NoMatch
         ELSE LET a == Sl(t, n, e) IN
              IF a = <<>> \/ ~(\A i \in 1..Len(a) : IsEntChar(a[i])) THEN NoMatch
              ELSE IF At(t, s + 5) = DASH
                   THEN Match(s, e + 1, FALSE, <<118, 97, 114>>, a \o W_HQ, <<>>)
              ELSE LET nn == FirstDash(a) IN
                   IF nn >= 0 /\ nn < Len(a) - 1
                   THEN Match(s, e + 1, FALSE, <<118, 97, 114>>,
                              Sl(a, nn + 1, Len(a)) \o <<32>> \o ReplDot(Sl(a, 0, nn)), <<>>)
                   ELSE NoMatch

RECURSIVE SearchH(_, _, _)
SearchH(t, lim, start) ==
    LET s == NextLtAmp(t, lim, start) IN
    IF s < 0 THEN NoMatch
    ELSE IF HasAt(t, lim, s, W_SSI) THEN
         LET n == s + 5
             e == FindW(t, lim, W_SSIE, n) IN
         IF e < 0 THEN NoMatch                      \* unterminated: gives up
         ELSE LET l == EndMatchLen(t, lim, n) IN
              IF l >= 0 THEN FinishTag(t, lim, s, n + l, e, 3, TRUE)
              ELSE FinishTag(t, lim, s, n, e, 3, FALSE)
    ELSE IF HasAt(t, lim, s, W_OPEN) THEN
         LET n == s + 6
             e == CloseGt(t, lim, n, n + 1) IN
         IF e < 0 THEN NoMatch ELSE FinishTag(t, lim, s, n, e, 1, FALSE)
    ELSE IF HasAt(t, lim, s, W_CLOSE) THEN
         LET n == s + 7
             e == CloseGt(t, lim, n, n + 1) IN
         IF e < 0 THEN NoMatch ELSE FinishTag(t, lim, s, n, e, 1, TRUE)
    ELSE IF HasAt(t, lim, s, W_ENT) THEN
         LET m == Entity(t, lim, s) IN
         IF m.found THEN m ELSE SearchH(t, lim, s + 1)
    ELSE SearchH(t, lim, s + 1)

---------------------------------------------------------------------------
\* DT_String.String.tagre, compiled with re.I:
\*   %\( (?P<name>[a-zA-Z0-9_/.-]+) ( [\000- ]+ (?P<args> ( [^\)"]+ ("[^"]*")? )* ) )?
\*   \) (?P<fmt> [0-9]*[.]?[0-9]*[a-z] | []![] )

IsENameChar(c) == IsAlphaI(c) \/ IsDigit(c) \/ c \in {USCORE, SLASH, DOT, DASH}
RECURSIVE RunEName(_, _, _)
RunEName(t, lim, p) == IF p < lim /\ IsENameChar(At(t, p)) THEN RunEName(t, lim, p + 1) ELSE p

RECURSIVE RunPlain(_, _, _)
RunPlain(t, lim, p) == IF p < lim /\ At(t, p) \notin {RPAR, QUOTE} THEN RunPlain(t, lim, p + 1) ELSE p

\* end of the longest prefix at p of  ([^\)"]+("[^"]*")?)*
RECURSIVE ArgsEnd(_, _, _)
ArgsEnd(t, lim, p) ==
    IF p >= lim \/ At(t, p) \in {RPAR, QUOTE} THEN p
    ELSE LET q == RunPlain(t, lim, p)
         IN IF q < lim /\ At(t, q) = QUOTE
            THEN LET c == FindC(t, lim, QUOTE, q + 1) IN
                 IF c < 0 THEN q ELSE ArgsEnd(t, lim, c + 1)
            ELSE q

\* the format suffix at f: its end, or -1
FmtEnd(t, lim, f) ==
    LET d1 == RunDigit(t, lim, f)
        d2 == IF d1 < lim /\ At(t, d1) = DOT THEN d1 + 1 ELSE d1
        d3 == RunDigit(t, lim, d2)
    IN IF d3 < lim /\ IsAlphaI(At(t, d3)) THEN d3 + 1
       ELSE IF f < lim /\ At(t, f) \in {RBRK, BANG, LBRK} THEN f + 1
       ELSE -1

\* [0-9]*[.]?[0-9]*[a-z] can also succeed without taking the dot's second digit run etc.; the only
\* other way to succeed is to stop the first digit run early, which needs the same letter, so the end
\* is unique.  A letter directly after the first digit run (no dot) is covered by d2 = d1.

\* args attempt starting at r (after the white space): the closing ')' position or -1
ArgsClose(t, lim, r) == LET x == ArgsEnd(t, lim, r) IN
                        IF x < lim /\ At(t, x) = RPAR /\ FmtEnd(t, lim, x + 1) >= 0 THEN x ELSE -1

MatchE(t, lim, p) ==                  \* p: position of "%("
    LET q  == p + 2
        q1 == RunEName(t, lim, q) IN
    IF q1 = q \/ q1 >= lim THEN NoMatch
    ELSE IF IsLowWs(At(t, q1)) THEN
         LET q2 == RunLowWs(t, lim, q1)
             x1 == ArgsClose(t, lim, q2)
             x2 == IF q2 - q1 >= 2 THEN ArgsClose(t, lim, q2 - 1) ELSE -1   \* white space given back
         IN IF x1 >= 0 THEN Match(p, FmtEnd(t, lim, x1 + 1), FALSE, Sl(t, q, q1), Strip(Sl(t, q2, x1)),
                                  Sl(t, x1 + 1, FmtEnd(t, lim, x1 + 1)))
            ELSE IF x2 >= 0 THEN Match(p, FmtEnd(t, lim, x2 + 1), FALSE, Sl(t, q, q1), Strip(Sl(t, q2 - 1, x2)),
                                       Sl(t, x2 + 1, FmtEnd(t, lim, x2 + 1)))
            ELSE NoMatch
    ELSE IF At(t, q1) = RPAR /\ FmtEnd(t, lim, q1 + 1) >= 0
         THEN Match(p, FmtEnd(t, lim, q1 + 1), FALSE, Sl(t, q, q1), <<>>, Sl(t, q1 + 1, FmtEnd(t, lim, q1 + 1)))
    ELSE NoMatch

RECURSIVE SearchE(_, _, _)
SearchE(t, lim, start) ==
    LET p == FindW(t, lim, <<PCT, LPAR>>, start) IN
    IF p < 0 THEN NoMatch
    ELSE LET m == MatchE(t, lim, p) IN
         IF m.found THEN m ELSE SearchE(t, lim, p + 1)

Search(syn, t, lim, start) == IF syn = "epfs" THEN SearchE(t, lim, start) ELSE SearchH(t, lim, start)

=============================================================================
