-------------------------------- MODULE DTTree --------------------------------
(***************************************************************************)
(* dtml-tree: TreeDisplay.TreeTag (tpRender, apply_diff, tpRenderTABLE,    *)
(* tpValuesIds) seen through its observable state machine, plus the        *)
(* length arithmetic of the cookie codec (encode_seq / decode_seq).        *)
(*                                                                         *)
(* A tree (cases.json) is [n |-> number of nodes, parent |-> <<...>>]:     *)
(* nodes are 1..n in depth-first (document) order, node 1 is the root,     *)
(* parent[i] < i.  The state between two requests is the set `exp` of      *)
(* expanded nodes (it lives in the tree-s cookie).                         *)
(*   Click(x)     the reader follows the one link node x carries           *)
(*   ExpandAll / CollapseAll     the request variables of the same name    *)
(*   Reload       the same cookie again                                    *)
(* `last` remembers the transition that led here (history variable, only   *)
(* for the export of transitions).                                         *)
(***************************************************************************)
EXTENDS Integers, Sequences, FiniteSets, TLC, Json, IOUtils

Cases == JsonDeserialize("cases.json")

VARIABLES tid, exp, last

vars == <<tid, exp, last>>

T == Cases[tid]
Nodes == 1..T.n
Children(x) == {y \in Nodes : y > 1 /\ T.parent[y] = x}
HasKids(x) == Children(x) # {}
RECURSIVE Anc(_)
Anc(x) == IF x = 1 THEN {} ELSE {T.parent[x]} \cup Anc(T.parent[x])
Desc(x) == {y \in Nodes : x \in Anc(y)}

\* a node is shown iff all its proper ancestors other than the root are expanded
Visible(e, x) == x # 1 /\ (Anc(x) \ {1}) \subseteq e
\* rows in depth-first order = visible nodes in document order
Rows(e) == LET vis == {x \in Nodes : Visible(e, x)} IN
           [j \in 1..Cardinality(vis) |-> CHOOSE x \in vis : Cardinality({y \in vis : y < x}) = j - 1]
\* exactly one link per visible node that has children; it collapses iff the node is expanded
Links(e) == {<<x, IF x \in e THEN "c" ELSE "e">> : x \in {y \in Nodes : Visible(e, y) /\ HasKids(y)}}

Init == /\ tid \in 1..Len(Cases) /\ exp = {} /\ last = <<"init", 0, {}>>

Click(x) ==
    /\ Visible(exp, x) /\ HasKids(x)
    /\ exp' = IF x \in exp THEN exp \ ({x} \cup Desc(x))         \* collapsing forgets the descendants
              ELSE exp \cup {x}
    /\ last' = <<"click", x, exp>>
    /\ UNCHANGED tid

ExpandAll   == /\ exp' = {x \in Nodes : x # 1 /\ HasKids(x)}
               /\ last' = <<"expand_all", 0, exp>> /\ UNCHANGED tid
CollapseAll == /\ exp' = {} /\ last' = <<"collapse_all", 0, exp>> /\ UNCHANGED tid
Reload      == /\ last[1] # "reload" /\ UNCHANGED <<tid, exp>> /\ last' = <<"reload", 0, exp>>

Next == (\E x \in Nodes : Click(x)) \/ ExpandAll \/ CollapseAll \/ Reload

Spec == Init /\ [][Next]_vars

---------------------------------------------------------------------------
(* C20 *)

\* the expansion state is closed under ancestors (below the root) and holds only nodes with children
Closed == \A x \in exp : HasKids(x) /\ x # 1 /\ (Anc(x) \ {1}) \subseteq exp
\* rows = the root's children plus, recursively, the children of every expanded node
RowsAreChildrenOfExpanded ==
    {Rows(exp)[j] : j \in 1..Len(Rows(exp))} = Children(1) \cup UNION {Children(x) : x \in exp}
\* each node with children carries exactly one link
OneLinkEach == \A x \in Nodes : (Visible(exp, x) /\ HasKids(x)) => Cardinality({l \in Links(exp) : l[1] = x}) = 1
\* a click toggles precisely that node; collapsing forgets the descendants
ToggleOnly == [][\A x \in Nodes : (last'[1] = "click" /\ last'[2] = x) =>
                   /\ (x \in exp) # (x \in exp')
                   /\ \A y \in Nodes \ ({x} \cup Desc(x)) : (y \in exp) = (y \in exp')
                   /\ (x \in exp => exp' \cap Desc(x) = {})]_vars

SetT(s) == [j \in 1..Cardinality(s) |-> CHOOSE x \in s : Cardinality({y \in s : y < x}) = j - 1]
LinkT(e) == LET xs == {l[1] : l \in Links(e)} IN
            [j \in 1..Cardinality(xs) |-> LET x == SetT(xs)[j] IN <<x, IF x \in e THEN "c" ELSE "e">>]

Export == PrintT(ToJson([tid |-> tid, op |-> last[1], x |-> last[2], from |-> SetT(last[3]),
                         exp |-> SetT(exp), rows |-> Rows(exp), links |-> LinkT(exp)]))

---------------------------------------------------------------------------
(* the cookie codec, over lengths: n bytes of compressed state                               *)
(* encode: 57-byte chunks -> base64 lines without newline, joined, cut at the first '='      *)
(* decode: 76-character chunks; the tail re-padded to a multiple of 4                         *)

B64Len(r)   == 4 * ((r + 2) \div 3)                     \* padded base64 length of r bytes
Unpadded(r) == (4 * r + 2) \div 3                       \* ... without the trailing '='
EncLen(n) == IF n <= 57 THEN Unpadded(n)
             ELSE LET full == n \div 57  r == n % 57 IN
                  \* every full chunk is 76 characters without padding, so the first '=' is in the tail
                  full * 76 + Unpadded(r)
BytesOf(m) == (3 * m) \div 4                            \* bytes decoded from m unpadded characters
DecLen(l) == IF l <= 76 THEN BytesOf(l)
             ELSE (l \div 76) * 57 + BytesOf(l % 76)
CodecRoundTrip == \A n \in 0..700 : DecLen(EncLen(n)) = n
\* no unpadded length is 1 mod 4 (which base64 could not decode)
CodecValid == \A n \in 0..700 : (EncLen(n) % 76) % 4 # 1
=============================================================================
