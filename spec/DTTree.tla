-------------------------------- MODULE DTTree --------------------------------
(***************************************************************************)
(* dtml-tree: TreeDisplay.TreeTag (tpRender, apply_diff, tpRenderTABLE,    *)
(* tpValuesIds) seen through its observable state machine, plus the        *)
(* length arithmetic of the cookie codec (encode_seq / decode_seq).        *)
(*                                                                         *)
(* A case (cases.json) is [n, parent, opt]: nodes are 1..n in depth-first  *)
(* (document) order, node 1 is the root, parent[i] < i.  opt holds the     *)
(* options of the tag that change what is shown:                           *)
(*   ac      assume_children: children are not computed for a collapsed    *)
(*           node, so every collapsed node carries an expand link          *)
(*   leaves  leaves=doc: a node without children can be expanded and then  *)
(*           shows the leaves document                                     *)
(*   hf      header=doc footer=doc around the children of an expanded node *)
(*   single  the state is not kept in a cookie: a request shows only the   *)
(*           path of the clicked node                                      *)
(*   rev     reverse                                                       *)
(*   rank    sort=attribute: rank[x] is the sort key of node x (document   *)
(*           order when the option is absent)                              *)
(* The state between two requests is the set `exp` of expanded nodes (it   *)
(* lives in the tree-s cookie).                                            *)
(*   Click(x)     the reader follows the one link node x carries           *)
(*   ExpandAll / CollapseAll     the request variables of the same name    *)
(*   Reload       the same cookie again                                    *)
(* `last` remembers the transition that led here (history variable, only   *)
(* for the export of transitions).                                         *)
(***************************************************************************)
EXTENDS Integers, Sequences, FiniteSets, TLC, Json, IOUtils

Cases == JsonDeserialize("cases.json")

VARIABLES tid, exp, last

vars == <<tid, exp, last>>

T == Cases[tid]
Opt == T.opt
Nodes == 1..T.n
Children(x) == {y \in Nodes : y > 1 /\ T.parent[y] = x}
HasKids(x) == Children(x) # {}
RECURSIVE Anc(_)
Anc(x) == IF x = 1 THEN {} ELSE {T.parent[x]} \cup Anc(T.parent[x])
Desc(x) == {y \in Nodes : x \in Anc(y)}
Path(x) == Anc(x) \ {1}

\* the children of x in the order they are shown: by sort key, then reversed
KidSeq(x) ==
    LET c == Children(x)
        asc == [j \in 1..Cardinality(c) |-> CHOOSE y \in c : Cardinality({z \in c : Opt.rank[z] < Opt.rank[y]}) = j - 1]
    IN IF Opt.rev THEN [j \in 1..Len(asc) |-> asc[Len(asc) + 1 - j]] ELSE asc

\* a node is shown iff all its proper ancestors other than the root are expanded
Visible(e, x) == x # 1 /\ Path(x) \subseteq e

\* a shown node carries a link iff the tag believes it may have something below it
Linkable(e, x) == HasKids(x) \/ Opt.leaves \/ (Opt.ac /\ x \notin e)

\* what is rendered, in order: <<"row", x>> the body for node x, <<"head", x>> / <<"foot", x>> the header and footer
\* documents around what is below an expanded x, <<"leaf", x>> the leaves document of an expanded childless x
RECURSIVE Below(_, _), Each(_, _, _)
Below(x, e) ==
    (IF Opt.hf THEN <<<<"head", x>>>> ELSE <<>>)
    \o (IF HasKids(x) THEN Each(KidSeq(x), 1, e) ELSE IF Opt.leaves THEN <<<<"leaf", x>>>> ELSE <<>>)
    \o (IF Opt.hf THEN <<<<"foot", x>>>> ELSE <<>>)
Each(s, j, e) ==
    IF j > Len(s) THEN <<>>
    ELSE <<<<"row", s[j]>>>> \o (IF s[j] \in e THEN Below(s[j], e) ELSE <<>>) \o Each(s, j + 1, e)

Rows(e) == IF HasKids(1) \/ Opt.leaves THEN Below(1, e) ELSE <<>>
RowNodes(e) == {Rows(e)[j][2] : j \in {i \in 1..Len(Rows(e)) : Rows(e)[i][1] = "row"}}

\* exactly one link per shown linkable node; it collapses iff the node is expanded
Links(e) == {<<x, IF x \in e THEN "c" ELSE "e">> : x \in {y \in Nodes : Visible(e, y) /\ Linkable(e, y)}}

Init == /\ tid \in 1..Len(Cases) /\ exp = {} /\ last = <<"init", 0, {}>>

ClickEff(x) ==
    IF Opt.single
    THEN \* no cookie: only the clicked path is known to the next request
         exp' = IF x \in exp THEN Path(x) ELSE Path(x) \cup {x}
    ELSE exp' = IF x \in exp THEN exp \ ({x} \cup Desc(x))         \* collapsing forgets the descendants
                ELSE exp \cup {x}

Click(x) ==
    /\ Visible(exp, x) /\ Linkable(exp, x)
    /\ ClickEff(x)
    /\ last' = <<"click", x, exp>>
    /\ UNCHANGED tid

\* the reader follows the link of node x after another tree of the site has overwritten the state cookie (its name is fixed): the
\* state this tree finds is not its own and counts as none; the link itself names the path down to x
ClickOther(x) ==
    /\ Visible(exp, x) /\ Linkable(exp, x)
    /\ exp' = IF x \in exp THEN Path(x) ELSE Path(x) \cup {x}
    /\ last' = <<"click_other", x, exp>>
    /\ UNCHANGED tid

ExpandAllEff   == exp' = {x \in Nodes : x # 1 /\ HasKids(x)}
CollapseAllEff == exp' = {}
ReloadEff      == exp' = IF Opt.single THEN {} ELSE exp

ExpandAll   == ExpandAllEff /\ last' = <<"expand_all", 0, exp>> /\ UNCHANGED tid
CollapseAll == CollapseAllEff /\ last' = <<"collapse_all", 0, exp>> /\ UNCHANGED tid
Reload      == last[1] # "reload" /\ ReloadEff /\ UNCHANGED tid /\ last' = <<"reload", 0, exp>>

Next == (\E x \in Nodes : Click(x) \/ ClickOther(x)) \/ ExpandAll \/ CollapseAll \/ Reload

Spec == Init /\ [][Next]_vars

---------------------------------------------------------------------------
(* C20 *)

\* the expansion state is closed under ancestors (below the root) and holds only nodes that could be expanded
Closed == \A x \in exp : x # 1 /\ Path(x) \subseteq exp /\ (HasKids(x) \/ Opt.ac \/ Opt.leaves)
\* rows = the root's children plus, recursively, the children of every expanded node
RowsAreChildrenOfExpanded == RowNodes(exp) = Children(1) \cup UNION {Children(x) : x \in exp}
\* ... each exactly once, every child directly after what is shown for its elder sibling (depth-first order)
RowsOnce == \A i, j \in 1..Len(Rows(exp)) : (i # j /\ Rows(exp)[i][1] = "row" /\ Rows(exp)[j][1] = "row")
                                             => Rows(exp)[i][2] # Rows(exp)[j][2]
\* each node with children carries exactly one link
OneLinkEach == \A x \in Nodes : (Visible(exp, x) /\ HasKids(x)) => Cardinality({l \in Links(exp) : l[1] = x}) = 1
\* a click toggles precisely that node; collapsing forgets the descendants (the cookie keeps everything else)
ToggleOnly == [][\A x \in Nodes : (last'[1] = "click" /\ last'[2] = x /\ ~Opt.single) =>
                   /\ (x \in exp) # (x \in exp')
                   /\ \A y \in Nodes \ ({x} \cup Desc(x)) : (y \in exp) = (y \in exp')
                   /\ (x \in exp => exp' \cap Desc(x) = {})]_vars

SetT(s) == [j \in 1..Cardinality(s) |-> CHOOSE x \in s : Cardinality({y \in s : y < x}) = j - 1]
LinkT(e) == LET xs == {l[1] : l \in Links(e)} IN
            [j \in 1..Cardinality(xs) |-> LET x == SetT(xs)[j] IN <<x, IF x \in e THEN "c" ELSE "e">>]

Export == PrintT(ToJson([tid |-> tid, op |-> last[1], x |-> last[2], from |-> SetT(last[3]),
                         exp |-> SetT(exp), rows |-> Rows(exp), links |-> LinkT(exp)]))

---------------------------------------------------------------------------
(* the cookie codec, over lengths: n bytes of compressed state                               *)
(* encode: 57-byte chunks -> base64 lines without newline, joined, cut at the first '='      *)
(* decode: 76-character chunks; the tail re-padded to a multiple of 4                         *)

B64Len(r)   == 4 * ((r + 2) \div 3)                     \* padded base64 length of r bytes
Unpadded(r) == (4 * r + 2) \div 3                       \* ... without the trailing '='
EncLen(n) == IF n <= 57 THEN Unpadded(n)
             ELSE LET full == n \div 57  r == n % 57 IN
                  \* every full chunk is 76 characters without padding, so the first '=' is in the tail
                  full * 76 + Unpadded(r)
BytesOf(m) == (3 * m) \div 4                            \* bytes decoded from m unpadded characters
DecLen(l) == IF l <= 76 THEN BytesOf(l)
             ELSE (l \div 76) * 57 + BytesOf(l % 76)
CodecRoundTrip == \A n \in 0..700 : DecLen(EncLen(n)) = n
\* no unpadded length is 1 mod 4 (which base64 could not decode)
CodecValid == \A n \in 0..700 : (EncLen(n) % 76) % 4 # 1
=============================================================================
