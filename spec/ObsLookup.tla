-------------------------------- MODULE ObsLookup --------------------------------
(***************************************************************************)
(* Projection specification of name resolution (C02), program-agnostic.    *)
(* A trace is what one TemplateDict did during any execution:              *)
(*   push        a frame was pushed                                        *)
(*   pop(n)      n frames were popped                                      *)
(*   get(defs, probes, how, got)                                           *)
(*               one search (getitem / __getitem__ / __contains__):        *)
(*               defs[i]   in {"y","n","x"}: does frame i (bottom = 1)     *)
(*                         define the name - read by the recorder on the   *)
(*                         raw frames before the real search started -     *)
(*                         ("x": reading it raises something other than    *)
(*                         KeyError / NameError);                          *)
(*               probes    the frames the real search read, in order, each *)
(*                         <<index, "y"|"n"|"x">> (recording proxies);     *)
(*               how       "val" | "keyerror" | "exc": how the search      *)
(*                         ended; got = the frame whose value was used.    *)
(* Whatever the program, the frame that answers is the HIGHEST frame that  *)
(* defines the name (innermost block binding first, then the sources in    *)
(* the order String.__call__ pushed them); KeyError exactly when no frame  *)
(* defines it.  The order of the probes (top-down, consecutive, stopping   *)
(* at the first hit) is the shape of the implementation: a departure from  *)
(* it alone is drift, not a violation.                                     *)
(***************************************************************************)
EXTENDS Integers, Sequences, TLC, Json, IOUtils

Traces == JsonDeserialize("traces.json")

VARIABLES tid, l, depth, bad, drift, ngets

vars == <<tid, l, depth, bad, drift, ngets>>

Ev == Traces[tid].ev

Init == /\ tid \in 1..Len(Traces) /\ l = 1
        /\ depth = Traces[tid].initial
        /\ bad = "" /\ drift = "" /\ ngets = 0

Push == /\ l <= Len(Ev) /\ Ev[l].e = "push"
        /\ depth' = depth + 1
        /\ l' = l + 1 /\ UNCHANGED <<tid, bad, drift, ngets>>

Pop == /\ l <= Len(Ev) /\ Ev[l].e = "pop"
       /\ depth' = IF depth >= Ev[l].n THEN depth - Ev[l].n ELSE 0
       /\ l' = l + 1 /\ UNCHANGED <<tid, bad, drift, ngets>>

\* the highest frame that does not simply lack the name (0: none)
RECURSIVE HighestFrom(_, _)
HighestFrom(defs, i) == IF i = 0 THEN 0 ELSE IF defs[i] # "n" THEN i ELSE HighestFrom(defs, i - 1)
Highest(defs) == HighestFrom(defs, Len(defs))

\* the probes the implementation is expected to make: depth, depth-1, ..., h   (h = 0: down to 1)
TopDown(pr, d, h) ==
    LET last == IF h = 0 THEN 1 ELSE h IN
    /\ Len(pr) = d - last + 1
    /\ \A i \in 1..Len(pr) : pr[i][1] = d + 1 - i

Get == /\ l <= Len(Ev) /\ Ev[l].e = "get"
       /\ LET e == Ev[l]
              h == Highest(e.defs)
              want == IF h = 0 THEN "keyerror" ELSE IF e.defs[h] = "x" THEN "exc" ELSE "val"
              verdict ==
                  IF Len(e.defs) # depth THEN "recorder: frame count differs from the push/pop log"
                  ELSE IF e.how # want THEN "search ended with " \o e.how \o " but the frames say " \o want
                  ELSE IF want = "val" /\ e.got # 0 /\ e.got # h
                       THEN "value taken from a frame that is not the highest one defining the name"
                  ELSE ""
          IN /\ bad' = IF bad = "" THEN verdict ELSE bad
             /\ drift' = IF drift = "" /\ Len(e.defs) = depth /\ ~TopDown(e.probes, depth, h)
                         THEN "probe order is not top-down to the first hit" ELSE drift
       /\ ngets' = ngets + 1
       /\ l' = l + 1 /\ UNCHANGED <<tid, depth>>

Next == Push \/ Pop \/ Get

Spec == Init /\ [][Next]_vars

Done == l = Len(Ev) + 1
Resolved == Done => bad = ""
Verdict  == Done => PrintT(ToJson([tid |-> tid, bad |-> bad, drift |-> drift, gets |-> ngets, depth |-> depth]))
=============================================================================
