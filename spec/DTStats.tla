------------------------------- MODULE DTStats -------------------------------
(***************************************************************************)
(* Summary statistics of dtml-in: DT_InSV.sequence_variables.statistics.   *)
(*                                                                         *)
(* Data are exact: a numeric value is an integer number of units (the      *)
(* harness realises a unit as 1, 1/4 or 2^-15 and may add a constant       *)
(* offset; integers and binary fractions are exact in floating point), a   *)
(* non-numeric value is a rank, None is ignored.                           *)
(*   item == [t |-> "num", v |-> Int] | [t |-> "str", v |-> rank] |        *)
(*           [t |-> "none"]                                                *)
(* Accumulate is one pass of the loop over the items (count, sum, sum of   *)
(* squares, running min/max, the sorted values); Finish derives the        *)
(* statistics.  All statistics are kept as integers or as numerator over   *)
(* a stated denominator, so every clause is integer arithmetic.            *)
(***************************************************************************)
EXTENDS Integers, Sequences, FiniteSets, TLC, Json

CONSTANTS DataSets      \* set of sequences of items

VARIABLES data, i, cnt, sum, sumsq, lo, hi, vals, svals, pc

vars == <<data, i, cnt, sum, sumsq, lo, hi, vals, svals, pc>>

Undef == -999999

RECURSIVE InsertNum(_, _)
InsertNum(s, x) == IF s = <<>> THEN <<x>>
                   ELSE IF Head(s) <= x THEN <<Head(s)>> \o InsertNum(Tail(s), x)
                   ELSE <<x>> \o s

Init == /\ data \in DataSets
        /\ i = 1 /\ cnt = 0 /\ sum = 0 /\ sumsq = 0 /\ lo = Undef /\ hi = Undef
        /\ vals = <<>> /\ svals = <<>> /\ pc = "loop"

Accumulate ==
    /\ pc = "loop" /\ i <= Len(data)
    /\ LET x == data[i] IN
       CASE x.t = "num" ->
              /\ cnt' = cnt + 1 /\ sum' = sum + x.v /\ sumsq' = sumsq + x.v * x.v
              /\ lo' = IF lo = Undef \/ x.v < lo THEN x.v ELSE lo
              /\ hi' = IF hi = Undef \/ x.v > hi THEN x.v ELSE hi
              /\ vals' = InsertNum(vals, x.v) /\ UNCHANGED svals
         [] x.t = "str" ->
              /\ svals' = InsertNum(svals, x.v) /\ UNCHANGED <<cnt, sum, sumsq, lo, hi, vals>>
         [] x.t = "none" -> UNCHANGED <<cnt, sum, sumsq, lo, hi, vals, svals>>
    /\ i' = i + 1
    /\ UNCHANGED <<data, pc>>

Finish == /\ pc = "loop" /\ i > Len(data) /\ pc' = "done"
          /\ UNCHANGED <<data, i, cnt, sum, sumsq, lo, hi, vals, svals>>

Next == Accumulate \/ Finish
Spec == Init /\ [][Next]_vars

---------------------------------------------------------------------------
(* definitions of the statistics (independent of the loop: directly from the data) *)

Nums(d) == SelectSeq(d, LAMBDA x : x.t = "num")
Strs(d) == SelectSeq(d, LAMBDA x : x.t = "str")
RECURSIVE SumOf(_, _)
SumOf(s, sq) == IF s = <<>> THEN 0 ELSE (IF sq THEN Head(s).v * Head(s).v ELSE Head(s).v) + SumOf(Tail(s), sq)
MinOf(s) == CHOOSE m \in {s[j].v : j \in 1..Len(s)} : \A j \in 1..Len(s) : m <= s[j].v
MaxOf(s) == CHOOSE m \in {s[j].v : j \in 1..Len(s)} : \A j \in 1..Len(s) : m >= s[j].v
RECURSIVE SortedVals(_)
SortedVals(s) == IF s = <<>> THEN <<>> ELSE InsertNum(SortedVals(Tail(s)), Head(s).v)

\* population variance * n^2  (exact):  n * sum(x^2) - (sum x)^2
VarNum(d) == LET n == Len(Nums(d)) IN n * SumOf(Nums(d), TRUE) - SumOf(Nums(d), FALSE) * SumOf(Nums(d), FALSE)

\* the loop computes what the definitions say
LoopCorrect == pc = "done" =>
    /\ cnt = Len(Nums(data)) /\ sum = SumOf(Nums(data), FALSE) /\ sumsq = SumOf(Nums(data), TRUE)
    /\ (cnt > 0 => lo = MinOf(Nums(data)) /\ hi = MaxOf(Nums(data)))
    /\ vals = SortedVals(Nums(data)) /\ svals = SortedVals(Strs(data))

---------------------------------------------------------------------------
(* C16: the clauses over an observation recorded from the real code.  All observed real numbers *)
(* are given in thousandths of a unit (resp. of a squared unit), rounded to the nearest integer. *)
(*   o == [count, total, min, max, mean, varn, var, sdn2, sd2, medlo, medhi,                      *)
(*         numeric |-> 0/1, has: set of statistic names that were non-empty]                      *)

Abs(x) == IF x < 0 THEN 0 - x ELSE x
Near(a, b, tol) == Abs(a - b) <= tol

StatClauses(d, o) ==
    LET ns == Nums(d)
        ss == Strs(d)
        n  == Len(ns)
        S  == SumOf(ns, FALSE)
        V  == VarNum(d)
        allv == IF n > 0 /\ Len(ss) = 0 THEN SortedVals(ns) ELSE IF n = 0 THEN SortedVals(ss) ELSE <<>>
        m  == Len(allv)
    IN
    [ Count  |-> (Len(ss) = 0 \/ n = 0) => o.count = m,
      Total  |-> (n > 0 /\ Len(ss) = 0) => o.total = 1000 * S,
      MinMax |-> m > 0 => (o.min = 1000 * allv[1] /\ o.max = 1000 * allv[m]),
      Mean   |-> (n > 0 /\ Len(ss) = 0) => Near(o.mean * n, 1000 * S, n),
      VarN   |-> (n > 0 /\ Len(ss) = 0) => Near(o.varn * n * n, 1000 * V, n * n),
      Var    |-> (n > 1 /\ Len(ss) = 0) => Near(o.var * n * (n - 1), 1000 * V, n * n),
      SdN    |-> (n > 0 /\ Len(ss) = 0) => Near(o.sdn2, o.varn, 2),
      Sd     |-> (n > 1 /\ Len(ss) = 0) => Near(o.sd2, o.var, 2),
      Median |-> m > 0 =>
                   IF m % 2 = 1 THEN o.medlo = 1000 * allv[(m + 1) \div 2] /\ o.medhi = o.medlo
                   ELSE /\ o.medlo >= 1000 * allv[m \div 2] /\ o.medhi <= 1000 * allv[m \div 2 + 1]
                        /\ o.medlo <= o.medhi,
      NonNumeric |-> n = 0 => o.numeric = 0 ]

Failed(cl) == {k \in DOMAIN cl : ~cl[k]}

\* the machine's own observation (exact values, in thousandths)
MedLo == LET a == IF vals # <<>> /\ svals = <<>> THEN vals ELSE IF vals = <<>> THEN svals ELSE <<>> IN
         IF a = <<>> THEN 0 ELSE IF Len(a) % 2 = 1 THEN 1000 * a[(Len(a) + 1) \div 2] ELSE 1000 * a[Len(a) \div 2]

Export == pc = "done" => PrintT(ToJson([data |-> data, cnt |-> cnt, sum |-> sum, sumsq |-> sumsq,
                                        varnum |-> VarNum(data)]))
=============================================================================
