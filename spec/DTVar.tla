-------------------------------- MODULE DTVar --------------------------------
(***************************************************************************)
(* The value pipeline of dtml-var / &dtml-name; :                          *)
(*   DT_Var.Var.render (missing, null, fmt=, C-style format, the modifiers *)
(*   in their fixed order, size/etc, final taint quoting),                 *)
(*   the fast path of _DocumentTemplate.render_blocks_ for the simple      *)
(*   forms ('v', name) and ('v', name, 'h'),                               *)
(*   html_quote, url_(un)quote(_plus), newline_to_br, thousands_commas,    *)
(*   sql_quote, lower/upper/capitalize/spacify, TaintedString propagation. *)
(*                                                                         *)
(* Text is a sequence of code points.  A special character that stems from *)
(* the inserted value is written MK+c   ("marked"): every operator treats  *)
(* it as c, escaping/encoding replaces it by unmarked text, and the safety *)
(* invariants say that no marked character survives where the property     *)
(* promises escaping (C03 NoRawSpecial, C04 NoRawLT).                      *)
(*                                                                         *)
(* One action per stage; the state is (stage, val, tnt).                   *)
(***************************************************************************)
EXTENDS Integers, Sequences, FiniteSets, TLC, Json

CONSTANTS Values,    \* set of [k, s, tnt, nul, def]  (k: "text"|"num"|"none"|"elist"|"obj")
          ModSets,   \* set of subsets of Modifiers
          Fmts,      \* subset of FmtNames \cup {""}
          CFmts,     \* subset of {"s", "6s", "X", "x", "08X", "05d"}     (C-style format of the EPFS syntax)
          Sizes,     \* subset of Int; -1 = no size attribute
          Etcs,      \* subset of {"default", "none", "tilde"}  (etc attribute: absent, "", "~~")
          Nulls,     \* subset of BOOLEAN: null="NUL" given?
          Missings,  \* subset of BOOLEAN: missing="MIS" given?
          Forms      \* subset of {"name", "expr", "entity"}

Modifiers == {"html_quote", "url_quote", "url_quote_plus", "url_unquote", "url_unquote_plus",
              "newline_to_br", "lower", "upper", "capitalize", "spacify", "thousands_commas",
              "sql_quote"}

\* DT_Var.modifiers: the one fixed order
ModOrder == <<"html_quote", "url_quote", "url_quote_plus", "url_unquote", "url_unquote_plus",
              "newline_to_br", "lower", "upper", "capitalize", "spacify", "thousands_commas",
              "sql_quote">>

VARIABLES inp, stage, mi, val, tnt, ret

vars == <<inp, stage, mi, val, tnt, ret>>

---------------------------------------------------------------------------
(* characters *)

MK == 2000000          \* above every code point
Base(c)   == IF c >= MK THEN c - MK ELSE c
Marked(c) == c >= MK
Unmark(s) == [i \in 1..Len(s) |-> Base(s[i])]

RECURSIVE Flat(_)
Flat(ss) == IF ss = <<>> THEN <<>> ELSE Head(ss) \o Flat(Tail(ss))
MapCat(s, F(_)) == Flat([i \in 1..Len(s) |-> F(s[i])])

S(str) == str    \* (documentation only)

AMP == <<38, 97, 109, 112, 59>>         \* &amp;
LT  == <<38, 108, 116, 59>>             \* &lt;
GT  == <<38, 103, 116, 59>>             \* &gt;
QUOT == <<38, 113, 117, 111, 116, 59>>  \* &quot;
APOS == <<38, 35, 120, 50, 55, 59>>     \* &#x27;

EscC(c) == LET b == Base(c) IN
           CASE b = 38 -> AMP [] b = 60 -> LT [] b = 62 -> GT [] b = 34 -> QUOT [] b = 39 -> APOS
             [] OTHER -> <<c>>
Esc(s) == MapCat(s, EscC)                                   \* html.escape(s, quote=True)

IsLower(b) == b >= 97 /\ b <= 122
IsUpper(b) == b >= 65 /\ b <= 90
IsDigit(b) == b >= 48 /\ b <= 57
UpC(c) == IF IsLower(Base(c)) THEN c - 32 ELSE c
LoC(c) == IF IsUpper(Base(c)) THEN c + 32 ELSE c
Upper(s) == [i \in 1..Len(s) |-> UpC(s[i])]
Lower(s) == [i \in 1..Len(s) |-> LoC(s[i])]
Capitalize(s) == [i \in 1..Len(s) |-> IF i = 1 THEN UpC(s[i]) ELSE LoC(s[i])]
Spacify(s) == [i \in 1..Len(s) |-> IF Base(s[i]) = 95 THEN 32 ELSE s[i]]

Hex(n) == IF n < 10 THEN 48 + n ELSE 55 + n
HexVal(b) == IF IsDigit(b) THEN b - 48
             ELSE IF b >= 65 /\ b <= 70 THEN b - 55
             ELSE IF b >= 97 /\ b <= 102 THEN b - 87 ELSE -1
Pct(b) == <<37, Hex(b \div 16), Hex(b % 16)>>
AlwaysSafe(b) == IsLower(b) \/ IsUpper(b) \/ IsDigit(b) \/ b \in {95, 46, 45, 126}
UrlQuoteC(c)     == LET b == Base(c) IN IF AlwaysSafe(b) \/ b = 47 THEN <<b>> ELSE Pct(b)
UrlQuotePlusC(c) == LET b == Base(c) IN IF AlwaysSafe(b) THEN <<b>> ELSE IF b = 32 THEN <<43>> ELSE Pct(b)
UrlQuote(s)     == MapCat(s, UrlQuoteC)
UrlQuotePlus(s) == MapCat(s, UrlQuotePlusC)

\* urllib.parse.unquote on text whose escapes denote ASCII: %XX -> chr, anything else verbatim.
\* A character produced by decoding stems from the value: specials come out marked.
Special(b) == b \in {38, 60, 62, 34, 39}
MarkIf(b) == IF Special(b) THEN MK + b ELSE b
RECURSIVE Unq(_, _)
Unq(s, i) ==
    IF i > Len(s) THEN <<>>
    ELSE IF Base(s[i]) = 37 /\ i + 2 <= Len(s) /\ HexVal(Base(s[i + 1])) >= 0 /\ HexVal(Base(s[i + 2])) >= 0
         THEN <<MarkIf(16 * HexVal(Base(s[i + 1])) + HexVal(Base(s[i + 2])))>> \o Unq(s, i + 3)
         ELSE <<s[i]>> \o Unq(s, i + 1)
UrlUnquote(s) == Unq(s, 1)
UrlUnquotePlus(s) == Unq([i \in 1..Len(s) |-> IF Base(s[i]) = 43 THEN 32 ELSE s[i]], 1)

\* newline_to_br: drop CR, LF -> "<br />\n"
BR == <<60, 98, 114, 32, 47, 62, 10>>
NlC(c) == IF Base(c) = 13 THEN <<>> ELSE IF Base(c) = 10 THEN BR ELSE <<c>>
NewlineToBr(s) == MapCat(s, NlC)

\* sql_quote: drop NUL, Ctrl-Z, CR; double every single quote
SqlC(c) == LET b == Base(c) IN IF b \in {0, 26, 13} THEN <<>> ELSE IF b = 39 THEN <<c, c>> ELSE <<c>>
SqlQuote(s) == MapCat(s, SqlC)

\* thousands_commas: on the part before the first '.', repeatedly find the leftmost digit that is
\* followed by exactly-three-digits-then-(',' | '.' | end) and put a comma after it
FirstDot(s) == LET d == {i \in 1..Len(s) : Base(s[i]) = 46} IN
               IF d = {} THEN Len(s) + 1 ELSE CHOOSE i \in d : \A j \in d : i <= j
ThouPos(v) == {l \in 1..Len(v) - 3 :
                 /\ IsDigit(Base(v[l])) /\ IsDigit(Base(v[l + 1])) /\ IsDigit(Base(v[l + 2]))
                 /\ IsDigit(Base(v[l + 3]))
                 /\ (l + 3 = Len(v) \/ Base(v[l + 4]) \in {44, 46})}
RECURSIVE Thou(_)
Thou(v) == LET p == ThouPos(v) IN
           IF p = {} THEN v
           ELSE LET l == CHOOSE i \in p : \A j \in p : i <= j
                IN Thou(SubSeq(v, 1, l) \o <<44>> \o SubSeq(v, l + 1, Len(v)))
ThousandsCommas(s) == LET d == FirstDot(s) IN Thou(SubSeq(s, 1, d - 1)) \o SubSeq(s, d, Len(s))

IsWs(b) == b \in {32, 9, 10, 13, 11, 12}
RECURSIVE LStrip(_)
LStrip(s) == IF s # <<>> /\ IsWs(Base(Head(s))) THEN LStrip(Tail(s)) ELSE s
RECURSIVE RStrip(_)
RStrip(s) == IF s # <<>> /\ IsWs(Base(s[Len(s)])) THEN RStrip(SubSeq(s, 1, Len(s) - 1)) ELSE s
Strip(s) == RStrip(LStrip(s))

RECURSIVE Digits(_)
Digits(n) == IF n < 10 THEN <<48 + n>> ELSE Digits(n \div 10) \o <<48 + (n % 10)>>

HasLT(s) == \E i \in 1..Len(s) : Base(s[i]) = 60

\* rfind(' '): 0-based index of the last blank, -1 if none
RFindBlank(s) == LET b == {i \in 1..Len(s) : Base(s[i]) = 32} IN
                 IF b = {} THEN -1 ELSE (CHOOSE i \in b : \A j \in b : i >= j) - 1

Apply(m, s) ==
    CASE m = "html_quote"       -> Esc(s)
      [] m = "url_quote"        -> UrlQuote(s)
      [] m = "url_quote_plus"   -> UrlQuotePlus(s)
      [] m = "url_unquote"      -> UrlUnquote(s)
      [] m = "url_unquote_plus" -> UrlUnquotePlus(s)
      [] m = "newline_to_br"    -> NewlineToBr(s)
      [] m = "lower"            -> Lower(s)
      [] m = "upper"            -> Upper(s)
      [] m = "capitalize"       -> Capitalize(s)
      [] m = "spacify"          -> Spacify(s)
      [] m = "thousands_commas" -> ThousandsCommas(s)
      [] m = "sql_quote"        -> SqlQuote(s)

\* newline_to_br quotes a TaintedString itself before inserting its own markup
ApplyT(m, s, t) == IF m = "newline_to_br" /\ t THEN NewlineToBr(Esc(s)) ELSE Apply(m, s)

\* does the TaintedString survive the function?   (AccessControl.tainted + DT_Var)
\*   lower/upper/capitalize: wrapped methods, always tainted
\*   spacify/sql_quote: str.replace wrappers, tainted iff the result holds '<'
\*   url_(un)quote(_plus), thousands_commas: keep the taint mark (text derived from untrusted
\*   data stays untrusted: url_quote followed by url_unquote gives the '<' back)
\*   newline_to_br: quotes, hence untainted
TaintAfter(m, r) ==
    CASE m \in {"lower", "upper", "capitalize"} -> TRUE
      [] m \in {"spacify", "sql_quote"}         -> HasLT(r)
      [] m \in {"url_quote", "url_quote_plus", "url_unquote", "url_unquote_plus",
                 "thousands_commas"} -> TRUE
      [] OTHER -> FALSE

\* integer conversions of the C-style format, for values that are non-negative integers: %X / %x (hexadecimal, the case of
\* the letter is the case of the digits), %08X (zero-padded to eight columns), %05d
IntCFmts == {"X", "x", "08X", "05d"}
RECURSIVE NumOf(_, _)
NumOf(t, acc) == IF t = <<>> THEN acc ELSE NumOf(Tail(t), 10 * acc + (Base(Head(t)) - 48))
HexDigit(d, up) == IF d < 10 THEN 48 + d ELSE (IF up THEN 55 ELSE 87) + d
RECURSIVE HexText(_, _)
HexText(n, up) == IF n < 16 THEN <<HexDigit(n, up)>> ELSE HexText(n \div 16, up) \o <<HexDigit(n % 16, up)>>
ZeroPad(t, w) == IF Len(t) >= w THEN t ELSE [i \in 1..w - Len(t) |-> 48] \o t
IntConv(cf, t) == LET n == NumOf(t, 0) IN
                  CASE cf = "X" -> HexText(n, TRUE) [] cf = "x" -> HexText(n, FALSE)
                    [] cf = "08X" -> ZeroPad(HexText(n, TRUE), 8) [] cf = "05d" -> ZeroPad(Digits(n), 5)

FmtNames == {"html-quote", "url-quote", "url-quote-plus", "url-unquote", "url-unquote-plus",
             "sql-quote", "multi-line", "comma-numeric", "collection-length",
             "upper", "lower", "capitalize", "strip", "pct",
             "whole-dollars", "dollars-and-cents", "dollars-with-commas", "dollars-and-cents-with-commas"}

\* the money formats:  "$%d" % v  and  "$%.2f" % v  (then thousands_commas for the -with-commas forms); a value that is not a
\* number makes the % operator fail, and the format then yields the empty string.  Numbers are given by their decimal text with
\* at most two decimals (so no rounding is involved): %d cuts the decimals off (towards zero), %.2f pads them to two.
DollarFmts == {"whole-dollars", "dollars-and-cents", "dollars-with-commas", "dollars-and-cents-with-commas"}
Decimals(s) == IF FirstDot(s) > Len(s) THEN 0 ELSE Len(s) - FirstDot(s)
IntText(s) == SubSeq(s, 1, FirstDot(s) - 1)
AllZero(t) == \A i \in 1..Len(t) : Base(t[i]) = 48
WholeText(s) == LET t == IntText(s) IN
                IF t # <<>> /\ Base(t[1]) = 45 /\ AllZero(Tail(t)) THEN <<48>>        \* int(-0.5) is 0, not -0
                ELSE IF t = <<>> THEN <<48>> ELSE t
CentsText(s) == LET d == Decimals(s) IN
                IF d = 0 THEN IntText(s) \o <<46, 48, 48>>
                ELSE IF d = 1 THEN s \o <<48>> ELSE s
DollarText(f, v) ==
    IF v.k # "num" THEN <<>>
    ELSE LET body == IF f \in {"whole-dollars", "dollars-with-commas"} THEN WholeText(v.s) ELSE CentsText(v.s)
             t == <<36>> \o body
         IN IF f \in {"dollars-with-commas", "dollars-and-cents-with-commas"} THEN ThousandsCommas(t) ELSE t

FmtMod(f) == CASE f = "html-quote" -> "html_quote" [] f = "url-quote" -> "url_quote"
               [] f = "url-quote-plus" -> "url_quote_plus" [] f = "url-unquote" -> "url_unquote"
               [] f = "url-unquote-plus" -> "url_unquote_plus" [] f = "sql-quote" -> "sql_quote"
               [] f = "multi-line" -> "newline_to_br" [] f = "comma-numeric" -> "thousands_commas"
               [] OTHER -> f

---------------------------------------------------------------------------
(* the machine *)

Inputs == [v : Values, mods : ModSets, fmt : Fmts, cf : CFmts, size : Sizes, etc : Etcs,
           null : Nulls, missing : Missings, form : Forms]

\* combinations the tags cannot express, or whose behaviour is an exception, are not explored
Expressible(i) ==
    \* (&dtml-x; is html_quote alone, &dtml.m1.m2-x; the modifiers m1 m2, &dtml.-x; no modifier at all: the plain insertion)
    /\ (i.form = "entity" => i.fmt = "" /\ i.size = -1 /\ ~i.null /\ ~i.missing /\ i.cf = "s")
    /\ (i.v.k # "text" => i.fmt \in {"", "url-quote", "url-quote-plus", "comma-numeric", "pct", "html-quote"} \cup DollarFmts)
    /\ (i.fmt \in DollarFmts => i.v.k \in {"text", "num"} /\ (i.v.k = "num" => Decimals(i.v.s) <= 2))
    /\ (i.v.k \notin {"text", "num"} => i.mods \subseteq {"html_quote", "newline_to_br"})
    /\ (i.v.k = "num" => i.mods \cap {"sql_quote"} = {})
    /\ (i.fmt = "collection-length" => i.v.k = "text")
    /\ (i.v.k \in {"missing", "kerr"} => i.form = "name")
    /\ (i.v.tnt => \E j \in 1..Len(i.v.s) : Base(i.v.s[j]) = 60)   \* tainted = untrusted data containing '<' 
    /\ (i.etc # "default" => i.size # -1)
    /\ (i.cf \in IntCFmts => i.v.k = "num" /\ i.fmt = "" /\ i.form = "name" /\ ~i.null
                             /\ \A j \in 1..Len(i.v.s) : IsDigit(Base(i.v.s[j])))

Init == /\ inp \in {i \in Inputs : Expressible(i)}
        /\ stage = "lookup" /\ mi = 1 /\ val = <<>> /\ tnt = FALSE /\ ret = FALSE

NUL == <<78, 85, 76>>
MIS == <<77, 73, 83>>

\* is this tag compiled to a simple form, rendered by the fast path of render_blocks_ ?
NoOptions == inp.fmt = "" /\ inp.size = -1 /\ ~inp.null /\ ~inp.missing /\ inp.cf = "s"
Simple  == NoOptions /\ inp.mods = {}
SimpleH == NoOptions /\ inp.mods = {"html_quote"}

Finish(s) == val' = s /\ stage' = "done" /\ ret' = TRUE /\ UNCHANGED <<inp, mi, tnt>>

\* name lookup; missing= replaces an undefined name (only the full Var.render path can do that)
Lookup ==
    /\ stage = "lookup"
    /\ IF inp.v.k = "missing"
       THEN IF inp.missing THEN Finish(MIS)
            ELSE Finish(<<75, 69>>)                    \* KeyError ("KE")
       \* a defined name whose evaluation (a callable, a sub-template) raises KeyError is not an undefined name:
       \* the error propagates whether or not missing= is given
       ELSE IF inp.v.k = "kerr" THEN Finish(<<75, 69>>)
       ELSE /\ val' = inp.v.s /\ tnt' = inp.v.tnt
            /\ stage' = IF Simple \/ SimpleH THEN "fast" ELSE "null"
            /\ UNCHANGED <<inp, mi, ret>>

\* render_blocks_ fast path: untaint (= quote) a TaintedString, else ustr, else html_quote for 'h'
Fast ==
    /\ stage = "fast"
    /\ IF tnt THEN Finish(Esc(val))
       ELSE IF SimpleH THEN Finish(Esc(val))
       ELSE Finish(val)

\* null= replaces a value that is false but not 0
Null ==
    /\ stage = "null"
    /\ IF inp.null /\ inp.v.nul THEN Finish(NUL)
       ELSE stage' = "fmt" /\ UNCHANGED <<inp, mi, val, tnt, ret>>

Fmt ==
    /\ stage = "fmt"
    /\ LET f == inp.fmt IN
       IF f = "" THEN UNCHANGED <<val, tnt>>
       ELSE IF f = "html-quote" /\ tnt THEN UNCHANGED <<val, tnt>>     \* quoted at the end anyway
       ELSE IF f = "collection-length" THEN val' = Digits(Len(val)) /\ tnt' = FALSE
       ELSE IF f \in DollarFmts THEN val' = DollarText(f, inp.v) /\ tnt' = FALSE
       ELSE IF f = "strip" THEN val' = Strip(val) /\ UNCHANGED tnt
       ELSE IF f = "pct" THEN val' = <<91>> \o val \o <<93>> /\ UNCHANGED tnt  \* fmt="[%s]"
       ELSE /\ val' = ApplyT(FmtMod(f), val, tnt)
            /\ tnt' = (tnt /\ TaintAfter(FmtMod(f), ApplyT(FmtMod(f), val, tnt)))
    /\ stage' = "cfmt"
    /\ UNCHANGED <<inp, mi, ret>>

\* '%6s' % val : right-justified in 6 columns
Pad(s, n) == IF Len(s) >= n THEN s ELSE [i \in 1..n - Len(s) |-> 32] \o s
CFmt ==
    /\ stage = "cfmt"
    /\ IF inp.cf = "s" THEN UNCHANGED <<val, tnt>>
       ELSE IF inp.cf \in IntCFmts THEN val' = IntConv(inp.cf, val) /\ UNCHANGED tnt
       ELSE /\ val' = Pad(val, 6) /\ UNCHANGED tnt        \* formatted untrusted text stays untrusted
    /\ stage' = "mods" /\ mi' = 1
    /\ UNCHANGED <<inp, ret>>

\* the modifiers, in the order of ModOrder whatever the written order
Mods ==
    /\ stage = "mods"
    /\ IF mi > Len(ModOrder)
       THEN stage' = "size" /\ UNCHANGED <<val, tnt, mi>>
       ELSE LET m == ModOrder[mi] IN
            /\ mi' = mi + 1 /\ UNCHANGED stage
            /\ IF m \notin inp.mods \/ (m = "html_quote" /\ tnt)
               THEN UNCHANGED <<val, tnt>>
               ELSE /\ val' = ApplyT(m, val, tnt)
                    /\ tnt' = (tnt /\ TaintAfter(m, ApplyT(m, val, tnt)))
    /\ UNCHANGED <<inp, ret>>

EtcText == CASE inp.etc = "default" -> <<46, 46, 46>> [] inp.etc = "none" -> <<>>
             [] inp.etc = "tilde" -> <<126, 126>>

Size ==
    /\ stage = "size"
    /\ IF inp.size = -1 \/ Len(val) <= inp.size
       THEN UNCHANGED <<val, tnt>>
       ELSE LET cut == SubSeq(val, 1, inp.size)
                l   == RFindBlank(cut)
                kept == IF 2 * l > inp.size THEN SubSeq(cut, 1, l + 1) ELSE cut
            IN /\ val' = kept \o EtcText
               /\ UNCHANGED tnt                  \* the kept prefix of untrusted text is still untrusted
    /\ stage' = "final"
    /\ UNCHANGED <<inp, mi, ret>>

Final ==
    /\ stage = "final"
    /\ Finish(IF tnt THEN Esc(val) ELSE val)

Next == Lookup \/ Fast \/ Null \/ Fmt \/ CFmt \/ Mods \/ Size \/ Final

Spec == Init /\ [][Next]_vars

---------------------------------------------------------------------------
(* properties *)

Done == stage = "done"
Out  == val

NoMarked(s)   == \A i \in 1..Len(s) : ~Marked(s[i])
NoMarkedLT(s) == \A i \in 1..Len(s) : s[i] # MK + 60

\* C04: a tainted value never contributes an unescaped '<'
\* Known finding F20 (not an invariant of the code): fmt=multi-line quotes the tainted text and
\* inserts its own markup, so the result is trusted; a url_unquote(_plus) modifier applied afterwards
\* turns a "%3C" of the untrusted text into a raw '<'.
F20 == inp.fmt = "multi-line" /\ inp.mods \cap {"url_unquote", "url_unquote_plus"} # {}
NoRawLT == (Done /\ inp.v.tnt /\ inp.v.k = "text" /\ ~F20) => NoMarkedLT(Out)

\* C04: escaping is applied once, not twice: no "&amp;lt;" can come from a single '<'
AmpLt == <<38, 97, 109, 112, 59, 108, 116, 59>>
Contains(s, p) == \E i \in 1..Len(s) - Len(p) + 1 : SubSeq(s, i, i + Len(p) - 1) = p
OnceNotTwice == (Done /\ inp.v.tnt /\ inp.fmt \in {"", "html-quote"}
                 /\ inp.mods \subseteq {"html_quote", "lower"} /\ ~Contains(Unmark(inp.v.s), <<38>>))
                => ~Contains(Out, AmpLt)

\* C03: the quoting forms give exactly the escaped value; nothing marked survives
Quoting == \/ (inp.mods = {"html_quote"} /\ inp.fmt = "")
           \/ (inp.mods = {} /\ inp.fmt = "html-quote")
NoRawSpecial == (Done /\ Quoting /\ inp.v.k = "text" /\ inp.cf = "s" /\ ~(inp.null /\ inp.v.nul))
                => (NoMarked(Out) /\ (inp.size = -1 => Out = Esc(inp.v.s)))

\* C03: plain insertion leaves an untainted string unchanged
PlainUntouched == (Done /\ Simple /\ ~inp.v.tnt /\ inp.v.k = "text") => Out = inp.v.s

\* C15: truncation never emits more than size characters of the value before etc
TruncBound == (stage = "final" /\ inp.size # -1) =>
                 (Len(val) <= inp.size + Len(EtcText))

\* C15: url_unquote inverts url_quote
Alphabet == UNION {{Base(i.v.s[j]) : j \in 1..Len(i.v.s)} : i \in {inp}}
RoundTrip == (stage = "lookup" /\ inp.v.k = "text") =>
                /\ Unmark(UrlUnquote(UrlQuote(inp.v.s))) = Unmark(inp.v.s)
                /\ Unmark(UrlUnquotePlus(UrlQuotePlus(inp.v.s))) = Unmark(inp.v.s)
\* C15: after sql_quote every single quote is doubled and no NUL / Ctrl-Z / CR is left
SqlSafe == (stage = "lookup" /\ inp.v.k = "text") =>
              LET q == Unmark(SqlQuote(inp.v.s)) IN
              /\ \A i \in 1..Len(q) : q[i] \notin {0, 26, 13}
              /\ Cardinality({i \in 1..Len(q) : q[i] = 39}) % 2 = 0

StageOrder == [][stage' # stage =>
                  <<stage, stage'>> \in {<<"lookup", "fast">>, <<"lookup", "null">>, <<"lookup", "done">>,
                                         <<"fast", "done">>, <<"null", "done">>, <<"null", "fmt">>,
                                         <<"fmt", "cfmt">>, <<"cfmt", "mods">>, <<"mods", "size">>,
                                         <<"size", "final">>, <<"final", "done">>}]_vars

---------------------------------------------------------------------------
ModT(ms) == [i \in 1..Cardinality(ms) |->
               CHOOSE m \in ms : Cardinality({j \in 1..Len(ModOrder) : ModOrder[j] \in ms /\
                                  j < (CHOOSE x \in 1..Len(ModOrder) : ModOrder[x] = m)}) = i - 1]

Export == Done => PrintT(ToJson([v |-> inp.v, mods |-> ModT(inp.mods), fmt |-> inp.fmt, cf |-> inp.cf,
                                 size |-> inp.size, etc |-> inp.etc, null |-> inp.null,
                                 missing |-> inp.missing, form |-> inp.form, out |-> Unmark(Out)]))
=============================================================================
