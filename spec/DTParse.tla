------------------------------- MODULE DTParse -------------------------------
(***************************************************************************)
(* The DTML compiler (cook) as a small-step machine over a control stack,  *)
(* one action per loop iteration of the code:                              *)
(*   String.parse        -> PStep / PResume   (frame "P")                  *)
(*   String.parse_block  -> BStep / BSection / BResume   (frame "B")       *)
(*   String.parse_close  -> CStep / CResume   (frame "C")                  *)
(*   String.parseTag / HTML.parseTag            -> ParseTagE / ParseTagH   *)
(*   DT_Util.parse_params, name_param           -> PP, NameParam           *)
(*   DT_Let.parse_let_params                    -> PL                      *)
(*   the constructors of var call return if unless else in with let try    *)
(*   raise comment tree                         -> BuildSimple, BuildBlock *)
(*   String.parse_error                         -> the "err" outcome       *)
(* The result of an accepted source is the normal form of _v_blocks; RL    *)
(* renders it for plain namespaces (what C01 needs: which literal text is  *)
(* emitted, how often, in which order).                                    *)
(* Sources come from cases.json: [syn, src (code points), bad (expression  *)
(* texts Python rejects), env].                                            *)
(***************************************************************************)
EXTENDS DTScan, DTNames, TLC, Json, IOUtils

Cases == JsonDeserialize("cases.json")

VARIABLES tid,     \* index of the case
          sk,      \* which of the case's sources (spellings of one template) is being compiled
          done,    \* outcomes of the sources compiled so far
          ctl,     \* control stack of P / B / C frames
          ret,     \* return register
          outc,    \* outcome: running / ok(prog) / err
          scans    \* log of tag searches  <<lim, start, s, e>>  (s = -1: none)

vars == <<tid, sk, done, ctl, ret, outc, scans>>

Case == Cases[tid]
Src  == Case.srcs[sk].src
Syn  == Case.srcs[sk].syn
Bad  == Case.srcs[sk].bad

Top       == ctl[Len(ctl)]
PopC(c)   == SubSeq(c, 1, Len(c) - 1)
SetTop(f) == [ctl EXCEPT ![Len(ctl)] = f]

---------------------------------------------------------------------------
(* parse_params *)

DS(c) == [d |-> "s", c |-> c]          \* a string value
DI(i) == [d |-> "i", i |-> i]          \* an integer default
DN    == [d |-> "none"]                \* default None: "requires a value"

E0 == <<>>
VarParms == "name" :> DS(E0) @@ "lower" :> DI(1) @@ "upper" :> DI(1) @@ "expr" :> DS(E0) @@
            "capitalize" :> DI(1) @@ "spacify" :> DI(1) @@ "null" :> DS(E0) @@ "fmt" :> DS(<<115>>) @@
            "size" :> DI(0) @@ "etc" :> DS(<<46, 46, 46>>) @@ "thousands_commas" :> DI(1) @@
            "html_quote" :> DI(1) @@ "url_quote" :> DI(1) @@ "sql_quote" :> DI(1) @@
            "url_quote_plus" :> DI(1) @@ "url_unquote" :> DI(1) @@ "url_unquote_plus" :> DI(1) @@
            "missing" :> DS(E0) @@ "newline_to_br" :> DI(1) @@ "url" :> DI(1)
InParms  == "name" :> DS(E0) @@ "start" :> DS(<<49>>) @@ "end" :> DS(<<45, 49>>) @@ "size" :> DS(<<49, 48>>) @@
            "orphan" :> DS(<<48>>) @@ "overlap" :> DS(<<49>>) @@ "mapping" :> DI(1) @@ "no_push_item" :> DI(1) @@
            "skip_unauthorized" :> DI(1) @@ "previous" :> DI(1) @@ "next" :> DI(1) @@ "expr" :> DS(E0) @@
            "sort" :> DS(E0) @@ "reverse" :> DI(1) @@ "sort_expr" :> DS(E0) @@ "reverse_expr" :> DS(E0) @@
            "prefix" :> DS(E0)
NEParms   == "name" :> DS(E0) @@ "expr" :> DS(E0)
NParms    == "name" :> DS(E0)
WithParms == "name" :> DS(E0) @@ "expr" :> DS(E0) @@ "mapping" :> DI(1) @@ "only" :> DI(1)
RaiseParms == "type" :> DS(E0) @@ "expr" :> DS(E0)
NoParms   == [x \in {} |-> DN]
TreeParms == "name" :> DN @@ "expr" :> DN @@ "nowrap" :> DI(1) @@ "expand" :> DN @@ "leaves" :> DN @@
             "header" :> DN @@ "footer" :> DN @@ "branches" :> DN @@ "branches_expr" :> DN @@ "sort" :> DN @@
             "reverse" :> DI(1) @@ "skip_unauthorized" :> DI(1) @@ "id" :> DN @@ "single" :> DI(1) @@
             "url" :> DN @@ "assume_children" :> DI(1) @@ "urlparam" :> DN @@ "prefix" :> DN

Lower(c)  == IF c >= 65 /\ c <= 90 THEN c + 32 ELSE c
LowerS(s) == [i \in 1..Len(s) |-> Lower(s[i])]
IsTokC(c) == ~IsLowWs(c) /\ c # EQ /\ c # QUOTE             \* [^\000- ="]
RECURSIVE RunTok(_, _, _)
RunTok(t, lim, p) == IF p < lim /\ IsTokC(At(t, p)) THEN RunTok(t, lim, p + 1) ELSE p

HasKey(r, k) == \E i \in 1..Len(r) : r[i].k = k
Get(r, k)    == r[CHOOSE i \in 1..Len(r) : r[i].k = k].v
Put(r, k, v) == IF HasKey(r, k) THEN [i \in 1..Len(r) |-> IF r[i].k = k THEN [k |-> k, v |-> v] ELSE r[i]]
                ELSE Append(r, [k |-> k, v |-> v])
StrOf(v)     == IF v.d = "s" THEN v.c ELSE <<49>>           \* only used where the value is a string

PErr(msg) == [err |-> TRUE, exc |-> "ParseError", msg |-> msg]
SErr      == [err |-> TRUE, exc |-> "SyntaxError", msg |-> "invalid expression"]
POk(r)    == [err |-> FALSE, r |-> r]

\* the expression texts Python's parser rejects are supplied with the case (trusted primitive)
BadExpr(e) == \E i \in 1..Len(Bad) : Bad[i] = Strip(e)

RECURSIVE PP(_, _, _)
PP(a, r, parms) ==
    LET L   == Len(a)
        p1  == RunLowWs(a, L, 0)
        ne  == RunTok(a, L, p1)
        hasName == ne > p1
        isEq == hasName /\ ne < L /\ At(a, ne) = EQ
        ve  == IF isEq THEN RunTok(a, L, ne + 1) ELSE 0
        moP == isEq /\ ve > ne + 1                                       \* name=value
        cq  == IF isEq /\ ne + 1 < L /\ At(a, ne + 1) = QUOTE THEN FindC(a, L, QUOTE, ne + 2) ELSE -1
        moQ == cq >= 0                                                   \* name="value"
        uq  == IF p1 < L /\ At(a, p1) = QUOTE THEN FindC(a, L, QUOTE, p1 + 1) ELSE -1
    IN
    IF moP \/ moQ THEN
        LET nm  == NameOf(LowerS(Sl(a, p1, ne)))
            val == IF moP THEN Sl(a, ne + 1, ve) ELSE Sl(a, ne + 2, cq)
            l   == IF moP THEN ve ELSE cq + 1
        IN IF nm \notin DOMAIN parms THEN PErr("Invalid attribute name")
           ELSE IF HasKey(r, nm) THEN PErr("Duplicate values for attribute")
           ELSE LET rest == Strip(Sl(a, l, L)) IN
                IF rest # <<>> THEN PP(rest, Put(r, nm, DS(val)), parms) ELSE POk(Put(r, nm, DS(val)))
    ELSE IF hasName THEN                                                 \* a bare word
        LET raw == Sl(a, p1, ne)
            nm  == NameOf(raw) IN
        IF r # <<>> THEN
            IF nm \in DOMAIN parms THEN
                IF parms[nm].d = "none" THEN PErr("requires a value")
                ELSE PP(Sl(a, ne, L), Put(r, nm, parms[nm]), parms)
            ELSE PErr("Invalid attribute name")
        ELSE PP(Sl(a, ne, L), Put(r, "", DS(raw)), parms)
    ELSE IF uq >= 0 THEN                                                 \* a bare "quoted string"
        IF r # <<>> THEN PErr("Invalid attribute name")
        ELSE PP(Sl(a, uq + 1, L), Put(r, "", DS(Sl(a, p1, uq + 1))), parms)
    ELSE IF IsBlank(a) THEN POk(r) ELSE PErr("invalid parameter")

\* name_param(params, tag, expr, attr)
IsShort(v) == Len(v) > 1 /\ v[1] = QUOTE /\ v[Len(v)] = QUOTE
NOk(ref)   == [err |-> FALSE, ref |-> ref]
NameRef(n) == [k |-> "name", n |-> n]
ExprRef(e) == [k |-> "expr", src |-> e]
RefText(ref) == IF ref.k = "name" THEN ref.n ELSE ref.src

NameParam(r, wantExpr, attr) ==
    IF HasKey(r, "") THEN
        LET v == StrOf(Get(r, "")) IN
        IF IsShort(v) THEN
            IF HasKey(r, attr) THEN PErr(attr \o " and expr given")
            ELSE IF wantExpr THEN
                IF HasKey(r, "expr") THEN PErr("two exprs given")
                ELSE LET e == Sl(v, 1, Len(v) - 1) IN
                     IF BadExpr(e) THEN PErr("Expression (Python) Syntax error") ELSE NOk(ExprRef(e))
            ELSE PErr("shorthand for expr was used in a tag that doesn't support expr attributes")
        ELSE IF HasKey(r, attr) THEN PErr("Two " \o attr \o " values were given")
        ELSE IF wantExpr /\ HasKey(r, "expr") THEN PErr(attr \o " and expr given")
        ELSE NOk(NameRef(v))
    ELSE IF HasKey(r, attr) THEN
        IF wantExpr /\ HasKey(r, "expr") THEN PErr(attr \o " and expr given")
        ELSE NOk(NameRef(StrOf(Get(r, attr))))
    ELSE IF wantExpr /\ HasKey(r, "expr") THEN
        LET e == StrOf(Get(r, "expr")) IN IF BadExpr(e) THEN SErr ELSE NOk(ExprRef(e))
    ELSE PErr("No " \o attr \o " given")

\* parse_let_params
RECURSIVE PL(_, _)
PL(a, r) ==
    LET L   == Len(a)
        p1  == RunLowWs(a, L, 0)
        ne  == RunTok(a, L, p1)
        isEq == ne > p1 /\ ne < L /\ At(a, ne) = EQ
        ve  == IF isEq THEN RunTok(a, L, ne + 1) ELSE 0
        moP == isEq /\ ve > ne + 1
        cq  == IF isEq /\ ne + 1 < L /\ At(a, ne + 1) = QUOTE THEN FindC(a, L, QUOTE, ne + 2) ELSE -1
    IN
    IF moP \/ cq >= 0 THEN
        LET b == IF moP THEN [n |-> Sl(a, p1, ne), v |-> Sl(a, ne + 1, ve), q |-> FALSE]
                 ELSE [n |-> Sl(a, p1, ne), v |-> Sl(a, ne + 2, cq), q |-> TRUE]
            l == IF moP THEN ve ELSE cq + 1
            rest == Strip(Sl(a, l, L))
        IN IF rest # <<>> THEN PL(rest, Append(r, b)) ELSE POk(Append(r, b))
    ELSE IF IsBlank(a) THEN POk(r) ELSE PErr("invalid parameter")

\* simple_name = re.compile('^[a-z][a-z0-9_]*$', re.I).match
SimpleName(v0) ==
    LET v == IF v0 # <<>> /\ v0[Len(v0)] = NL THEN SubSeq(v0, 1, Len(v0) - 1) ELSE v0 IN
    /\ v # <<>> /\ IsAlphaI(v[1])
    /\ \A i \in 2..Len(v) : IsAlphaI(v[i]) \/ IsDigit(v[i]) \/ v[i] = USCORE

\* str.split(): the maximal runs of non-space characters
RECURSIVE Split(_)
Split(s0) ==
    LET s == LStrip(s0) IN
    IF s = <<>> THEN <<>>
    ELSE LET n == IF \E i \in 1..Len(s) : IsSpace(s[i])
                  THEN (CHOOSE i \in 1..Len(s) : IsSpace(s[i]) /\ \A j \in 1..(i - 1) : ~IsSpace(s[j])) - 1
                  ELSE Len(s)
         IN <<SubSeq(s, 1, n)>> \o Split(SubSeq(s, n + 1, Len(s)))

---------------------------------------------------------------------------
(* tag constructors: the normal form of the compiled tag, or an error *)

Ok(item) == [err |-> FALSE, item |-> item]
\* the options of a tag without the keys that only carry the reference (captured in ref)
SansRef(r) == SelectSeq(r, LAMBDA e : e.k \notin {"", "name", "expr"})
W_VAR == <<118, 97, 114, 32>>
FMT_S == <<115>>

BuildSimple(cmd, args0, fmt) ==
    IF cmd = "var" THEN
        LET args == IF Len(args0) >= 4 /\ SubSeq(args0, 1, 4) = W_VAR THEN SubSeq(args0, 5, Len(args0)) ELSE args0
            p == PP(args, <<>>, VarParms) IN
        IF p.err THEN p ELSE
        LET n == NameParam(p.r, TRUE, "name") IN
        IF n.err THEN n ELSE
        IF Len(p.r) = 1 /\ fmt = FMT_S THEN Ok([t |-> "v", ref |-> n.ref, h |-> FALSE])
        ELSE IF Len(p.r) = 2 /\ fmt = FMT_S /\ HasKey(p.r, "html_quote") THEN Ok([t |-> "v", ref |-> n.ref, h |-> TRUE])
        ELSE Ok([t |-> "var", ref |-> n.ref, args |-> SansRef(p.r), fmt |-> fmt])
    ELSE \* call, return
        LET p == PP(args0, <<>>, NEParms) IN
        IF p.err THEN p ELSE
        LET n == NameParam(p.r, TRUE, "name") IN
        IF n.err THEN n ELSE Ok([t |-> cmd, ref |-> n.ref])

\* blocks: sequence of [tname, args, sec]
RECURSIVE Elifs(_)
Elifs(mid) ==
    IF mid = <<>> THEN [err |-> FALSE, conds |-> <<>>, bodies |-> <<>>]
    ELSE LET b == Head(mid) IN
         IF b.tname = "else" THEN PErr("more than one else tag for a single if tag")
         ELSE LET p == PP(b.args, <<>>, NEParms) IN
              IF p.err THEN p ELSE
              LET n == NameParam(p.r, TRUE, "name") IN
              IF n.err THEN n ELSE
              LET rest == Elifs(Tail(mid)) IN
              IF rest.err THEN rest
              ELSE [err |-> FALSE, conds |-> <<n.ref>> \o rest.conds, bodies |-> <<b.sec>> \o rest.bodies]

ElseName(args, wantExpr, name, msg) ==     \* the optional name on a closing else section
    LET p == PP(args, <<>>, NParms) IN
    IF p.err THEN p
    ELSE IF p.r = <<>> THEN [err |-> FALSE]
    ELSE LET n == NameParam(p.r, wantExpr, "name") IN
         IF n.err THEN n
         ELSE IF RefText(n.ref) # name THEN PErr(msg) ELSE [err |-> FALSE]

BuildIf(bl) ==
    LET p == PP(bl[1].args, <<>>, NEParms) IN
    IF p.err THEN p ELSE
    LET n == NameParam(p.r, TRUE, "name") IN
    IF n.err THEN n ELSE
    LET hasElse == bl[Len(bl)].tname = "else"
        e1 == IF hasElse THEN ElseName(bl[Len(bl)].args, TRUE, RefText(n.ref), "name in else does not match if")
              ELSE [err |-> FALSE] IN
    IF e1.err THEN e1 ELSE
    LET m == Elifs(SubSeq(bl, 2, IF hasElse THEN Len(bl) - 1 ELSE Len(bl))) IN
    IF m.err THEN m
    ELSE Ok([t |-> "if", conds |-> <<n.ref>> \o m.conds, bodies |-> <<bl[1].sec>> \o m.bodies,
             else |-> IF hasElse THEN <<bl[Len(bl)].sec>> ELSE <<>>])

BatchOnly == <<"orphan", "overlap", "previous", "next">>
BuildIn(bl) ==
    LET p == PP(bl[1].args, <<>>, InParms) IN
    IF p.err THEN p ELSE
    LET r == p.r
        batch == HasKey(r, "start") \/ HasKey(r, "size") \/ HasKey(r, "end") IN
    IF HasKey(r, "sort_expr") /\ BadExpr(StrOf(Get(r, "sort_expr"))) THEN SErr
    ELSE IF HasKey(r, "reverse_expr") /\ BadExpr(StrOf(Get(r, "reverse_expr"))) THEN SErr
    ELSE IF HasKey(r, "prefix") /\ StrOf(Get(r, "prefix")) # <<>> /\ ~SimpleName(StrOf(Get(r, "prefix")))
         THEN PErr("prefix is not a simple name")
    ELSE IF ~batch /\ \E i \in 1..4 : HasKey(r, BatchOnly[i])
         THEN PErr("The " \o BatchOnly[CHOOSE i \in 1..4 : HasKey(r, BatchOnly[i]) /\ \A j \in 1..(i - 1) : ~HasKey(r, BatchOnly[j])]
                   \o " attribute was used but neither of the")
    ELSE LET n == NameParam(r, TRUE, "name") IN
    IF n.err THEN n
    ELSE IF Len(bl) > 2 THEN PErr("too many else blocks")
    ELSE LET e1 == IF Len(bl) = 2 THEN ElseName(bl[2].args, FALSE, RefText(n.ref), "name in else does not match in")
                   ELSE [err |-> FALSE] IN
    IF e1.err THEN e1
    ELSE Ok([t |-> "in", batch |-> batch, ref |-> n.ref, args |-> SansRef(r), body |-> bl[1].sec,
             else |-> IF Len(bl) = 2 THEN <<bl[2].sec>> ELSE <<>>])

RECURSIVE LetBinds(_)
LetBinds(bs) ==
    IF bs = <<>> THEN [err |-> FALSE, b |-> <<>>]
    ELSE LET h == Head(bs) IN
         IF h.q /\ BadExpr(h.v) THEN PErr("Expression (Python) Syntax error")
         ELSE LET rest == LetBinds(Tail(bs)) IN
              IF rest.err THEN rest
              ELSE [err |-> FALSE, b |-> <<[n |-> h.n, ref |-> IF h.q THEN ExprRef(h.v) ELSE NameRef(h.v)]>> \o rest.b]

\* Try.__init__: st = [else seen, default handler seen, handlers]
RECURSIVE TrySecs(_, _, _, _)
TrySecs(bs, elseB, dflt, hs) ==
    IF bs = <<>> THEN [err |-> FALSE, else |-> elseB, hs |-> hs]
    ELSE LET b == Head(bs) IN
         IF b.tname = "else" THEN
             IF elseB # <<>> THEN PErr("No more than one else block is allowed")
             ELSE TrySecs(Tail(bs), <<b.sec>>, dflt, hs)
         ELSE IF b.tname = "finally" THEN PErr("A try..finally combination cannot contain other blocks")
         ELSE IF elseB # <<>> THEN PErr("The else block should be the last block in a try tag")
         ELSE LET names == Split(b.args)
                  hs1 == hs \o [i \in 1..Len(names) |-> [n |-> names[i], b |-> b.sec]] IN
              IF names = <<>> THEN
                  IF dflt THEN PErr("Only one default exception handler is allowed")
                  ELSE TrySecs(Tail(bs), elseB, TRUE, Append(hs1, [n |-> <<>>, b |-> b.sec]))
              ELSE TrySecs(Tail(bs), elseB, dflt, hs1)

BuildBlock(cmd, bl) ==
    CASE cmd = "if" -> BuildIf(bl)
      [] cmd = "in" -> BuildIn(bl)
      [] cmd \in {"unless", "else"} ->
           LET p == PP(bl[1].args, <<>>, NEParms) IN
           IF p.err THEN p ELSE
           LET n == NameParam(p.r, TRUE, "name") IN
           IF n.err THEN n ELSE Ok([t |-> "unless", ref |-> n.ref, body |-> bl[1].sec])
      [] cmd = "with" ->
           LET p == PP(bl[1].args, <<>>, WithParms) IN
           IF p.err THEN p ELSE
           LET n == NameParam(p.r, TRUE, "name") IN
           IF n.err THEN n ELSE Ok([t |-> "with", ref |-> n.ref, args |-> SansRef(p.r), body |-> bl[1].sec])
      [] cmd = "raise" ->
           LET p == PP(bl[1].args, <<>>, RaiseParms) IN
           IF p.err THEN p ELSE
           LET n == NameParam(p.r, TRUE, "type") IN
           IF n.err THEN n ELSE Ok([t |-> "raise", ref |-> n.ref, body |-> bl[1].sec])
      [] cmd = "let" ->
           LET p == PL(bl[1].args, <<>>) IN
           IF p.err THEN p ELSE
           LET b == LetBinds(p.r) IN
           IF b.err THEN b ELSE Ok([t |-> "let", binds |-> b.b, body |-> bl[1].sec])
      [] cmd = "try" ->
           LET p == PP(bl[1].args, <<>>, NoParms) IN
           IF p.err THEN p
           ELSE IF Len(bl) = 2 /\ bl[2].tname = "finally"
                THEN Ok([t |-> "tryf", body |-> bl[1].sec, fin |-> bl[2].sec])
           ELSE LET s == TrySecs(Tail(bl), <<>>, FALSE, <<>>) IN
                IF s.err THEN s ELSE Ok([t |-> "try", body |-> bl[1].sec, hs |-> s.hs, else |-> s.else])
      [] cmd = "comment" -> Ok([t |-> "comment"])
      [] cmd = "tree" ->
           LET p == PP(bl[1].args, <<>>, TreeParms) IN
           IF p.err THEN p ELSE
           LET r == p.r
               n == IF HasKey(r, "") \/ HasKey(r, "name") \/ HasKey(r, "expr")
                    THEN NameParam(r, TRUE, "name") ELSE NOk(NameRef(<<>>)) IN
           IF n.err THEN n
           ELSE IF HasKey(r, "branches_expr") /\ HasKey(r, "branches") THEN PErr("branches and  and branches_expr given")
           ELSE IF HasKey(r, "branches_expr") /\ BadExpr(StrOf(Get(r, "branches_expr"))) THEN SErr
           ELSE IF HasKey(r, "prefix") /\ StrOf(Get(r, "prefix")) # <<>> /\ ~SimpleName(StrOf(Get(r, "prefix")))
                THEN PErr("prefix is not a simple name")
           ELSE Ok([t |-> "tree", args |-> r, body |-> bl[1].sec])

---------------------------------------------------------------------------
(* parseTag *)

BlockCmds  == {"in", "with", "if", "unless", "else", "comment", "raise", "try", "let", "tree"}
SimpleCmds == {"var", "call", "return"}
Conts(cmd) == CASE cmd = "if" -> {"else", "elif"} [] cmd = "try" -> {"except", "else", "finally"}
                [] cmd = "in" -> {"else"} [] OTHER -> {}

\* "Waaaaaah!": an else with arguments continues the block only if they repeat the opening arguments
ElseIsCont(args, sargs) ==
    \/ args = sargs
    \/ /\ Len(args) <= Len(sargs) /\ SubSeq(sargs, 1, Len(args)) = args
       /\ (Len(sargs) = Len(args) \/ sargs[Len(args) + 1] \in {32, 9, 10})

TOk(args, cmd, coname, fmt) == [err |-> FALSE, args |-> args, cmd |-> cmd, coname |-> coname, fmt |-> fmt]

TagKind(nm, args, cmd, sargs, fmt) ==
    IF cmd # "" /\ nm \in Conts(cmd) THEN
        IF nm = "else" /\ args # <<>> /\ ~ElseIsCont(args, sargs) THEN TOk(args, "else", "", fmt)
        ELSE TOk(args, "", nm, fmt)
    ELSE IF nm \in BlockCmds \cup SimpleCmds THEN TOk(args, nm, "", fmt)
    ELSE PErr("Unexpected tag")

ParseTag(m, cmd, sargs) ==
    LET nm == NameOf(m.name) IN
    IF Syn = "epfs" THEN
        IF m.fmt = <<RBRK>> THEN
            IF cmd = "" \/ nm # cmd THEN PErr("unexpected end tag") ELSE TOk(m.args, "", "", m.fmt)
        ELSE IF m.fmt \in {<<LBRK>>, <<BANG>>} THEN TagKind(nm, m.args, cmd, sargs, m.fmt)
        ELSE TOk(IF m.args # <<>> THEN m.name \o <<32>> \o m.args ELSE m.name, "var", "", m.fmt)
    ELSE
        IF m.end THEN
            IF cmd = "" \/ nm # cmd THEN PErr("unexpected end tag") ELSE TOk(m.args, "", "", FMT_S)
        ELSE TagKind(nm, m.args, cmd, sargs, FMT_S)

---------------------------------------------------------------------------
(* the machine *)

Running == [k |-> "run"]
NoRet   == [k |-> "none"]
\* parse_error(mess, tag, text, start): the tag named and the offset whose line is reported
Fail(exc, msg, tlo, thi, loc) == [k |-> "err", exc |-> exc, msg |-> msg, tlo |-> tlo, thi |-> thi, loc |-> loc]

PFrame(lim, pos) == [k |-> "P", lim |-> lim, pos |-> pos, from |-> pos, res |-> <<>>, sp |-> <<>>]
TextItem(lo, hi) == [t |-> "text", s |-> Sl(Src, lo, hi)]
Span(lo, hi)     == <<lo, hi>>

Log(lim, start, m) == Append(scans, <<lim, start, IF m.found THEN m.s ELSE -1, IF m.found THEN m.e ELSE -1>>)

Init == /\ tid \in 1..Len(Cases) /\ sk = 1 /\ done = <<>>
        /\ ctl = <<PFrame(Len(Cases[tid].srcs[1].src), 0)>>
        /\ ret = NoRet /\ outc = Running /\ scans = <<>>

Stop(o) == /\ outc' = o /\ UNCHANGED <<ctl, ret>>

\* String.parse: one iteration of "while mo"
PStep ==
    /\ outc.k = "run" /\ ctl # <<>> /\ Top.k = "P" /\ ret.k = "none"
    /\ LET f == Top
           m == Search(Syn, Src, f.lim, f.pos) IN
       /\ scans' = Log(f.lim, f.pos, m)
       /\ IF ~m.found THEN
              LET res == IF f.pos < f.lim THEN Append(f.res, TextItem(f.pos, f.lim)) ELSE f.res
                  sp  == IF f.pos < f.lim THEN Append(f.sp, Span(f.pos, f.lim)) ELSE f.sp IN
              IF Len(ctl) = 1 THEN /\ outc' = [k |-> "ok", prog |-> res, spans |-> sp] /\ ctl' = <<>> /\ ret' = NoRet
              ELSE /\ ctl' = PopC(ctl) /\ ret' = [k |-> "res", v |-> res, sp |-> sp, from |-> f.from, to |-> f.lim]
                   /\ UNCHANGED outc
          ELSE
              LET pt == ParseTag(m, "", <<>>) IN
              IF pt.err THEN Stop(Fail(pt.exc, pt.msg, m.s, m.e, m.s))
              ELSE LET res == IF f.pos < m.s THEN Append(f.res, TextItem(f.pos, m.s)) ELSE f.res
                       sp  == IF f.pos < m.s THEN Append(f.sp, Span(f.pos, m.s)) ELSE f.sp IN
                   IF pt.cmd \in BlockCmds THEN
                       /\ ctl' = Append(SetTop([f EXCEPT !.res = res, !.sp = sp]),
                                        [k |-> "B", lim |-> f.lim, pos |-> SkipEol(Src, f.lim, m.e),
                                         stlo |-> m.s, sthi |-> m.e, sargs |-> pt.args, sa |-> pt.args,
                                         cmd |-> pt.cmd, tname |-> pt.cmd,
                                         sstart |-> SkipEol(Src, f.lim, m.e), blocks |-> <<>>,
                                         pend |-> [l |-> 0, e |-> 0, args |-> <<>>, coname |-> ""]])
                       /\ UNCHANGED <<ret, outc>>
                   ELSE LET b == BuildSimple(pt.cmd, pt.args, pt.fmt) IN
                        IF b.err THEN Stop(Fail(b.exc, b.msg, m.s, m.e, m.s))
                        ELSE /\ ctl' = SetTop([f EXCEPT !.res = Append(res, b.item), !.sp = Append(sp, Span(m.s, m.e)),
                                                        !.pos = m.e])
                             /\ UNCHANGED <<ret, outc>>
    /\ UNCHANGED <<tid, sk, done>>

\* parse: "start = self.parse_block(...)" returned
PResume ==
    /\ outc.k = "run" /\ ctl # <<>> /\ Top.k = "P" /\ ret.k = "blk"
    /\ ctl' = SetTop([Top EXCEPT !.res = Append(Top.res, ret.item), !.sp = Append(Top.sp, ret.span), !.pos = ret.pos])
    /\ ret' = NoRet
    /\ UNCHANGED <<tid, sk, done, outc, scans>>

\* parse_block: one iteration of "while 1" up to the point where the section is parsed
BStep ==
    /\ outc.k = "run" /\ ctl # <<>> /\ Top.k = "B" /\ ret.k = "none"
    /\ LET f == Top
           m == Search(Syn, Src, f.lim, f.pos) IN
       /\ scans' = Log(f.lim, f.pos, m)
       /\ IF ~m.found THEN Stop(Fail("ParseError", "No closing tag", f.stlo, f.sthi, f.stlo))
          ELSE LET pt == ParseTag(m, f.cmd, f.sa) IN
               IF pt.err THEN Stop(Fail(pt.exc, pt.msg, m.s, m.e, m.s))
               ELSE IF pt.cmd # "" THEN
                    IF pt.cmd \in BlockCmds
                    THEN /\ ctl' = Append(SetTop([f EXCEPT !.pos = m.e]),
                                          [k |-> "C", lim |-> f.lim, pos |-> m.e, stlo |-> m.s, sthi |-> m.e,
                                           cmd |-> pt.cmd, sa |-> pt.args])
                         /\ UNCHANGED <<ret, outc>>
                    ELSE /\ ctl' = SetTop([f EXCEPT !.pos = m.e]) /\ UNCHANGED <<ret, outc>>
               ELSE \* a continuation tag or the end tag: parse the section  self.parse(text[:l_], sstart)
                    /\ ctl' = Append(SetTop([f EXCEPT !.pend = [l |-> m.s, e |-> m.e, args |-> pt.args,
                                                                coname |-> pt.coname]]),
                                     PFrame(m.s, f.sstart))
                    /\ UNCHANGED <<ret, outc>>
    /\ UNCHANGED <<tid, sk, done>>

\* parse_block: the section has been parsed
BSection ==
    /\ outc.k = "run" /\ ctl # <<>> /\ Top.k = "B" /\ ret.k = "res"
    /\ LET f == Top
           blocks == Append(f.blocks, [tname |-> f.tname, args |-> f.sargs, sec |-> ret.v])
           start == SkipEol(Src, f.lim, f.pend.e) IN
       IF f.pend.coname # "" THEN
           /\ ctl' = SetTop([f EXCEPT !.blocks = blocks, !.tname = f.pend.coname, !.sargs = f.pend.args,
                                      !.sstart = start, !.pos = start])
           /\ ret' = NoRet /\ UNCHANGED outc
       ELSE LET b == BuildBlock(f.cmd, blocks) IN
            IF b.err THEN /\ outc' = Fail(b.exc, b.msg, f.stlo, f.sthi, f.stlo) /\ UNCHANGED <<ctl, ret>>
            ELSE /\ ctl' = PopC(ctl)
                 /\ ret' = [k |-> "blk", pos |-> start, item |-> b.item, span |-> Span(f.stlo, start)]
                 /\ UNCHANGED outc
    /\ UNCHANGED <<tid, sk, done, scans>>

\* parse_block / parse_close: the nested parse_close returned
SkipResume ==
    /\ outc.k = "run" /\ ctl # <<>> /\ Top.k \in {"B", "C"} /\ ret.k = "pos"
    /\ ctl' = SetTop([Top EXCEPT !.pos = ret.v])
    /\ ret' = NoRet
    /\ UNCHANGED <<tid, sk, done, outc, scans>>

\* parse_close: one iteration
CStep ==
    /\ outc.k = "run" /\ ctl # <<>> /\ Top.k = "C" /\ ret.k = "none"
    /\ LET f == Top
           m == Search(Syn, Src, f.lim, f.pos) IN
       /\ scans' = Log(f.lim, f.pos, m)
       /\ IF ~m.found THEN Stop(Fail("ParseError", "No closing tag", f.stlo, f.sthi, f.stlo))
          ELSE LET pt == ParseTag(m, f.cmd, f.sa) IN
               IF pt.err THEN Stop(Fail(pt.exc, pt.msg, m.s, m.e, m.s))
               ELSE IF pt.cmd # "" /\ pt.cmd \in BlockCmds
                    THEN /\ ctl' = Append(SetTop([f EXCEPT !.pos = m.e]),
                                          [k |-> "C", lim |-> f.lim, pos |-> m.e, stlo |-> m.s, sthi |-> m.e,
                                           cmd |-> pt.cmd, sa |-> pt.args])
                         /\ UNCHANGED <<ret, outc>>
               ELSE IF pt.cmd = "" /\ pt.coname = ""
                    THEN /\ ctl' = PopC(ctl) /\ ret' = [k |-> "pos", v |-> m.e] /\ UNCHANGED outc
               ELSE /\ ctl' = SetTop([f EXCEPT !.pos = m.e]) /\ UNCHANGED <<ret, outc>>
    /\ UNCHANGED <<tid, sk, done>>

\* the next spelling of the same template (C07)
NextSource ==
    /\ outc.k # "run" /\ sk < Len(Case.srcs)
    /\ done' = Append(done, [o |-> outc, scans |-> scans])
    /\ sk' = sk + 1
    /\ ctl' = <<PFrame(Len(Case.srcs[sk + 1].src), 0)>>
    /\ ret' = NoRet /\ outc' = Running /\ scans' = <<>>
    /\ UNCHANGED tid

Next == PStep \/ PResume \/ BStep \/ BSection \/ SkipResume \/ CStep \/ NextSource

Spec == Init /\ [][Next]_vars

---------------------------------------------------------------------------
(* rendering the normal form for plain namespaces (C01) *)
\* env: sequence of [n |-> code points, v |-> [k |-> "text", s] | [k |-> "false"] | [k |-> "list", n] | [k |-> "obj"]]

Defined(env, n) == \E i \in 1..Len(env) : env[i].n = n
ValOf(env, n)   == env[CHOOSE i \in 1..Len(env) : env[i].n = n /\ \A j \in (i + 1)..Len(env) : env[j].n # n].v
TruthOf(env, n) == Defined(env, n) /\ LET v == ValOf(env, n) IN
                     CASE v.k = "text" -> v.s # <<>> [] v.k = "false" -> FALSE [] v.k = "list" -> v.n > 0 [] OTHER -> TRUE

Un     == [un |-> TRUE, s |-> <<>>]
Out(s) == [un |-> FALSE, s |-> s]

RECURSIVE Rep(_, _)
Rep(s, n) == IF n = 0 THEN <<>> ELSE s \o Rep(s, n - 1)

\* attributes of dtml-in that do not change what an unbatched loop over a plain list renders
InertInArgs == {"skip_unauthorized"}

RECURSIVE RL(_, _)
RECURSIVE RL1(_, _)
RECURSIVE RLIf(_, _, _, _)
RECURSIVE LetEnv(_, _)
RL(items, env) ==
    IF items = <<>> THEN Out(<<>>)
    ELSE LET h == RL1(Head(items), env) IN
         IF h.un THEN Un
         ELSE LET r == RL(Tail(items), env) IN IF r.un THEN Un ELSE Out(h.s \o r.s)

RLIf(conds, bodies, els, env) ==
    IF conds = <<>> THEN (IF els = <<>> THEN Out(<<>>) ELSE RL(els[1], env))
    ELSE IF Head(conds).k # "name" THEN Un
    ELSE IF TruthOf(env, Head(conds).n) THEN RL(Head(bodies), env)
    ELSE RLIf(Tail(conds), Tail(bodies), els, env)

LetEnv(binds, env) ==
    IF binds = <<>> THEN [un |-> FALSE, env |-> env]
    ELSE LET b == Head(binds) IN
         IF b.ref.k # "name" \/ ~Defined(env, b.ref.n) THEN [un |-> TRUE, env |-> env]
         ELSE LetEnv(Tail(binds), Append(env, [n |-> b.n, v |-> ValOf(env, b.ref.n)]))

RL1(it, env) ==
    CASE it.t = "text" -> Out(it.s)
      [] it.t = "v" -> IF it.ref.k = "name" /\ Defined(env, it.ref.n) /\ ValOf(env, it.ref.n).k = "text"
                       THEN Out(ValOf(env, it.ref.n).s) ELSE Un
      [] it.t = "if" -> RLIf(it.conds, it.bodies, it.else, env)
      [] it.t = "unless" -> IF it.ref.k # "name" THEN Un
                            ELSE IF TruthOf(env, it.ref.n) THEN Out(<<>>) ELSE RL(it.body, env)
      [] it.t = "call" -> IF it.ref.k = "name" /\ Defined(env, it.ref.n) THEN Out(<<>>) ELSE Un
      [] it.t = "comment" -> Out(<<>>)
      [] it.t = "in" -> IF it.ref.k = "name" /\ Defined(env, it.ref.n) /\ ValOf(env, it.ref.n).k = "list"
                           /\ ~it.batch /\ (\A i \in 1..Len(it.args) : it.args[i].k \in InertInArgs)
                        THEN LET n == ValOf(env, it.ref.n).n IN
                             IF n = 0 THEN (IF it.else = <<>> THEN Out(<<>>) ELSE RL(it.else[1], env))
                             ELSE LET b == RL(it.body, env) IN IF b.un THEN Un ELSE Out(Rep(b.s, n))
                        ELSE Un
      [] it.t = "with" -> IF it.ref.k = "name" /\ Defined(env, it.ref.n) /\ ValOf(env, it.ref.n).k = "obj"
                             /\ it.args = <<>>
                          THEN RL(it.body, env) ELSE Un
      [] it.t = "let" -> LET e == LetEnv(it.binds, env) IN IF e.un THEN Un ELSE RL(it.body, e.env)
      [] it.t = "try" -> LET b == RL(it.body, env) IN
                         IF b.un THEN Un
                         ELSE IF it.else = <<>> THEN b
                         ELSE LET e == RL(it.else[1], env) IN IF e.un THEN Un ELSE Out(b.s \o e.s)
      [] it.t = "tryf" -> LET b == RL(it.body, env)
                              e == RL(it.fin, env) IN
                          IF b.un \/ e.un THEN Un ELSE Out(b.s \o e.s)
      [] OTHER -> Un

---------------------------------------------------------------------------
(* properties of the machine *)

Done == outc.k # "run" /\ sk = Len(Case.srcs)

\* every frame only moves forward (termination: each search consumes at least one character)
FrameProgress ==
    [][(sk' = sk /\ Len(ctl') = Len(ctl) /\ ctl # <<>> /\ ctl'[Len(ctl)].k = Top.k) => ctl'[Len(ctl)].pos >= Top.pos]_vars

RECURSIVE Tiles(_, _, _)
Tiles(sp, lo, hi) ==             \* the spans partition [lo, hi) in order
    IF sp = <<>> THEN lo = hi
    ELSE Head(sp)[1] = lo /\ Head(sp)[2] >= lo /\ Tiles(Tail(sp), Head(sp)[2], hi)

\* C01 at the model level: the items of every parsed text (top level and every section) tile it in
\* order, and a literal item is exactly the source slice of its span
Verbatim(items, sp) == \A i \in 1..Len(items) :
                          items[i].t = "text" => items[i].s = Sl(Src, sp[i][1], sp[i][2]) /\ items[i].s # <<>>
Tiling == /\ outc.k = "ok" => Tiles(outc.spans, 0, Len(Src)) /\ Verbatim(outc.prog, outc.spans)
          /\ ret.k = "res" => Tiles(ret.sp, ret.from, ret.to) /\ Verbatim(ret.v, ret.sp)

\* C06 at the model level: an error names a tag of the source and the line is that of its first character
ErrLocated == outc.k = "err" /\ outc.exc = "ParseError" =>
                 /\ 0 <= outc.tlo /\ outc.tlo < outc.thi /\ outc.thi <= Len(Src)
                 /\ outc.loc = outc.tlo
OnlyTwoErrors == outc.k = "err" => outc.exc \in {"ParseError", "SyntaxError"}

\* C07 at the model level: all spellings of one abstract template compile to the same program
\* (or are all rejected, with the same exception class)
SameProgram == (Done /\ Case.same) =>
                 \A i \in 1..Len(done) :
                    /\ done[i].o.k = outc.k
                    /\ outc.k = "ok" => done[i].o.prog = outc.prog
                    /\ outc.k = "err" => done[i].o.exc = outc.exc

LineOfIn(src, p) == 1 + CountC(Sl(src, 0, p), NL)

OutJson(j, o, sc) ==
    IF o.k = "ok"
    THEN LET r == IF Case.same THEN Un ELSE RL(o.prog, Case.env) IN
         [k |-> "ok", prog |-> o.prog, scans |-> sc, un |-> r.un, out |-> r.s]
    ELSE [k |-> "err", exc |-> o.exc, msg |-> o.msg, tlo |-> o.tlo, thi |-> o.thi,
          line |-> LineOfIn(Case.srcs[j].src, o.loc), scans |-> sc]

Export ==
    Done =>
      PrintT(ToJson([tid |-> tid,
                     outs |-> [j \in 1..Len(Case.srcs) |->
                                 IF j <= Len(done) THEN OutJson(j, done[j].o, done[j].scans)
                                 ELSE OutJson(j, outc, scans)]]))

=============================================================================
