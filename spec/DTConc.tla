-------------------------------- MODULE DTConc --------------------------------
(***************************************************************************)
(* Threads rendering one shared template object (String.__call__).         *)
(*                                                                         *)
(* Shared state: the compile lock (DT_String.COOKLOCK), the template's     *)
(* _v_blocks / _v_cooked, and the attributes of the compiled tag objects   *)
(* reachable from _v_blocks ("cells").  One action per shared access:      *)
(*   RC   hasattr(self, '_v_cooked')          (String.__call__)            *)
(*   Acq  with COOKLOCK:                      (String.cook)                *)
(*   WB   self._v_blocks = self.parse(..)                                  *)
(*   WC   self._v_cooked = None                                            *)
(*   Rel  leaving the with block                                           *)
(*   RB   render_blocks(self._v_blocks, ..)   (String.__call__)            *)
(*   Ren  the thread's next access to a cell while rendering; the access   *)
(*        programs are extracted from the real code by a solo pre-pass     *)
(*        (cases.json: prog[t] = sequence of [op |-> "w"|"r"|"u", c |-> cell])*)
(* Between two shared accesses a thread only touches its own namespace,    *)
(* so this granularity is complete provided the pre-pass saw every shared  *)
(* access (the line-granularity stage of the check tests that proviso).    *)
(*                                                                         *)
(* A cell holds the id of the thread whose per-render value it carries     *)
(* (0: the value compiled in).  A thread that reads a cell it has written  *)
(* and finds another thread's value, or reads a cell it has not written    *)
(* and finds any thread's value, has observed another render.              *)
(***************************************************************************)
EXTENDS Integers, Sequences, FiniteSets, TLC, Json, IOUtils

Cases == JsonDeserialize("cases.json")

VARIABLES tid,      \* case
          pc,       \* per thread: "rc" "acq" "dc" "wb" "wc" "rel" "rb" "ren" "done" "crash"
          ip,       \* per thread: index into its render program
          lock,     \* 0 or the holder
          cooked,   \* _v_cooked present
          blocks,   \* 0 (no _v_blocks) or the thread that wrote the current block list
          cells,    \* cell name -> 0 | thread
          mine,     \* per thread: the block list it renders (0: none yet)
          wrote,    \* per thread: cells it has written during this render
          foreign,  \* per thread: TRUE once it has read another thread's per-render value
          saw,      \* per thread: cell -> the value found by its latest read of that cell
          hist,     \* the schedule: sequence of <<thread, action>>
          sw        \* number of preemptions so far (a switch away from a thread that could continue)

vars == <<tid, pc, ip, lock, cooked, blocks, cells, mine, wrote, foreign, saw, hist, sw>>

Case    == Cases[tid]
Threads == 1..Case.n
Prog(t) == Case.prog[t]
CellsOf(cs) == UNION {{cs.prog[t][i].c : i \in 1..Len(cs.prog[t])} : t \in 1..cs.n}   \* may be empty

Init == /\ tid \in 1..Len(Cases)
        /\ pc = [t \in 1..Cases[tid].n |-> "rc"]
        /\ ip = [t \in 1..Cases[tid].n |-> 1]
        /\ lock = 0
        /\ cooked = Cases[tid].cooked
        /\ blocks = IF Cases[tid].cooked THEN 99 ELSE 0         \* 99: compiled before the threads start
        /\ cells = [c \in CellsOf(Cases[tid]) |-> 0]
        /\ mine = [t \in 1..Cases[tid].n |-> 0]
        /\ wrote = [t \in 1..Cases[tid].n |-> {}]
        /\ foreign = [t \in 1..Cases[tid].n |-> FALSE]
        /\ saw = [t \in 1..Cases[tid].n |-> [c \in CellsOf(Cases[tid]) |-> 0]]
        /\ hist = <<>> /\ sw = 0

Enabled(t) == /\ pc[t] \notin {"done", "crash"}
              /\ (pc[t] = "acq" => lock = 0)

\* bookkeeping shared by all actions: the schedule and the preemption count
Sched(t, a) ==
    /\ hist' = Append(hist, <<t, a>>)
    /\ sw' = IF hist # <<>> /\ hist[Len(hist)][1] # t /\ Enabled(hist[Len(hist)][1]) THEN sw + 1 ELSE sw

RC(t) == /\ pc[t] = "rc"
         /\ pc' = [pc EXCEPT ![t] = IF cooked THEN "rb" ELSE "acq"]
         /\ Sched(t, "rc")
         /\ UNCHANGED <<tid, ip, lock, cooked, blocks, cells, mine, wrote, foreign, saw>>

Acq(t) == /\ pc[t] = "acq" /\ lock = 0
          /\ lock' = t /\ pc' = [pc EXCEPT ![t] = "dc"]
          /\ Sched(t, "acq")
          /\ UNCHANGED <<tid, ip, cooked, blocks, cells, mine, wrote, foreign, saw>>

\* cook() first drops the _v_cooked marker (a text that does not compile must not leave the old blocks in charge); the
\* blocks themselves stay until the new list replaces them
DC(t) == /\ pc[t] = "dc"
         /\ cooked' = FALSE /\ pc' = [pc EXCEPT ![t] = "wb"]
         /\ Sched(t, "dc")
         /\ UNCHANGED <<tid, ip, lock, blocks, cells, mine, wrote, foreign, saw>>

WB(t) == /\ pc[t] = "wb"
         /\ blocks' = t /\ pc' = [pc EXCEPT ![t] = "wc"]
         /\ cells' = [c \in DOMAIN cells |-> 0]       \* a new block list: fresh tag objects
         /\ Sched(t, "wb")
         /\ UNCHANGED <<tid, ip, lock, cooked, mine, wrote, foreign, saw>>

WC(t) == /\ pc[t] = "wc"
         /\ cooked' = TRUE /\ pc' = [pc EXCEPT ![t] = "rel"]
         /\ Sched(t, "wc")
         /\ UNCHANGED <<tid, ip, lock, blocks, cells, mine, wrote, foreign, saw>>

Rel(t) == /\ pc[t] = "rel"
          /\ lock' = 0 /\ pc' = [pc EXCEPT ![t] = "rb"]
          /\ Sched(t, "rel")
          /\ UNCHANGED <<tid, ip, cooked, blocks, cells, mine, wrote, foreign, saw>>

\* A guarded write (lazy initialisation: "if self.rcode is None: ... self.rcode = ...") is performed only
\* when the thread's latest read of the guard cell found it uninitialised; otherwise it does not happen
\* at all (no access, no scheduling point).
RECURSIVE EffIp(_, _, _)
EffIp(t, i, sv) == IF i > Len(Prog(t)) THEN i
                   ELSE LET a == Prog(t)[i] IN
                        IF a.op = "w" /\ a.g # "" /\ sv[a.g] # 0 THEN EffIp(t, i + 1, sv) ELSE i

RB(t) == /\ pc[t] = "rb"
         /\ IF blocks = 0
            THEN pc' = [pc EXCEPT ![t] = "crash"] /\ UNCHANGED <<mine, ip>>       \* AttributeError: no _v_blocks
            ELSE /\ mine' = [mine EXCEPT ![t] = blocks]
                 /\ ip' = [ip EXCEPT ![t] = EffIp(t, 1, saw[t])]
                 /\ pc' = [pc EXCEPT ![t] = IF EffIp(t, 1, saw[t]) > Len(Prog(t)) THEN "done" ELSE "ren"]
         /\ Sched(t, "rb")
         /\ UNCHANGED <<tid, lock, cooked, blocks, cells, wrote, foreign, saw>>

\* Cells belong to a block list.  A thread rendering an older block list than the current one works on
\* tag objects no later render shares; the model keeps one generation of cells and lets such a thread
\* run on private copies (no effect on cells, no foreign values).
Ren(t) == /\ pc[t] = "ren"
          /\ LET a == Prog(t)[ip[t]]
                 current == mine[t] = blocks
                 sv == IF a.op = "r" THEN [saw[t] EXCEPT ![a.c] = IF current THEN cells[a.c] ELSE 0] ELSE saw[t]
                 nip == EffIp(t, ip[t] + 1, sv) IN
             /\ IF a.op = "w"
                THEN /\ cells' = IF current THEN [cells EXCEPT ![a.c] = t] ELSE cells
                     /\ wrote' = [wrote EXCEPT ![t] = @ \cup {a.c}]
                     /\ UNCHANGED foreign
                ELSE IF a.op = "u"       \* in-place update of a module- or class-level container (read-modify-write, never private)
                THEN /\ cells' = [cells EXCEPT ![a.c] = t]
                     /\ wrote' = [wrote EXCEPT ![t] = @ \cup {a.c}]
                     /\ foreign' = [foreign EXCEPT ![t] = @ \/ cells[a.c] \notin {0, t}]
                ELSE /\ foreign' = [foreign EXCEPT ![t] = @ \/ (current /\ cells[a.c] \notin {0, t})
                                                            \/ (current /\ a.c \in wrote[t] /\ cells[a.c] # t)]
                     /\ UNCHANGED <<cells, wrote>>
             /\ saw' = [saw EXCEPT ![t] = sv]
             /\ ip' = [ip EXCEPT ![t] = nip]
             /\ pc' = [pc EXCEPT ![t] = IF nip > Len(Prog(t)) THEN "done" ELSE "ren"]
             /\ Sched(t, a.op \o ":" \o a.c)
          /\ UNCHANGED <<tid, lock, cooked, blocks, mine>>

Step(t) == RC(t) \/ Acq(t) \/ DC(t) \/ WB(t) \/ WC(t) \/ Rel(t) \/ RB(t) \/ Ren(t)

AllDone == \A t \in Threads : pc[t] \in {"done", "crash"}

Next == (\E t \in Threads : Step(t)) \/ (AllDone /\ UNCHANGED vars)

Spec == Init /\ [][Next]_vars

---------------------------------------------------------------------------
(* properties *)

\* no thread observes a partially compiled template
NoPartialTemplate == \A t \in Threads : pc[t] # "crash"
Published         == cooked => blocks # 0
\* only the lock holder writes the compiled state
LockDiscipline    == \A t \in Threads : pc[t] \in {"dc", "wb", "wc", "rel"} => lock = t
\* no thread reads another thread's per-render values
Isolation         == \A t \in Threads : ~foreign[t]
\* somebody can always move until everybody is done (deadlock freedom is checked by TLC itself:
\* Next has the stuttering disjunct only when AllDone)

\* bounded preemptions for the larger configurations
PreemptionBound == Case.maxsw < 0 \/ sw <= Case.maxsw

Export == AllDone => PrintT(ToJson([tid |-> tid, hist |-> hist, sw |-> sw,
                                   crash |-> {t \in Threads : pc[t] = "crash"},
                                   foreign |-> {t \in Threads : foreign[t]}]))

=============================================================================
