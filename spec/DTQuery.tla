------------------------------- MODULE DTQuery -------------------------------
(***************************************************************************)
(* sequence-query: the query string from which a batched dtml-in whose     *)
(* start is given through a variable NAME builds the links to the other    *)
(* batches (DT_InSV.sequence_variables.query; the documented idiom is      *)
(*    <a href="URL&dtml-sequence-query;NAME=&dtml-next-sequence-start-number;"> ). *)
(*                                                                         *)
(* Text is a sequence of code points.  Machine: the transcription of the   *)
(* code, one action per statement group:                                   *)
(*    Strip   leading "?" / "&" and trailing "&" are removed               *)
(*    Wrap    the rest is put between two "&"                              *)
(*    Cut     the first  &+ NAME = digits+ &+  is reduced to its last "&"  *)
(*    Finish  the leading "&" becomes "?"   (an empty rest gives "?")      *)
(* Clauses (checked as invariants on the final state):                     *)
(*    Q_Shape      the result is "?" or "?....&": NAME=n can be appended   *)
(*    Q_Others     the other parameters are all kept, in order             *)
(*    Q_StartGone  the first NAME=digits parameter is gone (and only it)   *)
(*    Q_Stable     the query of (result + NAME=n) is the result again:     *)
(*                 following a link leads to a page with the same links    *)
(* A "parameter" is a maximal run without "&".                             *)
(***************************************************************************)
EXTENDS Integers, Sequences, FiniteSets, TLC, Json, IOUtils

Cases == JsonDeserialize("qcases.json")     \* [ [qs |-> <<code points>>, name |-> <<code points>>, n |-> <<digits>>] ]

AMP == 38
QM  == 63
EQ  == 61
IsDigit(c) == c >= 48 /\ c <= 57

VARIABLES tid, pc, s, hist
vars == <<tid, pc, s, hist>>

C == Cases[tid]

RECURSIVE LStrip(_)
LStrip(t) == IF t # <<>> /\ Head(t) \in {QM, AMP} THEN LStrip(Tail(t)) ELSE t
RECURSIVE RStrip(_)
RStrip(t) == IF t # <<>> /\ t[Len(t)] = AMP THEN RStrip(SubSeq(t, 1, Len(t) - 1)) ELSE t

\* length of the longest run of characters satisfying a test, from position i
RECURSIVE RunAmp(_, _)
RunAmp(t, i) == IF i <= Len(t) /\ t[i] = AMP THEN 1 + RunAmp(t, i + 1) ELSE 0
RECURSIVE RunDig(_, _)
RunDig(t, i) == IF i <= Len(t) /\ IsDigit(t[i]) THEN 1 + RunDig(t, i + 1) ELSE 0

HasAt(t, i, w) == i + Len(w) - 1 <= Len(t) /\ SubSeq(t, i, i + Len(w) - 1) = w

\* does  &+ NAME = digits+ &+  match at position i (greedy runs: the pattern has no other way to match)?  -> end position or 0
MatchAt(t, i, name) ==
    LET a == RunAmp(t, i) IN
    IF a = 0 THEN 0
    ELSE LET j == i + a IN
         IF ~HasAt(t, j, name \o <<EQ>>) THEN 0
         ELSE LET k == j + Len(name) + 1
                  d == RunDig(t, k) IN
              IF d = 0 THEN 0
              ELSE LET m == k + d
                       b == RunAmp(t, m) IN
                   IF b = 0 THEN 0 ELSE m + b - 1

\* a run of several "&" can also match from its second, third ... "&": re.search takes the leftmost start
FirstMatch(t, name) ==
    LET starts == {i \in 1..Len(t) : MatchAt(t, i, name) > 0} IN
    IF starts = {} THEN <<0, 0>>
    ELSE LET i == CHOOSE x \in starts : \A y \in starts : x <= y IN <<i, MatchAt(t, i, name)>>

Init == /\ tid \in 1..Len(Cases) /\ pc = "strip" /\ s = Cases[tid].qs /\ hist = <<>>

Strip == /\ pc = "strip"
         /\ s' = RStrip(LStrip(s))
         /\ pc' = IF RStrip(LStrip(s)) = <<>> THEN "empty" ELSE "wrap"
         /\ hist' = Append(hist, "strip") /\ UNCHANGED tid

Wrap == /\ pc = "wrap"
        /\ s' = <<AMP>> \o s \o <<AMP>>
        /\ pc' = "cut" /\ hist' = Append(hist, "wrap") /\ UNCHANGED tid

Cut == /\ pc = "cut"
       /\ LET m == FirstMatch(s, C.name) IN
          s' = IF m[1] = 0 THEN s
               ELSE SubSeq(s, 1, m[1] - 1) \o SubSeq(s, m[2], Len(s))
       /\ pc' = "finish" /\ hist' = Append(hist, "cut") /\ UNCHANGED tid

Finish == /\ pc \in {"finish", "empty"}
          /\ s' = IF pc = "empty" THEN <<QM>> ELSE <<QM>> \o Tail(s)
          /\ pc' = "done" /\ hist' = Append(hist, "finish") /\ UNCHANGED tid

Next == Strip \/ Wrap \/ Cut \/ Finish
Spec == Init /\ [][Next]_vars

---------------------------------------------------------------------------
\* the same function in one piece (used for the stability clause)
QueryOf(qs, name) ==
    LET t == RStrip(LStrip(qs)) IN
    IF t = <<>> THEN <<QM>>
    ELSE LET w == <<AMP>> \o t \o <<AMP>>
             m == FirstMatch(w, name)
             c == IF m[1] = 0 THEN w ELSE SubSeq(w, 1, m[1] - 1) \o SubSeq(w, m[2], Len(w))
         IN <<QM>> \o Tail(c)

\* parameters: maximal runs without "&"
RECURSIVE Params(_)
Params(t) ==
    IF t = <<>> THEN <<>>
    ELSE IF Head(t) = AMP THEN Params(Tail(t))
    ELSE LET n == CHOOSE k \in 1..Len(t) : (k = Len(t) \/ t[k + 1] = AMP) /\ \A j \in 1..k : t[j] # AMP
         IN <<SubSeq(t, 1, n)>> \o Params(SubSeq(t, n + 1, Len(t)))

IsStart(p, name) ==
    /\ Len(p) > Len(name) + 1 /\ SubSeq(p, 1, Len(name) + 1) = name \o <<EQ>>
    /\ \A i \in (Len(name) + 2)..Len(p) : IsDigit(p[i])

RECURSIVE DropFirst(_, _)
DropFirst(ps, name) ==
    IF ps = <<>> THEN <<>>
    ELSE IF IsStart(Head(ps), name) THEN Tail(ps) ELSE <<Head(ps)>> \o DropFirst(Tail(ps), name)

Done == pc = "done"

\* what the parameters of the incoming string are: the leading "?" is not part of the first parameter
InParams == Params(LStrip(C.qs))

Q_Shape     == Done => /\ s # <<>> /\ Head(s) = QM
                       /\ (Len(s) > 1 => s[Len(s)] = AMP /\ s[2] # AMP)
Q_Others    == Done => Params(Tail(s)) = DropFirst(InParams, C.name)
Q_StartGone == Done => ((\E i \in 1..Len(InParams) : IsStart(InParams[i], C.name))
                          => (Len(Params(Tail(s))) = Len(InParams) - 1))
\* (with the start parameter given twice only the first one is removed -- the second would be taken for the new one; links are
\* claimed stable for query strings that carry it at most once, which is what the links themselves produce)
NStart      == Cardinality({i \in 1..Len(InParams) : IsStart(InParams[i], C.name)})
Q_Stable    == Done => (NStart <= 1 => QueryOf(Tail(s) \o C.name \o <<EQ>> \o C.n, C.name) = s)
Q_Agree     == Done => s = QueryOf(C.qs, C.name)

Export == Done => PrintT(ToJson([tid |-> tid, q |-> s]))
=============================================================================
