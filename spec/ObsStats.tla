------------------------------- MODULE ObsStats -------------------------------
(* Validation of statistics recorded from the real dtml-in against the clauses of C16. *)
EXTENDS DTStats, IOUtils
Cases == JsonDeserialize("cases.json")
Verdicts == \A t \in 1..Len(Cases) :
               PrintT(ToJson([tid |-> t, failed |-> IF Cases[t].o.ok = 0 THEN {"Renders"}
                                                    ELSE Failed(StatClauses(Cases[t].d, Cases[t].o))]))
=============================================================================
