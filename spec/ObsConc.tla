-------------------------------- MODULE ObsConc --------------------------------
(***************************************************************************)
(* Trace validation for DTConc: a case carries, besides the access         *)
(* programs, the sequence of shared accesses recorded from real threads    *)
(* under the deterministic scheduler (trace[l] = <<thread, action>>).      *)
(* Every recorded access must be an enabled action of the specification,   *)
(* in order; the invariants are evaluated after every step.                *)
(***************************************************************************)
EXTENDS DTConc

VARIABLE l

ovars == <<vars, l>>

OInit == Init /\ l = 1

ONext == /\ l <= Len(Case.trace)
         /\ LET e == Case.trace[l] IN
              /\ Step(e[1])
              /\ hist'[Len(hist')] = <<e[1], e[2]>>
         /\ l' = l + 1

OSpec == OInit /\ [][ONext]_ovars

\* per trace: how far the specification could follow, and what it concluded
Verdict == (l = Len(Case.trace) + 1 \/ ~ENABLED ONext) =>
             PrintT(ToJson([tid |-> tid, matched |-> l - 1, len |-> Len(Case.trace),
                            crash |-> {t \in Threads : pc[t] = "crash"},
                            foreign |-> {t \in Threads : foreign[t]},
                            done |-> {t \in Threads : pc[t] = "done"}]))
=============================================================================
