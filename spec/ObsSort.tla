------------------------------- MODULE ObsSort -------------------------------
(***************************************************************************)
(* Validation of orders recorded from the real dtml-in sort against the    *)
(* clauses of C13 (DTSort).  cases.json: [{l, spec, rev, order, ok}]       *)
(* ok = 0: the rendering raised or the caller's list was modified.         *)
(***************************************************************************)
EXTENDS DTSort, IOUtils

Cases == JsonDeserialize("cases.json")

Verdicts ==
    \A t \in 1..Len(Cases) :
        LET c == Cases[t] IN
        PrintT(ToJson([tid |-> t,
                       failed |-> IF c.ok = 0 THEN {"Renders"}
                                  ELSE Failed(SortClauses(c.l, c.spec, c.rev = 1, c.order))]))
=============================================================================
