-------------------------------- MODULE DTJoin --------------------------------
(***************************************************************************)
(* How rendered pieces become the result:                                  *)
(*   _DocumentTemplate.render_blocks (0 pieces -> '', 1 piece -> that      *)
(*   piece unchanged, more -> join_unicode), join_unicode (bytes pieces    *)
(*   decoded with the template encoding), html_quote (decodes bytes        *)
(*   first), the joins of dtml-in (join_unicode over the per-item results) *)
(*   and of try/with/let bodies (own render_blocks), if bodies (inline),   *)
(*   and ustr (the string form of non-string values).                      *)
(*                                                                         *)
(* A template is a tree (cases.json):                                      *)
(*   [t |-> "piece", ty |-> "text"|"bytes", s |-> code points, q |-> html_quote?]      *)
(*   [t |-> "val", kind |-> ..., s |-> code points of the expected string form]       *)
(*   [t |-> "grp", g |-> "if"|"in"|"try"|"with"|"let"|"handler", c |-> children]      *)
(* A bytes piece is s encoded with the template's own encoding, so decoding *)
(* gives s back (the codec is a trusted primitive).                        *)
(***************************************************************************)
EXTENDS Integers, Sequences, FiniteSets, TLC, Json, IOUtils

Cases == JsonDeserialize("cases.json")

VARIABLES tid, i, rendered, pc, res

vars == <<tid, i, rendered, pc, res>>

Txt(s)   == [ty |-> "text", s |-> s]
Byt(s)   == [ty |-> "bytes", s |-> s]
Err(c)   == [ty |-> "error", s |-> c]

EscC(c) == CASE c = 38 -> <<38, 97, 109, 112, 59>> [] c = 60 -> <<38, 108, 116, 59>>
             [] c = 62 -> <<38, 103, 116, 59>> [] c = 34 -> <<38, 113, 117, 111, 116, 59>>
             [] c = 39 -> <<38, 35, 120, 50, 55, 59>> [] OTHER -> <<c>>
RECURSIVE Esc(_)
Esc(s) == IF s = <<>> THEN <<>> ELSE EscC(Head(s)) \o Esc(Tail(s))

RECURSIVE CatAll(_)
CatAll(ps) == IF ps = <<>> THEN <<>> ELSE Head(ps).s \o CatAll(Tail(ps))

HasErr(ps) == \E j \in 1..Len(ps) : ps[j].ty = "error"
FirstErr(ps) == ps[CHOOSE j \in 1..Len(ps) : ps[j].ty = "error" /\ \A k \in 1..j - 1 : ps[k].ty # "error"]

\* render_blocks: the result of a list of rendered pieces (empty pieces were never appended)
Result(ps0) ==
    LET ps == SelectSeq(ps0, LAMBDA p : p.ty = "error" \/ p.s # <<>>) IN
    IF HasErr(ps) THEN FirstErr(ps)
    ELSE IF Len(ps) = 0 THEN Txt(<<>>)
    ELSE IF Len(ps) = 1 THEN ps[1]
    ELSE Txt(CatAll(ps))                       \* join_unicode: bytes decoded with the encoding

\* join_unicode over the per-item results of dtml-in: always ''.join, so a lone bytes result is decoded too
JoinIn(ps) == IF HasErr(ps) THEN FirstErr(ps) ELSE
              IF \A j \in 1..Len(ps) : ps[j].ty = "bytes" /\ FALSE THEN Byt(CatAll(ps)) ELSE Txt(CatAll(ps))

\* one inserted value: html_quote decodes bytes and escapes; plain insertion keeps the type
PieceOf(n) == IF n.q THEN Txt(Esc(n.s)) ELSE [ty |-> n.ty, s |-> n.s]

\* ustr: the string form of a non-string value; html-quoted (q) it is decoded like any bytes and escaped
ValOf(n) ==
    CASE n.kind = "str-wrong" -> Err("ValueError")        \* __str__ returned a non-string
      [] n.kind = "str-raises" -> Err("RuntimeError")     \* __str__ raised
      [] n.q -> Txt(Esc(n.s))
      [] n.kind = "str-bytes" -> Byt(n.s)                 \* __str__ returned bytes
      [] OTHER -> Txt(n.s)                                \* str(v) / the exception's message

RECURSIVE Render(_)
Render(nodes) ==      \* the list of pieces render_blocks_ appends for a list of nodes
    IF nodes = <<>> THEN <<>>
    ELSE LET n == Head(nodes)
             rest == Render(Tail(nodes))
         IN CASE n.t = "piece" -> <<PieceOf(n)>> \o rest
              [] n.t = "val"   -> <<ValOf(n)>> \o rest
              [] n.t = "grp"   ->
                   IF n.g = "if" THEN Render(n.c) \o rest                  \* inline, same piece list
                   ELSE IF n.g \in {"in", "inb"} THEN <<JoinIn(<<Result(Render(n.c))>>)>> \o rest
                   ELSE IF n.g \in {"in2", "inb2"}          \* two elements (inb*: the batched renderer)
                        THEN <<JoinIn(<<Result(Render(n.c)), Result(Render(n.c))>>)>> \o rest
                   ELSE <<Result(Render(n.c))>> \o rest                   \* try / with / let: own render_blocks

Init == /\ tid \in 1..Len(Cases) /\ i = 1 /\ rendered = <<>> /\ pc = "run" /\ res = Txt(<<>>)

Step == /\ pc = "run" /\ i <= Len(Cases[tid].prog)
        /\ rendered' = rendered \o Render(<<Cases[tid].prog[i]>>)
        /\ i' = i + 1 /\ UNCHANGED <<tid, pc, res>>

Finish == /\ pc = "run" /\ i > Len(Cases[tid].prog)
          /\ res' = Result(rendered) /\ pc' = "done"
          /\ UNCHANGED <<tid, i, rendered>>

Next == Step \/ Finish
Spec == Init /\ [][Next]_vars

---------------------------------------------------------------------------
(* C19 *)

RECURSIVE AsText(_)
AsText(nodes) ==      \* the same template with every bytes piece replaced by its text
    IF nodes = <<>> THEN <<>>
    ELSE LET n == Head(nodes) IN
         <<CASE n.t = "piece" -> [n EXCEPT !.ty = "text"]
             [] n.t = "grp" -> [n EXCEPT !.c = AsText(n.c)]
             [] OTHER -> n>> \o AsText(Tail(nodes))

NonEmptyCount(ps) == Len(SelectSeq(ps, LAMBDA p : p.ty = "error" \/ p.s # <<>>))

\* more than one piece => the result is text, and equals the result with s in place of s.encode(enc)
MultiIsText == (pc = "done" /\ NonEmptyCount(rendered) > 1 /\ ~HasErr(rendered)) => res.ty = "text"
BytesEquivText == (pc = "done" /\ NonEmptyCount(rendered) > 1 /\ ~HasErr(rendered)) =>
        res = Result(Render(AsText(Cases[tid].prog)))
\* conversion raises only when the value's own __str__ misbehaves
RaisesOnlyOwn == pc = "done" =>
    (res.ty = "error" <=> \E j \in 1..Len(rendered) : rendered[j].ty = "error")

Export == pc = "done" => PrintT(ToJson([tid |-> tid, ty |-> res.ty, s |-> res.s, np |-> NonEmptyCount(rendered)]))
=============================================================================
