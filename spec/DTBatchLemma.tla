---------------------------- MODULE DTBatchLemma ----------------------------
(***************************************************************************)
(* The window arithmetic of DT_InSV.opt followed by the final clamp of     *)
(* DT_In.renderwb, for a finite sequence of ANY length and ANY integer     *)
(* parameters.  The lemmas InRange and Ends of C11 are checked here        *)
(* symbolically with Apalache over unbounded integers (DTBatch checks the  *)
(* same arithmetic, plus probes, rows, links and navigation, exhaustively  *)
(* over enumerated ranges with TLC; spec/DTBatchLemmaX.tla makes TLC check *)
(* that LmS / LmE below are the operator Opt of DTBatch on those ranges).  *)
(***************************************************************************)
EXTENDS Integers

LmHas(L, i) == i >= 0 /\ i < L

LmSize(start, end, size) ==
    IF size < 1
    THEN IF start > 0 /\ end > 0 /\ end >= start THEN end + 1 - start ELSE 7
    ELSE size

\* opt(start, end, size, orphan, sequence): the window start ...
LmS(L, start, end, size, orphan) ==
    IF start > 0 THEN (IF LmHas(L, start - 1) THEN start ELSE L)
    ELSE IF end > 0 THEN
        LET e1 == IF LmHas(L, end - 1) THEN end ELSE L
            s1 == e1 + 1 - LmSize(start, end, size)
        IN IF s1 - 1 < orphan THEN 1 ELSE s1
    ELSE 1

\* ... and the window end
LmE(L, start, end, size, orphan) ==
    LET z == LmSize(start, end, size) IN
    IF start > 0 THEN
        LET s1 == IF LmHas(L, start - 1) THEN start ELSE L IN
        IF end > 0 THEN (IF end < s1 THEN s1 ELSE end)
        ELSE LET e1 == s1 + z - 1 IN IF LmHas(L, e1 + orphan - 1) THEN e1 ELSE L
    ELSE IF end > 0 THEN (IF LmHas(L, end - 1) THEN end ELSE L)
    ELSE IF LmHas(L, z + orphan - 1) THEN z ELSE L

VARIABLES
    \* @type: Int;
    L,
    \* @type: Int;
    start,
    \* @type: Int;
    end,
    \* @type: Int;
    size,
    \* @type: Int;
    orphan,
    \* @type: Int;
    ws,
    \* @type: Int;
    we,
    \* @type: Str;
    pc

Init == /\ L \in Int /\ start \in Int /\ end \in Int /\ size \in Int /\ orphan \in Int
        /\ L >= 1 /\ orphan >= 0
        /\ ws = 0 /\ we = 0 /\ pc = "window"

\* renderwb:  start, end, sz = opt(...)  then  try: sequence[end-1] except IndexError: end = len(sequence)
Window == /\ pc = "window"
          /\ ws' = LmS(L, start, end, size, orphan)
          /\ we' = LET e == LmE(L, start, end, size, orphan) IN IF LmHas(L, e - 1) THEN e ELSE L
          /\ pc' = "done"
          /\ UNCHANGED <<L, start, end, size, orphan>>

Next == Window \/ (pc = "done" /\ UNCHANGED <<L, start, end, size, orphan, ws, we, pc>>)

\* C11: the displayed window lies inside the sequence
InRange == pc = "done" => (1 <= ws /\ ws <= we /\ we <= L)
\* C11: with a start and no end the window ends at start+size-1 unless fewer than orphan elements would remain after it
Ends == (pc = "done" /\ start > 0 /\ start <= L /\ end <= 0 /\ size >= 1) =>
           (IF start + size - 1 + orphan <= L THEN we = start + size - 1 ELSE we = L)
\* C11: without start and end the first window is 1..size (or everything, by the orphan rule)
FirstWindow == (pc = "done" /\ start <= 0 /\ end <= 0 /\ size >= 1) =>
           (ws = 1 /\ (IF size + orphan <= L THEN we = size ELSE we = L))
=============================================================================
